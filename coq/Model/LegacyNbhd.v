(* Model of mesa/space.py  _Grid.get_neighborhood / get_neighbors / get_cell_list_contents
   (orthogonal legacy grids), transcribed statement by statement: cache lookup first, then
   the bounds test, the interior fast path, the border path, dict-key de-duplication,
   pop(pos), cache store.  Definitions only. *)
From Coq Require Import ZArith List Bool.
From Mesa Require Import Common.ListX Generated.Tables.
Import ListNotations.
Open Scope Z_scope.

Definition coord := (Z * Z)%type.
Definition coord_eqb (a b : coord) : bool := (fst a =? fst b) && (snd a =? snd b).

Record grid := { g_w : Z; g_h : Z; g_torus : bool }.

Definition out_of_bounds (g : grid) (p : coord) : bool :=
  (fst p <? 0) || (fst p >=? g_w g) || (snd p <? 0) || (snd p >=? g_h g).

Record query := { q_pos : coord; q_moore : bool; q_ic : bool; q_r : Z }.

(* interior fast path: guard and body *)
Definition fast_guard (g : grid) (q : query) : bool :=
  let '(x, y) := q_pos q in let r := q_r q in
  (x >=? r) && (g_w g - x >? r) && (y >=? r) && (g_h g - y >? r).

Definition nb_fast (q : query) : list coord :=
  let '(x, y) := q_pos q in let r := q_r q in
  flat_map (fun nx =>
    flat_map (fun ny =>
      if negb (q_moore q) && (Z.abs (nx - x) + Z.abs (ny - y) >? r) then [] else [(nx, ny)])
      (zrange (y - r) (y + r)))
    (zrange (x - r) (x + r)).

Definition nb_slow (g : grid) (q : query) : list coord :=
  let '(x, y) := q_pos q in let r := q_r q in
  flat_map (fun dx =>
    flat_map (fun dy =>
      if negb (q_moore q) && (Z.abs dx + Z.abs dy >? r) then []
      else
        let nx := x + dx in let ny := y + dy in
        let nx' := if g_torus g then nx mod g_w g else nx in
        let ny' := if g_torus g then ny mod g_h g else ny in
        if out_of_bounds g (nx', ny') then [] else [(nx', ny')])
      (zrange (- r) r))
    (zrange (- r) r).

(* the body executed on a cache miss with an in-bounds pos *)
Definition compute_nbhd (g : grid) (q : query) : list coord :=
  let raw := if fast_guard g q then nb_fast q else nb_slow g q in
  let keys := dedup_first coord_eqb raw in
  if q_ic q then keys else remove_key coord_eqb (q_pos q) keys.

(* --- the cache, keyed by the tuple extracted from the source (Generated.Tables) --- *)
Definition field_val (q : query) (f : nb_field) : list Z :=
  match f with
  | FPos => [fst (q_pos q); snd (q_pos q)]
  | FMoore => [if q_moore q then 1 else 0]
  | FCenter => [if q_ic q then 1 else 0]
  | FRadius => [q_r q]
  end.
Definition key_of (fields : list nb_field) (q : query) : list Z := flat_map (field_val q) fields.

Fixpoint zlist_eqb (a b : list Z) : bool :=
  match a, b with
  | [], [] => true
  | x :: a', y :: b' => (x =? y) && zlist_eqb a' b'
  | _, _ => false
  end.

Definition cache := list (list Z * list coord).
Fixpoint cache_get (k : list Z) (c : cache) : option (list coord) :=
  match c with
  | [] => None
  | (k', v) :: t => if zlist_eqb k k' then Some v else cache_get k t
  end.

Inductive result (A : Type) := Ok (a : A) | Err (kind : Z).
Arguments Ok {A}. Arguments Err {A}.
Definition E_OUT_OF_BOUNDS : Z := 1.

Definition get_neighborhood (fields : list nb_field) (g : grid) (c : cache) (q : query)
  : cache * result (list coord) :=
  let k := key_of fields q in
  match cache_get k c with
  | Some v => (c, Ok v)
  | None =>
      if out_of_bounds g (q_pos q) then (c, Err E_OUT_OF_BOUNDS)
      else let v := compute_nbhd g q in ((k, v) :: c, Ok v)
  end.

(* --- contents: which agents sit where (legacy Single/Multi grid content lists) --- *)
Definition contents := list (coord * list Z).   (* cell -> agent ids, in cell order *)
Fixpoint cell_agents (cs : contents) (p : coord) : list Z :=
  match cs with
  | [] => []
  | (p', l) :: t => if coord_eqb p p' then l else cell_agents t p
  end.

Definition agents_in (cs : contents) (cells : list coord) : list Z :=
  flat_map (cell_agents cs) cells.

(* --- histories --- *)
Inductive op :=
| Nbhd (q : query)          (* get_neighborhood / iter_neighborhood *)
| Nbrs (q : query)          (* get_neighbors / iter_neighbors *)
| Contents (cells : list coord).  (* get_cell_list_contents *)

Definition enc (p : coord) : Z := fst p * 4294967296 + snd p.
Definition obs_cells (l : list coord) : list Z :=
  let e := map enc l in (if has_dup e then 1 else 0) :: zsort e.
Definition obs_agents (l : list Z) : list Z :=
  (if has_dup l then 1 else 0) :: zsort l.
Definition obs_err (k : Z) : list Z := [-1; k].

Definition step (fields : list nb_field) (g : grid) (cs : contents) (c : cache) (o : op)
  : cache * list Z :=
  match o with
  | Nbhd q =>
      match get_neighborhood fields g c q with
      | (c', Ok v) => (c', obs_cells v)
      | (c', Err k) => (c', obs_err k)
      end
  | Nbrs q =>
      match get_neighborhood fields g c q with
      | (c', Ok v) => (c', obs_agents (agents_in cs v))
      | (c', Err k) => (c', obs_err k)
      end
  | Contents cells => (c, obs_agents (agents_in cs cells))
  end.

Fixpoint run_ops (fields : list nb_field) (g : grid) (cs : contents) (c : cache) (ops : list op)
  : list (list Z) :=
  match ops with
  | [] => []
  | o :: t => let '(c', ob) := step fields g cs c o in ob :: run_ops fields g cs c' t
  end.

Record case := { c_grid : grid; c_contents : contents; c_ops : list op }.
Definition run_case (c : case) : list (list Z) :=
  run_ops gen_grid_cache_key (c_grid c) (c_contents c) [] (c_ops c).
