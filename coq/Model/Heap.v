(* Statement-by-statement transcription of CPython's Lib/heapq.py (heappush, heappop, _siftdown,
   _siftup), generic in the element type, on Coq lists with nat positions.  Definitions only
   (plus closed sanity Examples that reproduce arrays observed on the real CPython heapq).

   A Python list is a Coq list; `heap[i] = x` is `set_nth heap i x`; `heap[i]` is `nth i heap d`
   (the default d is never used: every read is in range).  The two `while` loops are structural
   Fixpoints on a nat fuel; fuel = len(heap) is enough for both (pos strictly decreases in
   _siftdown, strictly increases below len(heap) in _siftup). *)
From Coq Require Import ZArith List Bool PeanoNat Arith.
Import ListNotations.

Section HeapDef.
Variable A : Type.
Variable ltb : A -> A -> bool.        (* the elements' __lt__ *)

(* heap[i] = x   (no effect out of range; never happens) *)
Fixpoint set_nth (l : list A) (i : nat) (x : A) : list A :=
  match l, i with
  | [], _ => []
  | _ :: t, O => x :: t
  | h :: t, S j => h :: set_nth t j x
  end.

(* heap.pop(): the list without its last element, and that element; None = IndexError *)
Fixpoint pop_last (l : list A) : option (list A * A) :=
  match l with
  | [] => None
  | x :: t => match pop_last t with
              | None => Some ([], x)
              | Some (t', y) => Some (x :: t', y)
              end
  end.

(* def _siftdown(heap, startpos, pos):
       newitem = heap[pos]
       while pos > startpos:                        <- siftdown_loop
           parentpos = (pos - 1) >> 1
           parent = heap[parentpos]
           if newitem < parent:
               heap[pos] = parent
               pos = parentpos
               continue
           break
       heap[pos] = newitem *)
Fixpoint siftdown_loop (fuel : nat) (heap : list A) (startpos pos : nat) (newitem : A) : list A :=
  match fuel with
  | O => set_nth heap pos newitem                          (* not reached with fuel = len(heap) *)
  | S fuel' =>
      if startpos <? pos then                              (* while pos > startpos: *)
        let parentpos := (pos - 1) / 2 in                  (*   parentpos = (pos - 1) >> 1 *)
        let parent := nth parentpos heap newitem in        (*   parent = heap[parentpos] *)
        if ltb newitem parent then                         (*   if newitem < parent: *)
          siftdown_loop fuel' (set_nth heap pos parent)    (*     heap[pos] = parent *)
                        startpos parentpos newitem         (*     pos = parentpos; continue *)
        else set_nth heap pos newitem                      (*   break;  heap[pos] = newitem *)
      else set_nth heap pos newitem                        (* heap[pos] = newitem *)
  end.

Definition siftdown (heap : list A) (startpos pos : nat) : list A :=
  match nth_error heap pos with
  | None => heap                                           (* IndexError; never happens *)
  | Some newitem =>                                        (* newitem = heap[pos] *)
      siftdown_loop (length heap) heap startpos pos newitem
  end.

(* def _siftup(heap, pos):
       endpos = len(heap)
       startpos = pos
       newitem = heap[pos]
       childpos = 2*pos + 1
       while childpos < endpos:                     <- siftup_loop (returns heap and pos)
           rightpos = childpos + 1
           if rightpos < endpos and not heap[childpos] < heap[rightpos]:
               childpos = rightpos
           heap[pos] = heap[childpos]
           pos = childpos
           childpos = 2*pos + 1
       heap[pos] = newitem
       _siftdown(heap, startpos, pos) *)
Fixpoint siftup_loop (fuel : nat) (heap : list A) (endpos pos : nat) (newitem : A) : list A * nat :=
  match fuel with
  | O => (heap, pos)                                       (* not reached with fuel = len(heap) *)
  | S fuel' =>
      let childpos := 2 * pos + 1 in                       (* childpos = 2*pos + 1 *)
      if childpos <? endpos then                           (* while childpos < endpos: *)
        let rightpos := childpos + 1 in                    (*   rightpos = childpos + 1 *)
        let childpos :=                                    (*   if rightpos < endpos and not heap[childpos] < heap[rightpos]: *)
          if (rightpos <? endpos) &&
             negb (ltb (nth childpos heap newitem) (nth rightpos heap newitem))
          then rightpos else childpos in                   (*     childpos = rightpos *)
        siftup_loop fuel'
          (set_nth heap pos (nth childpos heap newitem))   (*   heap[pos] = heap[childpos] *)
          endpos childpos newitem                          (*   pos = childpos; childpos = 2*pos + 1 *)
      else (heap, pos)
  end.

Definition siftup (heap : list A) (pos : nat) : list A :=
  let endpos := length heap in                             (* endpos = len(heap) *)
  let startpos := pos in                                   (* startpos = pos *)
  match nth_error heap pos with
  | None => heap                                           (* IndexError; never happens *)
  | Some newitem =>                                        (* newitem = heap[pos] *)
      let '(heap1, pos1) := siftup_loop (length heap) heap endpos pos newitem in
      let heap2 := set_nth heap1 pos1 newitem in           (* heap[pos] = newitem *)
      siftdown heap2 startpos pos1                         (* _siftdown(heap, startpos, pos) *)
  end.

(* def heappush(heap, item):
       heap.append(item)
       _siftdown(heap, 0, len(heap)-1) *)
Definition heappush (heap : list A) (item : A) : list A :=
  let heap := heap ++ [item] in                            (* heap.append(item) *)
  siftdown heap 0 (length heap - 1).                       (* _siftdown(heap, 0, len(heap)-1) *)

(* def heappop(heap):
       lastelt = heap.pop()        # raises IndexError if heap is empty
       if heap:
           returnitem = heap[0]
           heap[0] = lastelt
           _siftup(heap, 0)
           return returnitem
       return lastelt *)
Definition heappop (heap : list A) : option (A * list A) :=
  match pop_last heap with
  | None => None                                           (* IndexError *)
  | Some (heap, lastelt) =>                                (* lastelt = heap.pop() *)
      match heap with
      | [] => Some (lastelt, [])                           (* return lastelt *)
      | returnitem :: _ =>                                 (* if heap: returnitem = heap[0] *)
          let heap := set_nth heap 0 lastelt in            (*   heap[0] = lastelt *)
          Some (returnitem, siftup heap 0)                 (*   _siftup(heap, 0); return returnitem *)
      end
  end.

End HeapDef.

Arguments set_nth {A}.
Arguments pop_last {A}.

(* ---------- sanity: arrays observed on the real CPython heapq ---------- *)
Inductive zop := ZPush (z : Z) | ZPop.

(* runs the operations; returns the final array and the popped values (None = IndexError) *)
Fixpoint zrun (h : list Z) (ops : list zop) : list Z * list (option Z) :=
  match ops with
  | [] => (h, [])
  | ZPush z :: r => zrun (heappush Z Z.ltb h z) r
  | ZPop :: r =>
      match heappop Z Z.ltb h with
      | None => let '(h', out) := zrun h r in (h', None :: out)
      | Some (x, h') => let '(h'', out) := zrun h' r in (h'', Some x :: out)
      end
  end.

Definition zpushes (l : list Z) : list zop := map ZPush l.

Open Scope Z_scope.

Example heapq_ex1 : fst (zrun [] (zpushes [1;3;2;5;4])) = [1;3;2;5;4].
Proof. vm_compute. reflexivity. Qed.

Example heapq_ex2a : fst (zrun [] (zpushes [9;8;7;6;5;4;3;2;1;0])) = [0;1;4;3;2;8;5;9;6;7].
Proof. vm_compute. reflexivity. Qed.

Example heapq_ex2b : heappop Z Z.ltb [0;1;4;3;2;8;5;9;6;7] = Some (0, [1;2;4;3;7;8;5;9;6]).
Proof. vm_compute. reflexivity. Qed.

Example heapq_ex2c : heappop Z Z.ltb [1;2;4;3;7;8;5;9;6] = Some (1, [2;3;4;6;7;8;5;9]).
Proof. vm_compute. reflexivity. Qed.

Example heapq_ex2 :
  zrun [] (zpushes [9;8;7;6;5;4;3;2;1;0] ++ [ZPop; ZPop]) = ([2;3;4;6;7;8;5;9], [Some 0; Some 1]).
Proof. vm_compute. reflexivity. Qed.

(* CPython: after the first 7 operations the array is [1;1;3;6;5] (5 elements: 6 pushes, 1 pop);
   [1;1;1;6;5;3] is the array after the 8th operation (push 1). *)
Example heapq_ex3a :
  zrun [] [ZPush 5; ZPush 6; ZPush 1; ZPush 1; ZPush 0; ZPush 3; ZPop] = ([1;1;3;6;5], [Some 0]).
Proof. vm_compute. reflexivity. Qed.

Example heapq_ex3b :
  zrun [] [ZPush 5; ZPush 6; ZPush 1; ZPush 1; ZPush 0; ZPush 3; ZPop; ZPush 1]
  = ([1;1;1;6;5;3], [Some 0]).
Proof. vm_compute. reflexivity. Qed.

Example heapq_ex3 :
  zrun [] [ZPush 5; ZPush 6; ZPush 1; ZPush 1; ZPush 0; ZPush 3; ZPop; ZPush 1; ZPop; ZPush 0;
           ZPush 1; ZPush 9; ZPush 9; ZPush 0]
  = ([0;0;1;6;1;3;1;9;9;5], [Some 0; Some 1]).
Proof. vm_compute. reflexivity. Qed.

Example heapq_ex4 :
  zrun [] [ZPush 8; ZPush 5; ZPush 7; ZPush 3; ZPush 3; ZPop; ZPop; ZPush 5; ZPush 4; ZPush 1;
           ZPop; ZPush 5; ZPop; ZPush 0]
  = ([0;5;5;8;5;7], [Some 3; Some 3; Some 1; Some 4]).
Proof. vm_compute. reflexivity. Qed.

Example heapq_pop_empty : heappop Z Z.ltb [] = None.
Proof. vm_compute. reflexivity. Qed.
