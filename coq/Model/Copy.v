(* Model of copying cell spaces and agent sets (copy.deepcopy / pickle round trip), C19.

   A typed heap holds the objects whose identity matters:
     cells    (mesa/discrete_space/cell.py  Cell: __slots__ + __dict__),
     agents   (CellAgent: label, _mesa_cell),
     layers   (PropertyLayer: name + data array, one value per cell),
     classes  (the dynamically created GridCell classes: name -> PropertyDescriptor(layer)).
   Locations are indices into the stores; objects are only ever appended, never freed.
   A space (Grid / Network / VoronoiGrid object) is a record of locations held by its side.

   Transcribed statement by statement (code as repaired by fixes/C19-1, C19-2):
     attribute read/write on a cell   = data descriptor of the cell's class if any, else the instance __dict__
     Cell.add_agent / remove_agent    (cell.py:100-125)      incl.  self.empty = ...
     HasCell.cell setter              (cell_agent.py:39-50)
     BasicMovement.move_relative      (cell_agent.py:60-70)
     HasPropertyLayers.add/remove_property_layer, set_property (property_layer.py:232-281)
     copy_space = Cell.__getstate__ (connections emptied) + pickle_gridcell/unpickle_gridcell (base class, slots
                  without __dict__) + deep copy of the reachable agents and layers with a memo + Grid.__setstate__
                  (_connect_cells from the space's own description, ONE class for all cells of the copy, descriptors
                  for the copy's own layers) resp. DiscreteSpace.__setstate__ (_connect_cells only)
     AgentSet.__getstate__/__setstate__ (agent.py:528-543): the list of members, re-inserted in order.
   Which connections a fresh space of some description has is an input table (s_geom); geometry is C07.
   Definitions only. *)
From Coq Require Import ZArith List Bool Lia.
Import ListNotations.
Open Scope Z_scope.

(* ------------------------------------------------------------------ small list machinery *)
Fixpoint upd {A : Type} (n : nat) (f : A -> A) (l : list A) : list A :=
  match l, n with
  | [], _ => []
  | x :: t, O => f x :: t
  | x :: t, S n' => x :: upd n' f t
  end.

Fixpoint assoc {B : Type} (k : Z) (l : list (Z * B)) : option B :=
  match l with
  | [] => None
  | (k', v) :: t => if k =? k' then Some v else assoc k t
  end.

(* d[k] = v : position of the first insertion is kept *)
Fixpoint assoc_set {B : Type} (k : Z) (v : B) (l : list (Z * B)) : list (Z * B) :=
  match l with
  | [] => [(k, v)]
  | (k', v') :: t => if k =? k' then (k', v) :: t else (k', v') :: assoc_set k v t
  end.

Definition assoc_del {B : Type} (k : Z) (l : list (Z * B)) : list (Z * B) :=
  filter (fun p => negb (k =? fst p)) l.

Fixpoint index_of (x : nat) (l : list nat) : option nat :=
  match l with
  | [] => None
  | y :: t => if Nat.eqb x y then Some O else option_map S (index_of x t)
  end.

Definition memn (x : nat) (l : list nat) : bool := existsb (Nat.eqb x) l.

(* list.remove(x): first occurrence *)
Fixpoint remove_first (x : nat) (l : list nat) : list nat :=
  match l with
  | [] => []
  | y :: t => if Nat.eqb x y then t else y :: remove_first x t
  end.

Definition disj (l1 l2 : list nat) : bool := forallb (fun x => negb (memn x l2)) l1.

Definition b2z (b : bool) : Z := if b then 1 else 0.

(* ------------------------------------------------------------------ heap *)
Record cellobj := { k_cls : nat; k_idx : nat; k_cap : Z; k_agents : list nat;
                    k_conns : list (Z * nat); k_dict : list (Z * Z) }.
Record agentobj := { a_label : Z; a_cell : option nat }.
Record layerobj := { l_name : Z; l_data : list Z }.
Record classobj := { d_descr : list (Z * nat) }.
Record heap := { h_cells : list cellobj; h_agents : list agentobj;
                 h_layers : list layerobj; h_classes : list classobj }.

Definition dcell : cellobj := {| k_cls := O; k_idx := O; k_cap := 0; k_agents := []; k_conns := []; k_dict := [] |}.
Definition dagent : agentobj := {| a_label := 0; a_cell := None |}.
Definition dlayer : layerobj := {| l_name := 0; l_data := [] |}.
Definition dclass : classobj := {| d_descr := [] |}.

Definition getc (h : heap) (c : nat) : cellobj := nth c (h_cells h) dcell.
Definition geta (h : heap) (a : nat) : agentobj := nth a (h_agents h) dagent.
Definition getl (h : heap) (l : nat) : layerobj := nth l (h_layers h) dlayer.
Definition getk (h : heap) (k : nat) : classobj := nth k (h_classes h) dclass.

Definition upd_cell (h : heap) (c : nat) (f : cellobj -> cellobj) : heap :=
  {| h_cells := upd c f (h_cells h); h_agents := h_agents h; h_layers := h_layers h; h_classes := h_classes h |}.
Definition upd_agent (h : heap) (a : nat) (f : agentobj -> agentobj) : heap :=
  {| h_cells := h_cells h; h_agents := upd a f (h_agents h); h_layers := h_layers h; h_classes := h_classes h |}.
Definition upd_layer (h : heap) (l : nat) (f : layerobj -> layerobj) : heap :=
  {| h_cells := h_cells h; h_agents := h_agents h; h_layers := upd l f (h_layers h); h_classes := h_classes h |}.
Definition upd_class (h : heap) (k : nat) (f : classobj -> classobj) : heap :=
  {| h_cells := h_cells h; h_agents := h_agents h; h_layers := h_layers h; h_classes := upd k f (h_classes h) |}.
Definition alloc_agent (h : heap) (o : agentobj) : heap :=
  {| h_cells := h_cells h; h_agents := h_agents h ++ [o]; h_layers := h_layers h; h_classes := h_classes h |}.
Definition alloc_layer (h : heap) (o : layerobj) : heap :=
  {| h_cells := h_cells h; h_agents := h_agents h; h_layers := h_layers h ++ [o]; h_classes := h_classes h |}.

Definition set_agents (l : list nat) (co : cellobj) : cellobj :=
  {| k_cls := k_cls co; k_idx := k_idx co; k_cap := k_cap co; k_agents := l; k_conns := k_conns co; k_dict := k_dict co |}.
Definition set_dict (d : list (Z * Z)) (co : cellobj) : cellobj :=
  {| k_cls := k_cls co; k_idx := k_idx co; k_cap := k_cap co; k_agents := k_agents co; k_conns := k_conns co; k_dict := d |}.
Definition set_acell (c : option nat) (ao : agentobj) : agentobj := {| a_label := a_label ao; a_cell := c |}.
Definition set_data (d : list Z) (lo : layerobj) : layerobj := {| l_name := l_name lo; l_data := d |}.

(* ------------------------------------------------------------------ attribute access on a cell *)
Definition EMPTY : Z := 0.        (* the layer / attribute name "empty" *)
Definition NOATTR : Z := -7.      (* observation code of AttributeError *)

(* type(cell).__dict__[name] is a PropertyDescriptor (data descriptor): it wins over the instance dict *)
Definition cell_get (h : heap) (c : nat) (name : Z) : option Z :=
  let co := getc h c in
  match assoc name (d_descr (getk h (k_cls co))) with
  | Some l => Some (nth (k_idx co) (l_data (getl h l)) NOATTR)          (* layer.data[instance.coordinate] *)
  | None => assoc name (k_dict co)
  end.

Definition cell_set (h : heap) (c : nat) (name v : Z) : heap :=
  let co := getc h c in
  match assoc name (d_descr (getk h (k_cls co))) with
  | Some l => upd_layer h l (fun lo => set_data (upd (k_idx co) (fun _ => v) (l_data lo)) lo)
  | None => upd_cell h c (fun co' => set_dict (assoc_set name v (k_dict co')) co')
  end.

(* ------------------------------------------------------------------ Cell.add_agent / remove_agent, HasCell.cell *)
Definition E_FULL : Z := 1.
Definition E_NODIR : Z := 2.
Definition E_EXISTS : Z := 3.
Definition E_MISSING : Z := 4.
Definition E_KEY : Z := 5.

Definition add_agent (h : heap) (c a : nat) : heap * bool :=
  let n := length (k_agents (getc h c)) in
  let h1 := cell_set h c EMPTY 0 in                                       (* self.empty = False *)
  let cap := k_cap (getc h1 c) in
  if negb (cap =? 0) && (Z.of_nat n >=? cap) then (h1, false)             (* raise Exception("ERROR: Cell is full") *)
  else (upd_cell h1 c (fun co => set_agents (k_agents co ++ [a]) co), true).

Definition remove_agent (h : heap) (c a : nat) : heap :=
  let h1 := upd_cell h c (fun co => set_agents (remove_first a (k_agents co)) co) in
  cell_set h1 c EMPTY (b2z (Nat.eqb (length (k_agents (getc h1 c))) O)).  (* self.empty = self.is_empty *)

Definition set_cell_of (h : heap) (a : nat) (target : option nat) : heap * bool :=
  let h1 := match a_cell (geta h a) with Some old => remove_agent h old a | None => h end in
  let h2 := upd_agent h1 a (set_acell target) in
  match target with
  | None => (h2, true)
  | Some c => add_agent h2 c a
  end.

Definition opt_nat_eqb (a b : option nat) : bool :=
  match a, b with
  | Some x, Some y => Nat.eqb x y
  | None, None => true
  | _, _ => false
  end.

(* the driver's move: not performed when the target is the agent's current cell; a rejected move is normalised
   to "agent off the grid" (what the rejected setter leaves behind belongs to C06/C18) *)
Definition do_move (h : heap) (a c : nat) : heap * list Z :=
  if opt_nat_eqb (a_cell (geta h a)) (Some c) then (h, [-2])
  else
    let '(h', ok) := set_cell_of h a (Some c) in
    if ok then (h', [0]) else (upd_agent h' a (set_acell None), [-1; E_FULL]).

(* ------------------------------------------------------------------ spaces, sides *)
Record space := { s_grid : bool; s_cells : list nat; s_layers : list (Z * nat); s_klass : nat;
                  s_geom : list (list (Z * nat)) }.
Record side := { sd_space : space; sd_tab : list (Z * nat) }.
Record setside := { ss_members : list nat; ss_tab : list (Z * nat) }.
Record state := { st_heap : heap; st_sides : list side; st_sets : list setside }.

Definition set_layers (ls : list (Z * nat)) (sp : space) : space :=
  {| s_grid := s_grid sp; s_cells := s_cells sp; s_layers := ls; s_klass := s_klass sp; s_geom := s_geom sp |}.

Definition find_or_create (h : heap) (tab : list (Z * nat)) (label : Z) : heap * nat * list (Z * nat) :=
  match assoc label tab with
  | Some a => (h, a, tab)
  | None => let a := length (h_agents h) in
            (alloc_agent h {| a_label := label; a_cell := None |}, a, tab ++ [(label, a)])
  end.

(* ------------------------------------------------------------------ the copy *)
Definition tr_cell (nC : nat) (cells : list nat) (c : nat) : option nat :=
  option_map (fun i => (nC + i)%nat) (index_of c cells).
Definition tr_agent (nA : nat) (agents : list nat) (a : nat) : nat :=
  match index_of a agents with Some j => (nA + j)%nat | None => nA end.

Definition agents_of (h : heap) (cells : list nat) : list nat := flat_map (fun c => k_agents (getc h c)) cells.

Definition copy_cell (h : heap) (sp : space) (nC nA : nat) (agents : list nat) (klass : nat) (ic : nat * nat) : cellobj :=
  let co := getc h (snd ic) in
  {| k_cls := klass; k_idx := k_idx co; k_cap := k_cap co;
     k_agents := map (tr_agent nA agents) (k_agents co);
     (* __getstate__ empties connections; __setstate__ -> _connect_cells re-creates them from the description *)
     k_conns := map (fun kj => (fst kj, (nC + snd kj)%nat)) (nth (fst ic) (s_geom sp) []);
     (* pickle_gridcell drops the instance __dict__ of grid cells; other cells keep it *)
     k_dict := if s_grid sp then [] else k_dict co |}.

Definition copy_agent (h : heap) (nC : nat) (cells : list nat) (a : nat) : agentobj :=
  let ao := geta h a in
  {| a_label := a_label ao;
     a_cell := match a_cell ao with Some c => tr_cell nC cells c | None => None end |}.

Definition copy_space (h : heap) (sd : side) : heap * side :=
  let sp := sd_space sd in
  let nC := length (h_cells h) in
  let nA := length (h_agents h) in
  let nL := length (h_layers h) in
  let nK := length (h_classes h) in
  let cells := s_cells sp in
  let agents := agents_of h cells in
  let new_layers := map (fun nl => getl h (snd nl)) (s_layers sp) in
  let layer_locs := seq nL (length (s_layers sp)) in
  let klass := if s_grid sp then nK else s_klass sp in
  (* Grid.__setstate__: for layer in self._mesa_property_layers.values(): setattr(cell_klass, layer.name, descriptor) *)
  let new_class := {| d_descr := combine (map l_name new_layers) layer_locs |} in
  let new_cells := map (copy_cell h sp nC nA agents klass) (combine (seq 0 (length cells)) cells) in
  let new_agents := map (copy_agent h nC cells) agents in
  let h' := {| h_cells := h_cells h ++ new_cells;
               h_agents := h_agents h ++ new_agents;
               h_layers := h_layers h ++ new_layers;
               h_classes := if s_grid sp then h_classes h ++ [new_class] else h_classes h |} in
  let sp' := {| s_grid := s_grid sp; s_cells := seq nC (length cells);
                s_layers := combine (map fst (s_layers sp)) layer_locs;
                s_klass := klass; s_geom := s_geom sp |} in
  (h', {| sd_space := sp'; sd_tab := combine (map a_label new_agents) (seq nA (length agents)) |}).

(* AgentSet: state = {"agents": list(keys)}; __setstate__ re-inserts the copied members in order *)
Definition copy_set (h : heap) (ss : setside) : heap * setside :=
  let nA := length (h_agents h) in
  let ms := ss_members ss in
  let new_agents := map (fun a => {| a_label := a_label (geta h a); a_cell := None |}) ms in
  let locs := seq nA (length ms) in
  ({| h_cells := h_cells h; h_agents := h_agents h ++ new_agents; h_layers := h_layers h; h_classes := h_classes h |},
   {| ss_members := locs; ss_tab := combine (map a_label new_agents) locs |}).

(* ------------------------------------------------------------------ operations *)
Inductive op :=
| Move (s label cell : Z)          (* agent.cell = space cell #cell (the agent is created when the label is new) *)
| Leave (s label : Z)              (* agent.cell = None *)
| RelMove (s label key : Z)        (* agent.move_relative(key) *)
| SetAttr (s cell name v : Z)      (* setattr(cell, name, v) *)
| SetLayer (s name cell v : Z)     (* layer.data[coord] = v *)
| Fill (s name v : Z)              (* space.set_property(name, v) *)
| AddLayer (s name dflt : Z)       (* space.create_property_layer(name, dflt) *)
| DelLayer (s name : Z)            (* space.remove_property_layer(name) *)
| Copy (mech src : Z)              (* deepcopy / pickle round trip of side src: a new side *)
| SCopy (mech src : Z)             (* the same for an AgentSet *)
| SAdd (s label : Z) | SDiscard (s label : Z) | SRemove (s label : Z).

Definition MAX_SIDES : nat := 3.

Definition nth_side {A : Type} (l : list A) (s : Z) : option A :=
  if s <? 0 then None else nth_error l (Z.to_nat s).
Definition put_side {A : Type} (l : list A) (s : Z) (x : A) : list A := upd (Z.to_nat s) (fun _ => x) l.

Definition with_heap (st : state) (h : heap) : state :=
  {| st_heap := h; st_sides := st_sides st; st_sets := st_sets st |}.
Definition with_side (st : state) (h : heap) (s : Z) (sd : side) : state :=
  {| st_heap := h; st_sides := put_side (st_sides st) s sd; st_sets := st_sets st |}.
Definition with_set (st : state) (h : heap) (s : Z) (ss : setside) : state :=
  {| st_heap := h; st_sides := st_sides st; st_sets := put_side (st_sets st) s ss |}.

Definition NOOP : list Z := [-2].

Definition step_side (h : heap) (sd : side) (o : op) : heap * side * list Z :=
  let sp := sd_space sd in
  match o with
  | Move _ label ci =>
      if ci <? 0 then (h, sd, NOOP) else
      match nth_error (s_cells sp) (Z.to_nat ci) with
      | None => (h, sd, NOOP)
      | Some c =>
          let '(h1, a, tab1) := find_or_create h (sd_tab sd) label in
          let '(h2, res) := do_move h1 a c in
          (h2, {| sd_space := sp; sd_tab := tab1 |}, res)
      end
  | Leave _ label =>
      match assoc label (sd_tab sd) with
      | None => (h, sd, NOOP)
      | Some a =>
          match a_cell (geta h a) with
          | None => (h, sd, NOOP)
          | Some _ => (fst (set_cell_of h a None), sd, [0])
          end
      end
  | RelMove _ label key =>
      match assoc label (sd_tab sd) with
      | None => (h, sd, NOOP)
      | Some a =>
          match a_cell (geta h a) with
          | None => (h, sd, NOOP)
          | Some cur =>
              match assoc key (k_conns (getc h cur)) with
              | None => (h, sd, [-1; E_NODIR])                  (* raise ValueError("No cell in direction") *)
              | Some c => let '(h2, res) := do_move h a c in (h2, sd, res)
              end
          end
      end
  | SetAttr _ ci name v =>
      if negb (s_grid sp) || (ci <? 0) then (h, sd, NOOP) else
      match nth_error (s_cells sp) (Z.to_nat ci), assoc name (s_layers sp) with
      | Some c, Some _ => (cell_set h c name v, sd, [0])
      | _, _ => (h, sd, NOOP)
      end
  | SetLayer _ name ci v =>
      if negb (s_grid sp) || (ci <? 0) then (h, sd, NOOP) else
      match nth_error (s_cells sp) (Z.to_nat ci), assoc name (s_layers sp) with
      | Some c, Some l =>
          (upd_layer h l (fun lo => set_data (upd (k_idx (getc h c)) (fun _ => v) (l_data lo)) lo), sd, [0])
      | _, _ => (h, sd, NOOP)
      end
  | Fill _ name v =>
      if negb (s_grid sp) then (h, sd, NOOP) else
      match assoc name (s_layers sp) with
      | Some l => (upd_layer h l (fun lo => set_data (map (fun _ => v) (l_data lo)) lo), sd, [0])
      | None => (h, sd, NOOP)
      end
  | AddLayer _ name dflt =>
      if negb (s_grid sp) then (h, sd, NOOP) else
      match assoc name (s_layers sp) with
      | Some _ => (h, sd, [-1; E_EXISTS])                       (* ValueError: already exists *)
      | None =>
          let l := length (h_layers h) in
          let h1 := alloc_layer h {| l_name := name; l_data := map (fun _ => dflt) (s_cells sp) |} in
          (* setattr(self.cell_klass, layer.name, PropertyDescriptor(layer)) *)
          let h2 := upd_class h1 (s_klass sp) (fun k => {| d_descr := assoc_set name l (d_descr k) |}) in
          (h2, {| sd_space := set_layers (s_layers sp ++ [(name, l)]) sp; sd_tab := sd_tab sd |}, [0])
      end
  | DelLayer _ name =>
      if negb (s_grid sp) then (h, sd, NOOP) else
      if name =? EMPTY then (h, sd, NOOP) else                 (* the grid's own layer "empty" is never removed *)
      match assoc name (s_layers sp) with
      | None => (h, sd, [-1; E_MISSING])                        (* KeyError *)
      | Some _ =>
          (* del layers[name]; delattr(self.cell_klass, name) *)
          let h1 := upd_class h (s_klass sp) (fun k => {| d_descr := assoc_del name (d_descr k) |}) in
          (h1, {| sd_space := set_layers (assoc_del name (s_layers sp)) sp; sd_tab := sd_tab sd |}, [0])
      end
  | _ => (h, sd, NOOP)
  end.

Definition step_set (h : heap) (ss : setside) (o : op) : heap * setside * list Z :=
  match o with
  | SAdd _ label =>
      let '(h1, a, tab1) := find_or_create h (ss_tab ss) label in
      let ms := ss_members ss in
      (h1, {| ss_members := if memn a ms then ms else ms ++ [a]; ss_tab := tab1 |}, [0])
  | SDiscard _ label =>
      let '(h1, a, tab1) := find_or_create h (ss_tab ss) label in
      (h1, {| ss_members := remove_first a (ss_members ss); ss_tab := tab1 |}, [0])
  | SRemove _ label =>
      let '(h1, a, tab1) := find_or_create h (ss_tab ss) label in
      let ms := ss_members ss in
      if memn a ms then (h1, {| ss_members := remove_first a ms; ss_tab := tab1 |}, [0])
      else (h1, {| ss_members := ms; ss_tab := tab1 |}, [-1; E_KEY])      (* del self._agents[agent]: KeyError *)
  | _ => (h, ss, NOOP)
  end.

Definition op_side (o : op) : Z :=
  match o with
  | Move s _ _ | Leave s _ | RelMove s _ _ | SetAttr s _ _ _ | SetLayer s _ _ _ | Fill s _ _
  | AddLayer s _ _ | DelLayer s _ | SAdd s _ | SDiscard s _ | SRemove s _ => s
  | Copy _ _ | SCopy _ _ => -1
  end.

Definition is_set_op (o : op) : bool :=
  match o with SAdd _ _ | SDiscard _ _ | SRemove _ _ => true | _ => false end.

Definition step (st : state) (o : op) : state * list Z :=
  let h := st_heap st in
  match o with
  | Copy _ src =>
      match nth_side (st_sides st) src with
      | None => (st, NOOP)
      | Some sd =>
          if Nat.leb MAX_SIDES (length (st_sides st)) then (st, NOOP) else
          let '(h', sd') := copy_space h sd in
          ({| st_heap := h'; st_sides := st_sides st ++ [sd']; st_sets := st_sets st |}, [0])
      end
  | SCopy _ src =>
      match nth_side (st_sets st) src with
      | None => (st, NOOP)
      | Some ss =>
          if Nat.leb MAX_SIDES (length (st_sets st)) then (st, NOOP) else
          let '(h', ss') := copy_set h ss in
          ({| st_heap := h'; st_sides := st_sides st; st_sets := st_sets st ++ [ss'] |}, [0])
      end
  | _ =>
      if is_set_op o then
        match nth_side (st_sets st) (op_side o) with
        | None => (st, NOOP)
        | Some ss => let '(h', ss', res) := step_set h ss o in (with_set st h' (op_side o) ss', res)
        end
      else
        match nth_side (st_sides st) (op_side o) with
        | None => (st, NOOP)
        | Some sd => let '(h', sd', res) := step_side h sd o in (with_side st h' (op_side o) sd', res)
        end
  end.

(* ------------------------------------------------------------------ observation *)
Definition attr_code (o : option Z) : Z := match o with Some v => v | None => NOATTR end.

Definition idx_code (cells : list nat) (c : nat) : Z :=
  match index_of c cells with Some i => Z.of_nat i | None => -1 end.

(* the abstract state of one cell / one side: everything the statement talks about, free of locations *)
Record acell := { ac_idx : nat; ac_cap : Z; ac_labels : list Z; ac_conns : list (Z * Z);
                  ac_empty : option Z; ac_layers : list (Z * option Z * Z) }.

Definition abs_cell (h : heap) (sp : space) (c : nat) : acell :=
  let co := getc h c in
  {| ac_idx := k_idx co; ac_cap := k_cap co;
     ac_labels := map (fun a => a_label (geta h a)) (k_agents co);
     ac_conns := map (fun kt => (fst kt, idx_code (s_cells sp) (snd kt))) (k_conns co);
     ac_empty := cell_get h c EMPTY;
     ac_layers := map (fun nl => (fst nl, cell_get h c (fst nl), nth (k_idx co) (l_data (getl h (snd nl))) NOATTR))
                      (s_layers sp) |}.

Definition abs_side (h : heap) (sd : side) : list acell :=
  map (abs_cell h (sd_space sd)) (s_cells (sd_space sd)).

Definition acell_view (ac : acell) : list Z :=
  [Z.of_nat (ac_idx ac); ac_cap ac; Z.of_nat (length (ac_labels ac))]
  ++ ac_labels ac
  ++ [b2z (Nat.eqb (length (ac_labels ac)) O); attr_code (ac_empty ac)]
  ++ flat_map (fun t => [fst (fst t); attr_code (snd (fst t)); snd t]) (ac_layers ac).

Definition DMOD : Z := 1000003.
Definition dstep (acc x : Z) : Z := (acc * 131 + x) mod DMOD.
Definition conn_digest (acs : list acell) : Z :=
  fold_left (fun acc iac =>
               fold_left (fun acc' kt => dstep (dstep acc' (fst kt + 2)) (snd kt + 2))
                         (ac_conns (snd iac)) (dstep acc (Z.of_nat (fst iac) + 1)))
            (combine (seq 0 (length acs)) acs) 7.

Definition empties_view (acs : list acell) : list Z :=
  flat_map (fun iac => if Nat.eqb (length (ac_labels (snd iac))) O then [Z.of_nat (fst iac)] else [])
           (combine (seq 0 (length acs)) acs).

(* every agent listed by a cell points back to that cell; every known agent that has a cell is listed by a cell of the space *)
Definition wiredb (h : heap) (sd : side) : bool :=
  let cells := s_cells (sd_space sd) in
  forallb (fun c => forallb (fun a => opt_nat_eqb (a_cell (geta h a)) (Some c)) (k_agents (getc h c))) cells
  && forallb (fun la => match a_cell (geta h (snd la)) with
                        | None => true
                        | Some c => memn c cells && memn (snd la) (k_agents (getc h c))
                        end) (sd_tab sd).

(* the observation of a side is a function of its abstract state (and the wiring flag) *)
Definition aside_view (k : nat) (acs : list acell) (wired : bool) : list Z :=
  (- (100 + Z.of_nat k)) :: flat_map acell_view acs
  ++ (-9) :: empties_view acs
  ++ (-8) :: flat_map ac_labels acs
  ++ [conn_digest acs; b2z wired].

Definition side_view (h : heap) (k : nat) (sd : side) : list Z :=
  aside_view k (abs_side h sd) (wiredb h sd).

Definition set_view (h : heap) (k : nat) (ss : setside) : list Z :=
  (- (200 + Z.of_nat k)) :: Z.of_nat (length (ss_members ss)) :: map (fun a => a_label (geta h a)) (ss_members ss).

(* the locations a side is made of *)
Definition fp_cells (sd : side) : list nat := s_cells (sd_space sd).
Definition fp_agents (h : heap) (sd : side) : list nat := map snd (sd_tab sd) ++ agents_of h (s_cells (sd_space sd)).
Definition fp_layers (sd : side) : list nat := map snd (s_layers (sd_space sd)).
Definition fp_classes (sd : side) : list nat := if s_grid (sd_space sd) then [s_klass (sd_space sd)] else [].

Definition sides_disjoint (h : heap) (a b : side) : bool :=
  disj (fp_cells a) (fp_cells b) && disj (fp_agents h a) (fp_agents h b)
  && disj (fp_layers a) (fp_layers b) && disj (fp_classes a) (fp_classes b).

Definition set_fp (ss : setside) : list nat := ss_members ss ++ map snd (ss_tab ss).

Fixpoint pairwise {A : Type} (p : A -> A -> bool) (l : list A) : bool :=
  match l with
  | [] => true
  | x :: t => forallb (p x) t && pairwise p t
  end.

Definition detachedb (st : state) : bool :=
  pairwise (sides_disjoint (st_heap st)) (st_sides st)
  && pairwise (fun a b => disj (set_fp a) (set_fp b)) (st_sets st).

Fixpoint views {A : Type} (v : nat -> A -> list Z) (k : nat) (l : list A) : list Z :=
  match l with
  | [] => []
  | x :: t => v k x ++ views v (S k) t
  end.

Definition obs_state (st : state) : list Z :=
  views (side_view (st_heap st)) O (st_sides st) ++ views (set_view (st_heap st)) O (st_sets st)
  ++ [b2z (detachedb st)].

Fixpoint run_ops (st : state) (ops : list op) : list (list Z) :=
  match ops with
  | [] => []
  | o :: t => let '(st', res) := step st o in (res ++ obs_state st') :: run_ops st' t
  end.

Fixpoint run_states (st : state) (ops : list op) : state :=
  match ops with
  | [] => st
  | o :: t => run_states (fst (step st o)) t
  end.

(* ------------------------------------------------------------------ construction *)
Record case := { c_space : bool; c_grid : bool; c_caps : list Z; c_conn : list (list (Z * Z));
                 c_layers : list (Z * Z); c_set : list Z; c_ops : list op }.

(* class 0 is the library class Cell (no descriptors, shared by all Network / Voronoi spaces);
   Grid.__init__ creates class 1 = type("GridCell", (Cell,), ...) and the layer "empty" (all True), then the
   extra layers in order *)
Definition init_space (c : case) : heap * side :=
  let n := length (c_caps c) in
  let geom := map (map (fun kj => (fst kj, Z.to_nat (snd kj)))) (c_conn c) in
  let specs := if c_grid c then (EMPTY, 1) :: c_layers c else [] in
  let layers := map (fun nd => {| l_name := fst nd; l_data := map (fun _ => snd nd) (c_caps c) |}) specs in
  let slayers := combine (map fst specs) (seq 0 (length specs)) in
  let klass := if c_grid c then 1%nat else 0%nat in
  let cells := map (fun ic => {| k_cls := klass; k_idx := fst ic; k_cap := snd ic; k_agents := [];
                                 k_conns := nth (fst ic) geom []; k_dict := [] |})
                   (combine (seq 0 n) (c_caps c)) in
  ({| h_cells := cells; h_agents := []; h_layers := layers;
      h_classes := [dclass; {| d_descr := if c_grid c then slayers else [] |}] |},
   {| sd_space := {| s_grid := c_grid c; s_cells := seq 0 n; s_layers := slayers; s_klass := klass; s_geom := geom |};
      sd_tab := [] |}).

Definition init_set (labels : list Z) : heap * setside :=
  let ags := map (fun l => {| a_label := l; a_cell := None |}) labels in
  let locs := seq 0 (length labels) in
  ({| h_cells := []; h_agents := ags; h_layers := []; h_classes := [dclass] |},
   {| ss_members := locs; ss_tab := combine labels locs |}).

Definition init_state (c : case) : state :=
  if c_space c then
    let '(h, sd) := init_space c in {| st_heap := h; st_sides := [sd]; st_sets := [] |}
  else
    let '(h, ss) := init_set (c_set c) in {| st_heap := h; st_sides := []; st_sets := [ss] |}.

Definition run_case (c : case) : list (list Z) := run_ops (init_state c) (c_ops c).
