(* The life cycle of a simulator around Model/Devs.v: setup(model), reset(), a second setup(), run calls while no
   model is attached.  Purely a layer on top of Devs.v: `sim` = the state of Devs.v + "is a model attached";
   an operation is an operation of Devs.v, reset() or setup(<a new model>).

     Simulator.setup(model):   if self.time != self.start_time: raise ValueError          (E_SETUP_TIME)
                               if not self.event_list.is_empty(): raise ValueError         (E_SETUP_EVENTS)
                               self.model = model
     ABMSimulator.setup:       super().setup(model); schedule_event_next_tick(model.step, priority=HIGH)
     Simulator.reset():        self.event_list.clear(); self.model = None; self.time = self.start_time
     run_until/run_next_event: if self.model is None: raise Exception                      (E_NOSETUP)

   start_time is 0 for both classes.  The harness attaches a NEW model at every setup (as the visualisation does after a
   reset), so model.steps restarts at 0; reset() itself leaves the old model's counter, the id counter of events and the
   dropped holders alone.  Definitions only. *)
From Coq Require Import ZArith List Bool.
From Mesa Require Import Generated.Tables Model.Devs.
Import ListNotations.
Open Scope Z_scope.

Record sim := { m_st : state; m_setup : bool }.

Inductive xop :=
| XOp (o : op)
| XReset
| XSetup.

Definition E_SETUP_TIME : Z := 5.
Definition E_SETUP_EVENTS : Z := 6.

Definition reset_state (st : state) : state := set_time (set_events st []) 0.

(* setup succeeded: a new model (steps = 0) is attached; ABMSimulator schedules its step for the next tick *)
Definition setup_state (cfg : config) (st : state) : state :=
  let st0 := set_steps st 0 in
  if c_abm cfg then fst (schedule_relative cfg st0 SCALE gen_step_prio (-1) (-1) true []) else st0.

Definition xstep (cfg : config) (fuel : nat) (m : sim) (x : xop) : sim * list Z * list logitem :=
  match x with
  | XOp o =>
      let '(st1, ob, l) := if m_setup m then step_op cfg fuel (m_st m) o else step_op_unset cfg fuel (m_st m) o in
      ({| m_st := st1; m_setup := m_setup m |}, ob, l)
  | XReset =>
      let st1 := reset_state (m_st m) in
      ({| m_st := st1; m_setup := false |}, 0 :: view st1 [], [])
  | XSetup =>
      if negb (s_time (m_st m) =? 0) then (m, [-1; E_SETUP_TIME], [])
      else match s_events (m_st m) with
           | [] => let st1 := setup_state cfg (m_st m) in ({| m_st := st1; m_setup := true |}, 0 :: view st1 [], [])
           | _ :: _ => (m, [-1; E_SETUP_EVENTS], [])
           end
  end.

Fixpoint xrun_ops (cfg : config) (fuel : nat) (m : sim) (ops : list xop) : list (list Z) :=
  match ops with
  | [] => []
  | x :: r => let '(m1, ob, _) := xstep cfg fuel m x in ob :: xrun_ops cfg fuel m1 r
  end.

Fixpoint xrun_state (cfg : config) (fuel : nat) (m : sim) (ops : list xop) : sim * list logitem :=
  match ops with
  | [] => (m, [])
  | x :: r =>
      let '(m1, _, l1) := xstep cfg fuel m x in
      let '(m2, l2) := xrun_state cfg fuel m1 r in
      (m2, l1 ++ l2)
  end.

(* a fresh simulator; `setup` says whether setup(model) is called before the history starts *)
Definition xinit (cfg : config) (setup : bool) : sim :=
  {| m_st := if setup then init cfg else fresh; m_setup := setup |}.

Record xcase := { x_cfg : config; x_setup : bool; x_fuel : nat; x_ops : list xop }.
Definition run_xcase (c : xcase) : list (list Z) := xrun_ops (x_cfg c) (x_fuel c) (xinit (x_cfg c) (x_setup c)) (x_ops c).

(* every state a life cycle passes through *)
Inductive xreach (cfg : config) : sim -> Prop :=
| xreach_init : forall b, xreach cfg (xinit cfg b)
| xreach_step : forall fuel m x m' ob l, xreach cfg m -> xstep cfg fuel m x = (m', ob, l) -> xreach cfg m'
| xreach_exec : forall m e rest st' l, xreach cfg m -> m_setup m = true ->
    pop_event (s_events (m_st m)) = Some (e, rest) ->
    exec_event cfg (set_events (m_st m) rest) e = (st', l) -> xreach cfg {| m_st := st'; m_setup := true |}.

(* horizons not before the clock (the quantifier of C14 / C15), lifted *)
Definition xop_ok (m : sim) (x : xop) : Prop :=
  match x with
  | XOp (ORunUntil t) => s_time (m_st m) <= t
  | XOp (ORunFor d) => 0 <= d
  | _ => True
  end.
Fixpoint xops_ok (cfg : config) (fuel : nat) (m : sim) (ops : list xop) : Prop :=
  match ops with
  | [] => True
  | x :: r => xop_ok m x /\ xops_ok cfg fuel (fst (fst (xstep cfg fuel m x))) r
  end.
Definition xfinal (cfg : config) (fuel : nat) (m : sim) (ops : list xop) : sim := fst (xrun_state cfg fuel m ops).
