(* Model of the two property-layer implementations
     mesa/discrete_space/property_layer.py  (PropertyLayer, HasPropertyLayers, PropertyDescriptor)
     + the "empty" layer kept by Cell.add_agent / Cell.remove_agent (cell.py, cell_agent.py)
     mesa/space.py                          (PropertyLayer, _PropertyGrid, SingleGrid mask updates)
   transcribed statement by statement, failing paths included, for the code AS REPAIRED by
   fixes/C11-1 (only_empty uses the layer's array), C11-2 (add_property_layer rejects every
   existing cell attribute), C11-3 (unary ufuncs are applied, `nin` instead of `nargs`), and by the
   other builders' fixes now in /repo: atomic CellAgent.cell setter (add first, then remove),
   MultiGrid.empty_mask kept in step, SingleGrid.move_agent rejecting an occupied target.

   NumPy arrays are finite maps  coordinate -> value  stored in row-major order of
   itertools.product of the ranges = all_coords dims; values are Z (bool 0/1, int, float * 16).
   PropertyLayer objects live in a heap (s_objs, id = position) because the program can hold a
   layer that is not (or no longer) attached to the grid; the grid's dict, the class-level
   PropertyDescriptors and the _mesa_properties set are three separate tables, updated in the
   order the source updates them.  Definitions only. *)
From Coq Require Import ZArith List Bool.
From Mesa Require Import Common.ListX Generated.Tables.
Import ListNotations.
Open Scope Z_scope.

Definition coord := list Z.
Fixpoint coord_eqb (a b : coord) : bool :=
  match a, b with
  | [], [] => true
  | x :: a', y :: b' => (x =? y) && coord_eqb a' b'
  | _, _ => false
  end.

(* itertools.product of range(d) for d in dims / the row-major order of np.where *)
Fixpoint all_coords (dims : list Z) : list coord :=
  match dims with
  | [] => [[]]
  | d :: t => flat_map (fun x => map (cons x) (all_coords t)) (zrange 0 (d - 1))
  end.

(* NumPy index normalisation of one axis: negative indices count from the end *)
Definition norm_ix (d i : Z) : option Z :=
  if (0 <=? i) && (i <? d) then Some i
  else if (- d <=? i) && (i <? 0) then Some (i + d) else None.
Fixpoint norm_coord (dims : list Z) (c : coord) : option coord :=
  match dims, c with
  | [], [] => Some []
  | d :: dt, x :: ct =>
      match norm_ix d x, norm_coord dt ct with
      | Some x', Some r => Some (x' :: r)
      | _, _ => None
      end
  | _, _ => None      (* wrong number of indices: not generated (too few would address a sub-array) *)
  end.
(* a cell coordinate: every component within range(d), no wrapping *)
Fixpoint valid_coord (dims : list Z) (c : coord) : bool :=
  match dims, c with
  | [], [] => true
  | d :: dt, x :: ct => (0 <=? x) && (x <? d) && valid_coord dt ct
  | _, _ => false
  end.

(* ---- arrays ---- *)
Definition arr := list (coord * Z).
Definition full (dims : list Z) (v : Z) : arr := map (fun c => (c, v)) (all_coords dims).
Fixpoint aget (a : arr) (c : coord) : option Z :=
  match a with
  | [] => None
  | (k, x) :: t => if coord_eqb k c then Some x else aget t c
  end.
Definition aget0 (a : arr) (c : coord) : Z := match aget a c with Some x => x | None => 0 end.
Definition aset (a : arr) (c : coord) (v : Z) : arr :=
  map (fun kx => if coord_eqb (fst kx) c then (fst kx, v) else kx) a.
Definition amap (f : Z -> Z) (a : arr) : arr := map (fun kx => (fst kx, f (snd kx))) a.
Definition avals (a : arr) : list Z := map snd a.
Definition akeys (a : arr) : list coord := map fst a.
(* np.copyto(a, values) with an array of the same shape *)
Definition afill (a : arr) (vals : list Z) : arr :=
  map (fun p => (fst (fst p), snd p)) (combine a vals).

(* ---- the DSL of conditions and operations ---- *)
Inductive cmp := CGt | CGe | CLt | CLe | CEq | CNe.
Definition cond := (cmp * Z)%type.           (* lambda x: x <cmp> k *)
Definition eval_cond (cd : cond) (v : Z) : bool :=
  match fst cd with
  | CGt => v >? snd cd | CGe => v >=? snd cd | CLt => v <? snd cd
  | CLe => v <=? snd cd | CEq => v =? snd cd | CNe => negb (v =? snd cd)
  end.
Definition eval_ocond (cd : option cond) (v : Z) : bool :=
  match cd with None => true | Some c => eval_cond c v end.

Inductive fop := FAdd (k : Z) | FMul (k : Z) | FMax (k : Z) | FMin (k : Z) | FNot | FNeg
  | FOr (k : Z)      (* np.add / + on a bool layer with a bool operand: logical or *)
  | FNotF.           (* np.logical_not / `not x` on a float layer: 1.0 / 0.0, i.e. 16 / 0 in sixteenths *)
Definition apply_fop (f : fop) (v : Z) : Z :=
  match f with
  | FAdd k => v + k | FMul k => v * k | FMax k => Z.max v k | FMin k => Z.min v k
  | FNot => if v =? 0 then 1 else 0 | FNeg => - v
  | FOr k => if (v =? 0) && (k =? 0) then 0 else 1
  | FNotF => if v =? 0 then 16 else 0
  end.
(* how the operation is handed over: binary ufunc (np.add ..., wants a value), unary ufunc
   (np.negative, np.logical_not), python function of one argument *)
Inductive oform := UBin | UUn | PyFn.

(* ---- state ---- *)
Record layer := { l_name : Z; l_dt : Z; l_dims : list Z; l_data : arr }.
Record state := {
  s_discrete : bool;            (* true: mesa.discrete_space Grid; false: mesa.space SingleGrid/MultiGrid *)
  s_multi : bool;               (* legacy: MultiGrid / HexMultiGrid (several agents per cell) *)
  s_cap : Z;                    (* discrete: cell capacity, 0 = None (unlimited) *)
  s_dims : list Z;
  s_objs : list layer;          (* heap of PropertyLayer objects *)
  s_grid : list (Z * Z);        (* _mesa_property_layers / properties : name -> object, insertion order *)
  s_descr : list (Z * Z);       (* discrete: PropertyDescriptor class attributes of cell_klass *)
  s_props : list Z;             (* discrete: cell_klass._mesa_properties *)
  s_emask : arr;                (* legacy: _empty_mask *)
  s_agents : list (Z * coord)   (* placed agents *)
}.

Definition EMPTY : Z := 0.                   (* the name "empty" *)
(* names >= 100 stand for attributes every cell already has (agents, is_empty, coordinate, ...) *)
Definition is_cell_attr (n : Z) : bool := 100 <=? n.

Definition E_VALUE : Z := 1.  Definition E_KEY : Z := 2.  Definition E_INDEX : Z := 3.
Definition E_ATTR : Z := 4.   Definition E_TYPE : Z := 5. Definition E_EXC : Z := 6.
Definition E_ILLEGAL : Z := 9.   (* an outcome handed to the model that the implementation cannot have produced *)

Fixpoint assoc (k : Z) (l : list (Z * Z)) : option Z :=
  match l with
  | [] => None
  | (k', v) :: t => if k =? k' then Some v else assoc k t
  end.
Definition assoc_del (k : Z) (l : list (Z * Z)) : list (Z * Z) :=
  filter (fun kv => negb (k =? fst kv)) l.
Definition zmem (k : Z) (l : list Z) : bool := existsb (Z.eqb k) l.
Definition zdel (k : Z) (l : list Z) : list Z := filter (fun x => negb (k =? x)) l.

Definition get_obj (st : state) (id : Z) : option layer :=
  if id <? 0 then None else nth_error (s_objs st) (Z.to_nat id).
Fixpoint upd_nth {A} (l : list A) (n : nat) (v : A) : list A :=
  match l, n with
  | [], _ => []
  | _ :: t, O => v :: t
  | x :: t, S n' => x :: upd_nth t n' v
  end.
Definition set_objs (st : state) (objs : list layer) : state :=
  {| s_discrete := s_discrete st; s_multi := s_multi st; s_cap := s_cap st; s_dims := s_dims st; s_objs := objs; s_grid := s_grid st;
     s_descr := s_descr st; s_props := s_props st; s_emask := s_emask st; s_agents := s_agents st |}.
Definition set_data (st : state) (id : Z) (L : layer) (d : arr) : state :=
  set_objs st (upd_nth (s_objs st) (Z.to_nat id)
                 {| l_name := l_name L; l_dt := l_dt L; l_dims := l_dims L; l_data := d |}).
Definition set_tables (st : state) (g d : list (Z * Z)) (p : list Z) : state :=
  {| s_discrete := s_discrete st; s_multi := s_multi st; s_cap := s_cap st; s_dims := s_dims st; s_objs := s_objs st; s_grid := g;
     s_descr := d; s_props := p; s_emask := s_emask st; s_agents := s_agents st |}.
Definition set_agents (st : state) (em : arr) (ag : list (Z * coord)) : state :=
  {| s_discrete := s_discrete st; s_multi := s_multi st; s_cap := s_cap st; s_dims := s_dims st; s_objs := s_objs st; s_grid := s_grid st;
     s_descr := s_descr st; s_props := s_props st; s_emask := em; s_agents := ag |}.

Inductive lref := ByHandle (h : Z) | ByName (n : Z).
Definition resolve (st : state) (r : lref) : option Z :=
  match r with
  | ByHandle h => match get_obj st h with Some _ => Some h | None => None end
  | ByName n => assoc n (s_grid st)
  end.

(* ---- results ---- *)
Inductive res := ROk (payload : list Z) | RErr (kind : Z) | RSkip.
Definition obs_res (r : res) : list Z :=
  match r with ROk p => 0 :: p | RErr k => [-1; k] | RSkip => [-2] end.

(* ---- reads: the two views ---- *)
(* layer.data[c] *)
Definition layer_get (L : layer) (c : coord) : option Z :=
  match norm_coord (l_dims L) c with Some c' => aget (l_data L) c' | None => None end.
(* grid.<n>.data[c] *)
Definition layer_read (st : state) (n : Z) (c : coord) : option Z :=
  match assoc n (s_grid st) with
  | Some id => match get_obj st id with Some L => layer_get L c | None => None end
  | None => None
  end.
(* cell.<n>   (PropertyDescriptor.__get__: self.layer.data[instance.coordinate]) *)
Definition cell_read (st : state) (c : coord) (n : Z) : option Z :=
  match assoc n (s_descr st) with
  | Some id => match get_obj st id with Some L => layer_get L c | None => None end
  | None => None
  end.
(* cell.<n> = v   (PropertyDescriptor.__set__); without a descriptor the write lands in the
   cell's instance dict, which nothing else reads: the state is unchanged *)
Definition cell_setattr (st : state) (c : coord) (n v : Z) : state :=
  match assoc n (s_descr st) with
  | Some id =>
      match get_obj st id with
      | Some L => match norm_coord (l_dims L) c with
                  | Some c' => set_data st id L (aset (l_data L) c' v)
                  | None => st
                  end
      | None => st
      end
  | None => st
  end.

(* ---- emptiness ---- *)
Definition occupied (ag : list (Z * coord)) (c : coord) : bool :=
  existsb (fun a => coord_eqb (snd a) c) ag.
Definition agent_cell (ag : list (Z * coord)) (a : Z) : option coord :=
  match find (fun p => fst p =? a) ag with Some p => Some (snd p) | None => None end.
Definition drop_agent (ag : list (Z * coord)) (a : Z) : list (Z * coord) :=
  filter (fun p => negb (fst p =? a)) ag.
(* cell._agents.remove(agent) / grid[x][y].remove(agent): the entry of agent a in cell c *)
Definition remove_pair (ag : list (Z * coord)) (a : Z) (c : coord) : list (Z * coord) :=
  filter (fun p => negb ((fst p =? a) && coord_eqb (snd p) c)) ag.
Definition b2z (b : bool) : Z := if b then 1 else 0.
Definition count_at (ag : list (Z * coord)) (c : coord) : Z :=
  Z.of_nat (length (filter (fun p => coord_eqb (snd p) c) ag)).
(* `self.capacity and n >= self.capacity` *)
Definition cell_full (st : state) (c : coord) : bool :=
  negb (s_cap st =? 0) && (s_cap st <=? count_at (s_agents st) c).

(* Cell.remove_agent: self._agents.remove(agent); self.empty = self.is_empty *)
Definition cell_remove_agent (st : state) (a : Z) (c : coord) : state :=
  let ag := remove_pair (s_agents st) a c in
  cell_setattr (set_agents st (s_emask st) ag) c EMPTY (b2z (negb (occupied ag c))).
(* Cell.add_agent: n = len(self._agents); self.empty = False; full -> raise; self._agents.append(agent).
   Returns the state left behind and whether the agent was accepted. *)
Definition cell_add_agent (st : state) (a : Z) (c : coord) : state * bool :=
  let st1 := cell_setattr st c EMPTY 0 in
  if cell_full st c then (st1, false)
  else (set_agents st1 (s_emask st1) (s_agents st1 ++ [(a, c)]), true).

(* legacy remove_agent: SingleGrid resets the mask; MultiGrid only when the cell became empty *)
Definition leg_remove (st : state) (a : Z) (c0 : coord) : state :=
  let ag := remove_pair (s_agents st) a c0 in
  set_agents st (if s_multi st && occupied ag c0 then s_emask st else aset (s_emask st) c0 1) ag.
(* legacy place_agent on an accepted position *)
Definition leg_place (st : state) (a : Z) (c : coord) : state :=
  set_agents st (aset (s_emask st) c 0) (s_agents st ++ [(a, c)]).

(* the emptiness view the grid offers: layer "empty" / empty_mask *)
Definition empty_view (st : state) : option arr :=
  if s_discrete st then
    match assoc EMPTY (s_grid st) with
    | Some id => match get_obj st id with Some L => Some (l_data L) | None => None end
    | None => None
    end
  else Some (s_emask st).

(* ---- select_cells ---- *)
Definition bmask := list (coord * bool).
Fixpoint mget (m : bmask) (c : coord) : bool :=
  match m with
  | [] => false
  | (k, b) :: t => if coord_eqb k c then b else mget t c
  end.
Definition mask_and (m : bmask) (f : coord -> bool) : bmask :=
  map (fun kb => (fst kb, snd kb && f (fst kb))) m.
Definition user_mask (dims : list Z) (flat : list bool) : bmask := combine (all_coords dims) flat.

Fixpoint apply_masks (dims : list Z) (m : bmask) (masks : list (list bool)) : bmask :=
  match masks with
  | [] => m
  | um :: t => apply_masks dims (mask_and m (mget (user_mask dims um))) t
  end.

Definition grid_data (st : state) (n : Z) : option arr :=
  match assoc n (s_grid st) with
  | Some id => match get_obj st id with Some L => Some (l_data L) | None => None end
  | None => None
  end.

Fixpoint apply_conds (st : state) (m : bmask) (conds : list (Z * cond)) : option bmask :=
  match conds with
  | [] => Some m
  | (n, cd) :: t =>
      match grid_data st n with
      | Some d => apply_conds st (mask_and m (fun c => eval_cond cd (aget0 d c))) t
      | None => None                                   (* KeyError *)
      end
  end.

Definition candidates (m : bmask) (d : arr) : list Z :=
  flat_map (fun kb : coord * bool => if snd kb then [aget0 d (fst kb)] else []) m.
Definition zmaxl (l : list Z) : option Z :=
  match l with [] => None | x :: t => Some (fold_left Z.max t x) end.
Definition zminl (l : list Z) : option Z :=
  match l with [] => None | x :: t => Some (fold_left Z.min t x) end.
Definition HIGHEST : Z := 0.  Definition LOWEST : Z := 1.
(* one extreme-value criterion on the current combined mask: masked max/min, then equality;
   with no candidate left the masked max is np.ma.masked and nothing is selected *)
Definition ext_step (m : bmask) (d : arr) (mode : Z) : bmask :=
  match (if mode =? HIGHEST then zmaxl (candidates m d) else zminl (candidates m d)) with
  | Some t => mask_and m (fun c => aget0 d c =? t)
  | None => mask_and m (fun _ => false)
  end.
Fixpoint apply_exts (st : state) (m : bmask) (exts : list (Z * Z)) : bmask + Z :=
  match exts with
  | [] => inl m
  | (n, mode) :: t =>
      match grid_data st n with
      | None => inr E_KEY
      | Some d =>
          if (mode =? HIGHEST) || (mode =? LOWEST) then apply_exts st (ext_step m d mode) t
          else inr E_VALUE                              (* Invalid mode *)
      end
  end.

Definition nz (v : Z) : bool := negb (v =? 0).
(* the filter stages of select_cells, run in the order the SOURCE has them (Generated.Tables,
   re-extracted on every run by harness/tables/proplayer.py) *)
Definition run_stage (st : state) (conds : list (Z * cond)) (exts : list (Z * Z))
           (masks : list (list bool)) (only_empty : bool) (sg : sel_stage) (m : bmask) : bmask + Z :=
  match sg with
  | SMasks => inl (apply_masks (s_dims st) m masks)
  | SEmpty =>
      if only_empty then
        match empty_view st with
        | Some e => inl (mask_and m (fun c => nz (aget0 e c)))
        | None => inr E_KEY
        end
      else inl m
  | SConds => match apply_conds st m conds with Some m' => inl m' | None => inr E_KEY end
  | SExts => apply_exts st m exts
  end.
Fixpoint run_stages (st : state) (conds : list (Z * cond)) (exts : list (Z * Z))
         (masks : list (list bool)) (only_empty : bool) (sgs : list sel_stage) (m : bmask) : bmask + Z :=
  match sgs with
  | [] => inl m
  | sg :: t =>
      match run_stage st conds exts masks only_empty sg m with
      | inl m' => run_stages st conds exts masks only_empty t m'
      | inr k => inr k
      end
  end.
Definition select_mask (st : state) (conds : list (Z * cond)) (exts : list (Z * Z))
           (masks : list (list bool)) (only_empty : bool) : bmask + Z :=
  run_stages st conds exts masks only_empty
    (if s_discrete st then gen_select_order_discrete else gen_select_order_legacy)
    (map (fun c => (c, true)) (all_coords (s_dims st))).
Definition mask_list (m : bmask) : list coord :=
  flat_map (fun kb : coord * bool => if snd kb then [fst kb] else []) m.
Definition select_obs (m : bmask) (aslist : bool) : list Z :=
  if aslist then let l := mask_list m in Z.of_nat (length l) :: concat l
  else map (fun kb => b2z (snd kb)) m.

(* ---- histories ---- *)
Inductive op :=
| NewLayer (n dt : Z) (dims : list Z) (v : Z)   (* h = PropertyLayer(n, dims, v, dtype)  (not attached) *)
| Create (n dt v : Z)                            (* discrete: grid.create_property_layer(n, v, dtype) *)
| AddLayer (h : Z)                               (* grid.add_property_layer(h) *)
| RemoveLayer (n : Z)                            (* grid.remove_property_layer(n) *)
| CellWrite (c : coord) (n v : Z)                (* discrete: cell.<n> = v *)
| LayerWrite (r : lref) (c : coord) (v : Z)      (* layer.data[c] = v / layer.set_cell(c, v) *)
| SetCells (r : lref) (v : Z) (cd : option cond)
| SetArray (r : lref) (vals : list Z)            (* set_cells(array) / layer.data = array *)
| ModifyCells (r : lref) (fm : oform) (f : fop) (hasval : bool) (cd : option cond)
| ModifyCell (r : lref) (c : coord) (fm : oform) (f : fop) (hasval : bool)   (* legacy only *)
| Select (conds : list (Z * cond)) (exts : list (Z * Z)) (masks : list (list bool))
         (only_empty aslist : bool)
| Place (a : Z) (c : coord)
| Move (a : Z) (c : coord)
| MoveRel (a : Z) (dir : coord) (geom : Z) (torus : bool)
     (* discrete: agent.move_relative(dir); geom 0 Moore, 1 von Neumann, 2 hex; torus = the grid wraps *)
| Remove (a : Z)
| Skip
| NbhdMask (nb : list coord)          (* get_neighborhood_mask(...); nb = the neighbourhood the grid reports (an outcome) *)
| Aggregate (r : lref) (kind : Z)     (* layer.aggregate(np.sum / np.max / np.min / np.mean) *)
| ProbeDtype (ldt : Z) (fm : oform) (f : fop) (vdt : Z)
| LayerSelect (r : lref) (cd : cond) (aslist : bool).
     (* PropertyLayer.select_cells(condition, return_list): the condition applied to the layer's own array *)
     (* on a fresh layer of dtype ldt: the dtype modify_cells leaves behind for an operand of dtype vdt *)

Definition mk_layer (n dt : Z) (dims : list Z) (v : Z) : layer :=
  {| l_name := n; l_dt := dt; l_dims := dims; l_data := full dims v |}.

Definition dims_eqb (a b : list Z) : bool := coord_eqb a b.

(* add_property_layer.  discrete: dimensions, then name in the dict, then clash with an
   attribute of the cell class (repaired: any attribute, fixes/C11-2); then the three tables.
   legacy: name in the dict, then dimensions; one table. *)
Definition add_layer (st : state) (id : Z) (L : layer) : state * res :=
  if s_discrete st then
    if negb (dims_eqb (l_dims L) (s_dims st)) then (st, RErr E_VALUE)
    else if (match assoc (l_name L) (s_grid st) with Some _ => true | None => false end)
         then (st, RErr E_VALUE)
    else if is_cell_attr (l_name L)
            || (match assoc (l_name L) (s_descr st) with Some _ => true | None => false end)
         then (st, RErr E_VALUE)
    else (set_tables st (s_grid st ++ [(l_name L, id)]) (s_descr st ++ [(l_name L, id)])
                     (if zmem (l_name L) (s_props st) then s_props st else s_props st ++ [l_name L]),
          ROk [])
  else
    if (match assoc (l_name L) (s_grid st) with Some _ => true | None => false end)
    then (st, RErr E_VALUE)
    else if negb (dims_eqb (l_dims L) (s_dims st)) then (st, RErr E_VALUE)
    else (set_tables st (s_grid st ++ [(l_name L, id)]) (s_descr st) (s_props st), ROk []).

(* remove_property_layer.  discrete: del dict[n] (KeyError); delattr(cell_klass, n)
   (AttributeError, the dict entry is already gone); _mesa_properties.remove(n) (KeyError).
   legacy: membership test (ValueError), del. *)
Definition remove_layer (st : state) (n : Z) : state * res :=
  if s_discrete st then
    match assoc n (s_grid st) with
    | None => (st, RErr E_KEY)
    | Some _ =>
        let st1 := set_tables st (assoc_del n (s_grid st)) (s_descr st) (s_props st) in
        match assoc n (s_descr st1) with
        | None => (st1, RErr E_ATTR)
        | Some _ =>
            let st2 := set_tables st1 (s_grid st1) (assoc_del n (s_descr st1)) (s_props st1) in
            if zmem n (s_props st2)
            then (set_tables st2 (s_grid st2) (s_descr st2) (zdel n (s_props st2)), ROk [])
            else (st2, RErr E_KEY)
        end
    end
  else
    match assoc n (s_grid st) with
    | None => (st, RErr E_VALUE)
    | Some _ => (set_tables st (assoc_del n (s_grid st)) (s_descr st) (s_props st), ROk [])
    end.

(* modify_cells: condition array first, then the dispatch on the kind of operation, then
   np.where(condition, modified, data) *)
Definition modify_cells (L : layer) (fm : oform) (f : fop) (hasval : bool) (cd : option cond)
  : option arr :=
  match fm, hasval with
  | UBin, false => None                          (* "This ufunc requires an additional input value." *)
  | _, _ => Some (map (fun kx => if eval_ocond cd (snd kx) then (fst kx, apply_fop f (snd kx)) else kx)
                      (l_data L))
  end.

(* agent a, currently in c0, is moved to the valid cell c *)
Definition do_move (st : state) (a : Z) (c0 c : coord) : state * res :=
  if s_discrete st then
    (* the cell setter: same cell -> return; add to the new cell first (a full cell
       raises before anything else changed); remove from the old cell *)
    if coord_eqb c c0 then (st, ROk [])
    else match cell_add_agent st a c with
         | (st1, true) => (cell_remove_agent st1 a c0, ROk [])
         | (st1, false) => (st1, RErr E_EXC)
         end
  else if negb (s_multi st) && occupied (drop_agent (s_agents st) a) c
  then (st, RErr E_EXC)                 (* SingleGrid.move_agent: occupant is another agent *)
  else (leg_place (leg_remove st a c0) a c, ROk []).   (* _Grid.move_agent: remove, place *)

(* the connection keys: Moore = every non-zero offset in {-1,0,1}^n, von Neumann = one axis moved by one,
   hex = the offset table (re-extracted from grid.py: Generated.Tables) selected by the parity of the
   coordinate on the parity axis; the connected cell is coordinate + offset, wrapped on a torus, and
   exists when that is inside the grid *)
Definition vadd (a b : coord) : coord := map (fun p => fst p + snd p) (combine a b).
Definition vmod (a dims : coord) : coord := map (fun p => fst p mod snd p) (combine a dims).
Definition pair_in (d : coord) (l : list (Z * Z)) : bool :=
  match d with
  | [x; y] => existsb (fun p => (fst p =? x) && (snd p =? y)) l
  | _ => false
  end.
Definition hex_offsets (c0 : coord) : list (Z * Z) :=
  (* same reading of HexGrid._connect_cells_2d as Model/CellGeom.v: offsets = A if <test i> else B, the test
     translated from the source (gen_hex_select), gen_hex_body_is_even_table says which table A is *)
  let p := nth (Z.to_nat gen_hex_parity_axis) c0 0 in
  if gen_hex_select p
  then (if gen_hex_body_is_even_table then gen_hex_even_offsets else gen_hex_odd_offsets)
  else (if gen_hex_body_is_even_table then gen_hex_odd_offsets else gen_hex_even_offsets).
Definition dir_ok (geom : Z) (c0 d : coord) : bool :=
  if geom =? 2 then pair_in d (hex_offsets c0)
  else forallb (fun x => (-1 <=? x) && (x <=? 1)) d
       && (if geom =? 0 then existsb (fun x => negb (x =? 0)) d
           else Nat.eqb (length (filter (fun x => negb (x =? 0)) d)) 1).
Definition move_target (dims c0 dir : coord) (geom : Z) (torus : bool) : option coord :=
  let c := if torus then vmod (vadd c0 dir) dims else vadd c0 dir in
  if Nat.eqb (length dir) (length c0) && dir_ok geom c0 dir && valid_coord dims c then Some c else None.

(* ---- aggregate ---- *)
Definition zsum (l : list Z) : Z := fold_right Z.add 0 l.
Definition SUM : Z := 0.  Definition MAX : Z := 1.  Definition MIN : Z := 2.  Definition MEAN : Z := 3.
Definition aggregate (d : arr) (kind : Z) : option (list Z) :=
  let vals := avals d in
  if kind =? SUM then Some [zsum vals]
  else if kind =? MAX then match zmaxl vals with Some t => Some [t] | None => None end
  else if kind =? MIN then match zminl vals with Some t => Some [t] | None => None end
  else if kind =? MEAN then Some [zsum vals; Z.of_nat (length vals)]     (* the mean is sum / n *)
  else None.

(* ---- NumPy's result dtype of modify_cells (np.where(cond, op(data, value), data)) ---- *)
Definition DT_TYPEERROR : Z := 8.  Definition DT_VALUE_DEPENDENT : Z := 9.
Definition dtype_result (ldt : Z) (fm : oform) (f : fop) (vdt : Z) : Z :=
  match f with
  | FNot | FNotF => ldt                                   (* bool result, promoted back by np.where *)
  | FNeg => if ldt =? 0 then DT_TYPEERROR else ldt        (* numpy boolean negative is not supported *)
  | FAdd _ | FMul _ | FOr _ => Z.max ldt vdt
  | FMax _ | FMin _ =>
      match fm with
      | PyFn => if vdt =? ldt then ldt else DT_VALUE_DEPENDENT
          (* python max / min return ONE OF their arguments and np.vectorize takes its output type from the
             first element: with an operand of another dtype the result (and its values) depend on the data *)
      | _ => Z.max ldt vdt
      end
  end.
(* what the generators feed to modify_cells: the operand is not wider than the layer, no negative of bools *)
Definition admissible (ldt : Z) (fm : oform) (f : fop) (vdt : Z) : bool :=
  match f with
  | FNot | FNotF => true
  | FNeg => negb (ldt =? 0)
  | FMax _ | FMin _ => match fm with PyFn => vdt =? ldt | _ => vdt <=? ldt end
  | _ => vdt <=? ldt
  end.

Definition step (st : state) (o : op) : state * res :=
  match o with
  | NewLayer n dt dims v =>
      (set_objs st (s_objs st ++ [mk_layer n dt dims v]), ROk [Z.of_nat (length (s_objs st))])
  | Create n dt v =>
      if s_discrete st then
        let L := mk_layer n dt (s_dims st) v in
        let id := Z.of_nat (length (s_objs st)) in
        match add_layer st id L with
        | (_, RErr k) => (st, RErr k)            (* the new object is unreachable *)
        | (st1, _) => (set_objs st1 (s_objs st1 ++ [L]), ROk [id])
        end
      else (st, RSkip)
  | AddLayer h =>
      match get_obj st h with
      | Some L => add_layer st h L
      | None => (st, RSkip)
      end
  | RemoveLayer n => remove_layer st n
  | CellWrite c n v =>
      if s_discrete st && valid_coord (s_dims st) c then
        match assoc n (s_descr st) with
        | Some _ => (cell_setattr st c n v, ROk [])
        | None => (st, RSkip)
        end
      else (st, RSkip)
  | LayerWrite r c v =>
      match resolve st r with
      | Some id =>
          match get_obj st id with
          | Some L =>
              match norm_coord (l_dims L) c with
              | Some c' => (set_data st id L (aset (l_data L) c' v), ROk [])
              | None => (st, RErr E_INDEX)
              end
          | None => (st, RSkip)
          end
      | None => (st, RSkip)
      end
  | SetCells r v cd =>
      match resolve st r with
      | Some id =>
          match get_obj st id with
          | Some L => (set_data st id L (amap (fun x => if eval_ocond cd x then v else x) (l_data L)), ROk [])
          | None => (st, RSkip)
          end
      | None => (st, RSkip)
      end
  | SetArray r vals =>
      match resolve st r with
      | Some id =>
          match get_obj st id with
          | Some L =>
              if Nat.eqb (length vals) (length (l_data L))
              then (set_data st id L (afill (l_data L) vals), ROk [])
              else (st, RErr E_VALUE)
          | None => (st, RSkip)
          end
      | None => (st, RSkip)
      end
  | ModifyCells r fm f hasval cd =>
      match resolve st r with
      | Some id =>
          match get_obj st id with
          | Some L =>
              match modify_cells L fm f hasval cd with
              | Some d => (set_data st id L d, ROk [])
              | None => (st, RErr E_VALUE)
              end
          | None => (st, RSkip)
          end
      | None => (st, RSkip)
      end
  | ModifyCell r c fm f hasval =>
      if s_discrete st then (st, RSkip) else
      match resolve st r with
      | Some id =>
          match get_obj st id with
          | Some L =>
              (* current_value = self.data[position] *)
              match norm_coord (l_dims L) c with
              | None => (st, RErr E_INDEX)
              | Some c' =>
                  match fm, hasval with
                  | PyFn, _ | UBin, true =>
                      (set_data st id L (aset (l_data L) c' (apply_fop f (aget0 (l_data L) c'))), ROk [])
                  | UUn, true => (st, RErr E_TYPE)       (* value lands in the ufunc's out= slot *)
                  | _, false => (st, RErr E_VALUE)
                  end
              end
          | None => (st, RSkip)
          end
      | None => (st, RSkip)
      end
  | Select conds exts masks only_empty aslist =>
      match select_mask st conds exts masks only_empty with
      | inl m => (st, ROk (select_obs m aslist))
      | inr k => (st, RErr k)
      end
  | Place a c =>
      if valid_coord (s_dims st) c then
        match agent_cell (s_agents st) a with
        | Some _ => (st, RSkip)
        | None =>
            if s_discrete st then
              (* agent.cell = cell with agent.cell None: cell.add_agent(agent) *)
              match cell_add_agent st a c with
              | (st1, true) => (st1, ROk [])
              | (st1, false) => (st1, RErr E_EXC)                          (* "Cell is full" *)
              end
            else if s_multi st then (leg_place st a c, ROk [])
            else if occupied (s_agents st) c then (st, RErr E_EXC)         (* "Cell not empty" *)
            else (leg_place st a c, ROk [])
        end
      else (st, RSkip)
  | Move a c =>
      if valid_coord (s_dims st) c then
        match agent_cell (s_agents st) a with
        | None => (st, RSkip)
        | Some c0 => do_move st a c0 c
        end
      else (st, RSkip)
  | MoveRel a dir geom torus =>
      if s_discrete st then
        match agent_cell (s_agents st) a with
        | None => (st, RSkip)
        | Some c0 =>
            (* new_cell = self.cell.connections.get(direction); None -> ValueError *)
            match move_target (s_dims st) c0 dir geom torus with
            | Some c => do_move st a c0 c
            | None => (st, RErr E_VALUE)
            end
        end
      else (st, RSkip)
  | Remove a =>
      match agent_cell (s_agents st) a with
      | None => (st, RSkip)
      | Some c0 =>
          if s_discrete st then (cell_remove_agent st a c0, ROk [])
          else (leg_remove st a c0, ROk [])
      end
  | Skip => (st, RSkip)
  | NbhdMask nb =>
      if forallb (valid_coord (s_dims st)) nb then
        (* the translated function body itself (Generated.Tables, harness/tables/proplayer_code.py) *)
        match (if s_discrete st then gen_nbhd_mask_d (s_dims st) nb else gen_nbhd_mask_l (s_dims st) nb) with
        | GOk m => (st, ROk (map (fun kb => b2z (snd kb)) m))
        | GErr k _ => (st, RErr k)
        end
      else (st, RErr E_ILLEGAL)
  | Aggregate r kind =>
      match resolve st r with
      | Some id =>
          match get_obj st id with
          | Some L => match aggregate (l_data L) kind with
                      | Some p => (st, ROk p)
                      | None => (st, RErr E_VALUE)
                      end
          | None => (st, RSkip)
          end
      | None => (st, RSkip)
      end
  | ProbeDtype ldt fm f vdt => (st, ROk [dtype_result ldt fm f vdt])
  | LayerSelect r cd aslist =>
      match resolve st r with
      | Some id =>
          match get_obj st id with
          | Some L => (st, ROk (select_obs (map (fun kx => (fst kx, eval_cond cd (snd kx))) (l_data L)) aslist))
          | None => (st, RSkip)
          end
      | None => (st, RSkip)
      end
  end.

(* ---- the observation of the whole state, taken after every operation ---- *)
Definition obj_view (L : layer) : list Z :=
  l_name L :: l_dt L :: Z.of_nat (length (l_dims L)) :: l_dims L ++ avals (l_data L).
Definition opt_z (o : option Z) : Z := match o with Some v => v | None => -4 end.
Definition cell_view (st : state) (n : Z) : list Z :=
  map (fun c => opt_z (cell_read st c n)) (all_coords (s_dims st)).
Definition pairs_flat (l : list (Z * Z)) : list Z := flat_map (fun kv => [fst kv; snd kv]) l.
Definition view (st : state) : list Z :=
  Z.of_nat (length (s_objs st)) :: flat_map obj_view (s_objs st)
  ++ [-7] ++ pairs_flat (s_grid st)
  ++ [-8] ++ (if s_discrete st then flat_map (fun kv => fst kv :: cell_view st (fst kv)) (s_grid st) else [])
  ++ [-9] ++ zsort (s_props st)
  ++ [-10] ++ zsort (map fst (s_descr st))
  ++ [-11] ++ map (fun c => b2z (negb (occupied (s_agents st) c))) (all_coords (s_dims st))
  ++ [-12] ++ (if s_discrete st then [] else avals (s_emask st)).

Fixpoint run_ops (st : state) (ops : list op) : list (list Z) :=
  match ops with
  | [] => []
  | o :: t => let '(st', r) := step st o in (obs_res r ++ view st') :: run_ops st' t
  end.
Fixpoint run_state (st : state) (ops : list op) : state :=
  match ops with
  | [] => st
  | o :: t => run_state (fst (step st o)) t
  end.

(* a fresh grid: the discrete one creates its "empty" layer (bool, True) in __init__ *)
Definition DT_BOOL : Z := 0.  Definition DT_INT : Z := 1.  Definition DT_FLOAT : Z := 2.
Definition init (discrete multi : bool) (cap : Z) (dims : list Z) : state :=
  if discrete then
    {| s_discrete := true; s_multi := multi; s_cap := cap; s_dims := dims;
       s_objs := [mk_layer EMPTY DT_BOOL dims 1];
       s_grid := [(EMPTY, 0)]; s_descr := [(EMPTY, 0)]; s_props := [EMPTY];
       s_emask := []; s_agents := [] |}
  else
    {| s_discrete := false; s_multi := multi; s_cap := cap; s_dims := dims;
       s_objs := []; s_grid := []; s_descr := []; s_props := [];
       s_emask := full dims 1; s_agents := [] |}.

Record case := { c_discrete : bool; c_multi : bool; c_cap : Z; c_dims : list Z; c_ops : list op }.
Definition run_case (c : case) : list (list Z) := run_ops (init (c_discrete c) (c_multi c) (c_cap c) (c_dims c)) (c_ops c).
