(* Model of the agent registry of mesa/model.py + mesa/agent.py (property C02), transcribed
   statement by statement:

     Agent.__init__            unique_id = next(_ids[model]); model.register_agent(self)
     Model.register_agent      _agents[a] = None; _agents_by_type[type(a)].add(a) / new AgentSet; _all_agents.add(a)
     Model.deregister_agent    del _agents[a]; _agents_by_type[type(a)].remove(a); _all_agents.remove(a)
                               (each of the three may raise KeyError and stops the rest)
     Agent.remove              deregister_agent under contextlib.suppress(KeyError)
     Model.remove_all_agents   for a in list(_agents.keys()): a.remove()
     Agent.create_agents       per-argument ListLike / sequence-of-length-n dispatch, n constructor calls
     AgentSet.do / shuffle_do  iterate a snapshot of the key references
     AgentSet.shuffle/sort(inplace=True) on model.agents / agents_by_type[c]   (outcome supplied, legality-checked)

   Several models coexist in one world.  An agent object is a key (its global creation index:
   the harness' reference to it); its attributes (model, unique_id, class, constructor payload)
   live in the heap table w_born, which - together with w_removed, the log of keys on which
   remove()/deregister was called - is also the history the theorems speak about.
   A dict is an insertion-ordered list of distinct keys.  Definitions only. *)
From Coq Require Import ZArith List Bool.
From Mesa Require Import Common.ListX.
Import ListNotations.
Open Scope Z_scope.

(* ---------- dict-as-list primitives on Z keys ---------- *)
Definition zmem (k : Z) (l : list Z) : bool := memb Z.eqb k l.
Definition zdel (k : Z) (l : list Z) : list Z := remove_key Z.eqb k l.          (* del d[k] for a present key *)
Definition dict_add (k : Z) (l : list Z) : list Z := if zmem k l then l else l ++ [k].  (* d[k] = None *)

Fixpoint zl_eqb (a b : list Z) : bool :=
  match a, b with
  | [], [] => true
  | x :: a', y :: b' => (x =? y) && zl_eqb a' b'
  | _, _ => false
  end.
Definition is_perm (a b : list Z) : bool := zl_eqb (zsort a) (zsort b).

Fixpoint upd {A : Type} (n : nat) (v : A) (l : list A) : list A :=
  match l, n with
  | [], _ => []
  | _ :: t, O => v :: t
  | x :: t, S n' => x :: upd n' v t
  end.

(* ---------- agents ---------- *)
(* what the constructor received: one int, or a whole sequence (create_agents with a sequence whose
   length is not n, or a str) *)
Inductive payload := PInt (v : Z) | PSeq (l : list Z).
Definition enc_pay (p : payload) : list Z :=
  match p with PInt v => [0; v] | PSeq l => 1 :: Z.of_nat (length l) :: l end.

Record arec := { a_key : Z; a_model : Z; a_uid : Z; a_cls : Z; a_pay : payload }.

(* ---------- one model's registry ---------- *)
Record mstate := {
  m_next : Z;                       (* the value the next next(_ids[model]) returns *)
  m_hard : list Z;                  (* _agents: dict of hard references *)
  m_all : list Z;                   (* _all_agents *)
  m_bt : list (Z * list Z);         (* _agents_by_type: class -> AgentSet, in key insertion order *)
  m_reord : bool                    (* ghost: an in-place shuffle/sort of one of this model's sets happened *)
}.

Definition FIRST_ID : Z := 1.       (* itertools.count(1) *)
Definition fresh_model : mstate :=
  {| m_next := FIRST_ID; m_hard := []; m_all := []; m_bt := []; m_reord := false |}.

Fixpoint bt_get (c : Z) (bt : list (Z * list Z)) : option (list Z) :=
  match bt with
  | [] => None
  | (c', l) :: t => if c =? c' then Some l else bt_get c t
  end.
Fixpoint bt_set (c : Z) (v : list Z) (bt : list (Z * list Z)) : list (Z * list Z) :=
  match bt with
  | [] => []
  | (c', l) :: t => if c =? c' then (c', v) :: t else (c', l) :: bt_set c v t
  end.

(* ---------- the world ---------- *)
Record world := {
  w_models : list mstate;
  w_born : list arec;               (* every agent ever constructed, in construction order *)
  w_nkey : Z;                       (* next object key *)
  w_removed : list Z                (* ghost: keys on which remove()/deregister_agent was called *)
}.

Definition getm (ms : list mstate) (i : Z) : option mstate :=
  if i <? 0 then None else nth_error ms (Z.to_nat i).
Definition setm (ms : list mstate) (i : Z) (v : mstate) : list mstate := upd (Z.to_nat i) v ms.

Definition find_agent (born : list arec) (k : Z) : option arec :=
  find (fun a => a_key a =? k) born.

(* Model.register_agent *)
Definition register (ms : mstate) (k c : Z) : mstate :=
  let hard := dict_add k (m_hard ms) in
  let bt := match bt_get c (m_bt ms) with
            | Some l => bt_set c (dict_add k l) (m_bt ms)
            | None => m_bt ms ++ [(c, [k])]
            end in
  let all := dict_add k (m_all ms) in
  {| m_next := m_next ms; m_hard := hard; m_all := all; m_bt := bt; m_reord := m_reord ms |}.

(* Agent.__init__ of an agent of class c for model m; returns the new object's key *)
Definition agent_init (w : world) (m c : Z) (p : payload) : world * option Z :=
  match getm (w_models w) m with
  | None => (w, None)
  | Some ms =>
      let k := w_nkey w in
      let uid := m_next ms in
      let ms1 := {| m_next := uid + 1; m_hard := m_hard ms; m_all := m_all ms; m_bt := m_bt ms;
                    m_reord := m_reord ms |} in
      let a := {| a_key := k; a_model := m; a_uid := uid; a_cls := c; a_pay := p |} in
      ({| w_models := setm (w_models w) m (register ms1 k c);
          w_born := w_born w ++ [a]; w_nkey := k + 1; w_removed := w_removed w |}, Some k)
  end.

(* Model.deregister_agent: the state left behind and whether it completed (false = KeyError) *)
Definition deregister (ms : mstate) (k c : Z) : mstate * bool :=
  if zmem k (m_hard ms) then
    let ms1 := {| m_next := m_next ms; m_hard := zdel k (m_hard ms); m_all := m_all ms; m_bt := m_bt ms;
                  m_reord := m_reord ms |} in
    match bt_get c (m_bt ms1) with
    | None => (ms1, false)
    | Some l =>
        if zmem k l then
          let ms2 := {| m_next := m_next ms1; m_hard := m_hard ms1; m_all := m_all ms1;
                        m_bt := bt_set c (zdel k l) (m_bt ms1); m_reord := m_reord ms1 |} in
          if zmem k (m_all ms2) then
            ({| m_next := m_next ms2; m_hard := m_hard ms2; m_all := zdel k (m_all ms2); m_bt := m_bt ms2;
                m_reord := m_reord ms2 |}, true)
          else (ms2, false)
        else (ms1, false)
    end
  else (ms, false).

(* model.deregister_agent(agent) for the object with key k: dispatches on the agent's own model and class *)
Definition deregister_obj (w : world) (k : Z) : world * option bool :=
  match find_agent (w_born w) k with
  | None => (w, None)
  | Some a =>
      match getm (w_models w) (a_model a) with
      | None => (w, None)
      | Some ms =>
          let '(ms', ok) := deregister ms k (a_cls a) in
          ({| w_models := setm (w_models w) (a_model a) ms'; w_born := w_born w; w_nkey := w_nkey w;
              w_removed := k :: w_removed w |}, Some ok)
      end
  end.

(* Agent.remove: KeyError suppressed *)
Definition agent_remove (w : world) (k : Z) : world := fst (deregister_obj w k).

(* Agent subclasses that override remove().  The harness defines three such classes; what their overrides do
   besides (or instead of) super().remove() is constructing agents for the removed agent's own model:
     class 5  E(A): def remove(self): D(self.model, 50); super().remove()          (super called late)
     class 6  F(D): def remove(self): super().remove(); D(self.model, 60)          (work after super)
     class 7  G(A): def remove(self): pass                                          (forgets super().remove()) *)
Record override := { ov_pre : list (Z * Z); ov_super : bool; ov_post : list (Z * Z); ov_partner : bool }.
(*   class 8  H(A): def remove(self):                                               (removes ANOTHER agent)
                       super().remove()
                       p = <the agent whose creation index is self.val>
                       if p is not None and p is not self and p.model is self.model and p in self.model.agents:
                           p.remove()          # dynamic dispatch again: p may be an H, E, F, G, ... itself *)
Definition ov_of (c : Z) : option override :=
  if c =? 5 then Some {| ov_pre := [(3, 50)]; ov_super := true; ov_post := []; ov_partner := false |}
  else if c =? 6 then Some {| ov_pre := []; ov_super := true; ov_post := [(3, 60)]; ov_partner := false |}
  else if c =? 7 then Some {| ov_pre := []; ov_super := false; ov_post := []; ov_partner := false |}
  else if c =? 8 then Some {| ov_pre := []; ov_super := true; ov_post := []; ov_partner := true |}
  else None.

Definition creates (w : world) (m : Z) (l : list (Z * Z)) : world :=
  fold_left (fun w cv => fst (agent_init w m (fst cv) (PInt (snd cv)))) l w.

(* the straight-line part of an overriding remove(): work, super().remove() or not, more work *)
Definition ov_body (w : world) (k : Z) (a : arec) (o : override) : world :=
  let w1 := creates w (a_model a) (ov_pre o) in
  let w2 := if ov_super o then agent_remove w1 k else w1 in
  creates w2 (a_model a) (ov_post o).

(* the other agent an H removes, if its guard lets it *)
Definition partner_target (w : world) (k : Z) (a : arec) : option Z :=
  match a_pay a with
  | PSeq _ => None
  | PInt p =>
      if p =? k then None else
      match find_agent (w_born w) p with
      | None => None
      | Some b =>
          if a_model b =? a_model a then
            match getm (w_models w) (a_model a) with
            | Some ms => if zmem p (m_all ms) then Some p else None
            | None => None
            end
          else None
      end
  end.

(* agent.remove() as Python dispatches it: the override of the agent's class if there is one.  fuel bounds the
   chain of agents removing each other (each link was in model.agents and has just been taken out of it) *)
Fixpoint obj_remove_f (fuel : nat) (w : world) (k : Z) : world :=
  match find_agent (w_born w) k with
  | None => w
  | Some a =>
      match ov_of (a_cls a) with
      | None => agent_remove w k
      | Some o =>
          let w3 := ov_body w k a o in
          if ov_partner o then
            match fuel with
            | O => w3
            | S f => match partner_target w3 k a with
                     | Some p => obj_remove_f f w3 p
                     | None => w3
                     end
            end
          else w3
      end
  end.
Definition obj_remove (w : world) (k : Z) : world := obj_remove_f (S (length (w_born w))) w k.

(* Agent.create_agents *)
Inductive form :=
| FScalar (v : Z)            (* a single object *)
| FSeq (l : list Z)          (* list / tuple / ndarray: per agent when len = n, else handed over whole *)
| FOpaque (l : list Z).      (* a str: never per agent *)

Definition pay_at (f : form) (n : Z) (i : nat) : payload :=
  match f with
  | FScalar v => PInt v
  | FSeq l => if Z.of_nat (length l) =? n then PInt (nth i l 0) else PSeq l
  | FOpaque l => PSeq l
  end.

Fixpoint create_loop (w : world) (m c : Z) (f : form) (n : Z) (is : list nat) : world * list Z :=
  match is with
  | [] => (w, [])
  | i :: t =>
      match agent_init w m c (pay_at f n i) with
      | (w1, Some k) => let '(w2, ks) := create_loop w1 m c f n t in (w2, k :: ks)
      | (w1, None) => create_loop w1 m c f n t
      end
  end.
Definition create_agents (w : world) (m c n : Z) (f : form) : world * list Z :=
  create_loop w m c f n (seq 0 (Z.to_nat n)).

(* Model.remove_all_agents *)
Definition remove_all (w : world) (m : Z) : world :=
  match getm (w_models w) m with
  | None => w
  | Some ms => fold_left obj_remove (m_hard ms) w
  end.

(* ---------- user code run by an activation ---------- *)
Inductive act :=
| ANop
| ARemoveSelf
| ARemove (k : Z)
| ACreate (m c v : Z)
| ACreateMany (m c n : Z) (f : form)
| ARemoveAll (m : Z).

Definition exec_act (w : world) (self : Z) (a : act) : world :=
  match a with
  | ANop => w
  | ARemoveSelf => obj_remove w self
  | ARemove k => obj_remove w k
  | ACreate m c v => fst (agent_init w m c (PInt v))
  | ACreateMany m c n f => fst (create_agents w m c n f)
  | ARemoveAll m => remove_all w m
  end.

Fixpoint script_get (k : Z) (s : list (Z * act)) : act :=
  match s with
  | [] => ANop
  | (k', a) :: t => if k =? k' then a else script_get k t
  end.

(* the loop of do / shuffle_do / map over the snapshot `order`; every object is still referenced by the
   harness, so every weak reference is alive and every member of the snapshot is called *)
Definition activate_loop (w : world) (order : list Z) (s : list (Z * act)) : world :=
  fold_left (fun w k => exec_act w k (script_get k s)) order w.

(* ---------- histories ---------- *)
Inductive op :=
| NewModel
| Create (m c v : Z)                         (* cls(model, v) *)
| CreateMany (m c n : Z) (f : form)          (* cls.create_agents(model, n, arg) *)
| Remove (k : Z)                             (* agent.remove() *)
| Deregister (k : Z)                         (* model.deregister_agent(agent): KeyError visible *)
| RemoveAll (m : Z)
| ReorderAll (m : Z) (order : list Z)        (* model.agents.shuffle/sort(inplace=True); outcome = new order *)
| ReorderType (m c : Z) (order : list Z)     (* model.agents_by_type[c].shuffle/sort(inplace=True) *)
| Activate (m : Z) (c : option Z) (shuf : option (list Z)) (s : list (Z * act))
                                             (* model.agents / agents_by_type[c] .do/.map/.shuffle_do *)
(* Mutation of the model's own all-agents AgentSet through the AgentSet API.  These are NOT registry
   operations (the class docstring warns against them): the code touches _all_agents only. *)
| SetDiscard (m k : Z) (strict : bool)       (* model.agents.discard(agent) / .remove(agent) (strict: KeyError if absent) *)
| SetSelect (m : Z) (keep : list Z).         (* model.agents.select(..., inplace=True); outcome = the members kept *)

Definition OBS_NOOP : list Z := [-2].
Definition OBS_ILLEGAL : list Z := [-3].
Definition E_KEY : Z := 1.

(* `keep` is a subsequence of `l` (what a filtering select may leave behind) *)
Fixpoint is_subseq (keep l : list Z) : bool :=
  match keep, l with
  | [], _ => true
  | _ :: _, [] => false
  | x :: keep', y :: l' => if x =? y then is_subseq keep' l' else is_subseq keep l'
  end.
(* only _all_agents changes; the ghost flag is left alone (the order of what remains is kept) *)
Definition with_all_only (ms : mstate) (l : list Z) : mstate :=
  {| m_next := m_next ms; m_hard := m_hard ms; m_all := l; m_bt := m_bt ms; m_reord := m_reord ms |}.

Definition with_all (ms : mstate) (l : list Z) : mstate :=
  {| m_next := m_next ms; m_hard := m_hard ms; m_all := l; m_bt := m_bt ms; m_reord := true |}.
Definition with_bt (ms : mstate) (c : Z) (l : list Z) : mstate :=
  {| m_next := m_next ms; m_hard := m_hard ms; m_all := m_all ms; m_bt := bt_set c l (m_bt ms); m_reord := true |}.
Definition set_models (w : world) (ms : list mstate) : world :=
  {| w_models := ms; w_born := w_born w; w_nkey := w_nkey w; w_removed := w_removed w |}.

Definition in_all_of_own_model (w : world) (k : Z) : Z :=
  match find_agent (w_born w) k with
  | None => 0
  | Some a => match getm (w_models w) (a_model a) with
              | None => 0
              | Some ms => if zmem k (m_all ms) then 1 else 0
              end
  end.

(* the state change and the op's own result *)
Definition step_op (w : world) (o : op) : world * list Z :=
  match o with
  | NewModel =>
      (set_models w (w_models w ++ [fresh_model]), [Z.of_nat (length (w_models w))])
  | Create m c v =>
      match agent_init w m c (PInt v) with
      | (w', Some k) => (w', [k])
      | (w', None) => (w', OBS_NOOP)
      end
  | CreateMany m c n f =>
      match getm (w_models w) m with
      | None => (w, OBS_NOOP)
      | Some _ => let '(w', ks) := create_agents w m c n f in (w', Z.of_nat (length ks) :: ks)
      end
  | Remove k =>
      match find_agent (w_born w) k with
      | None => (w, OBS_NOOP)
      | Some a =>
          match getm (w_models w) (a_model a) with
          | None => (w, OBS_NOOP)
          | Some _ => let w' := obj_remove w k in (w', [in_all_of_own_model w' k])
          end
      end
  | Deregister k =>
      match deregister_obj w k with
      | (w', None) => (w', OBS_NOOP)
      | (w', Some true) => (w', [0])
      | (w', Some false) => (w', [-1; E_KEY])
      end
  | RemoveAll m =>
      match getm (w_models w) m with
      | None => (w, OBS_NOOP)
      | Some _ => (remove_all w m, [0])
      end
  | ReorderAll m order =>
      match getm (w_models w) m with
      | None => (w, OBS_NOOP)
      | Some ms =>
          if is_perm order (m_all ms)
          then (set_models w (setm (w_models w) m (with_all ms order)), [0])
          else (w, OBS_ILLEGAL)
      end
  | ReorderType m c order =>
      match getm (w_models w) m with
      | None => (w, OBS_NOOP)
      | Some ms =>
          match bt_get c (m_bt ms) with
          | None => (w, OBS_NOOP)
          | Some l =>
              if is_perm order l
              then (set_models w (setm (w_models w) m (with_bt ms c order)), [0])
              else (w, OBS_ILLEGAL)
          end
      end
  | Activate m c shuf s =>
      match getm (w_models w) m with
      | None => (w, OBS_NOOP)
      | Some ms =>
          match (match c with None => Some (m_all ms) | Some c' => bt_get c' (m_bt ms) end) with
          | None => (w, OBS_NOOP)
          | Some snap =>
              match shuf with
              | None => (activate_loop w snap s, Z.of_nat (length snap) :: snap)
              | Some p =>
                  if is_perm p snap then (activate_loop w p s, Z.of_nat (length p) :: p)
                  else (w, OBS_ILLEGAL)
              end
          end
      end
  | SetDiscard m k strict =>
      match getm (w_models w) m with
      | None => (w, OBS_NOOP)
      | Some ms =>
          if zmem k (m_all ms)
          then (set_models w (setm (w_models w) m (with_all_only ms (zdel k (m_all ms)))), [0])
          else (w, if strict then [-1; E_KEY] else [0])
      end
  | SetSelect m keep =>
      match getm (w_models w) m with
      | None => (w, OBS_NOOP)
      | Some ms =>
          if is_subseq keep (m_all ms)
          then (set_models w (setm (w_models w) m (with_all_only ms keep)), [0])
          else (w, OBS_ILLEGAL)
      end
  end.

(* ---------- observation: every view of every model, after every op ---------- *)
Definition view_agent (born : list arec) (k : Z) : list Z :=
  match find_agent born k with
  | Some a => [k; a_uid a; a_cls a] ++ enc_pay (a_pay a)
  | None => [k; -1]
  end.
Definition zlen {A : Type} (l : list A) : Z := Z.of_nat (length l).
Definition view_model (born : list arec) (i : Z) (ms : mstate) : list Z :=
  [-100; i; zlen (m_all ms)] ++ flat_map (view_agent born) (m_all ms)
  ++ [-101; zlen (m_hard ms)] ++ m_hard ms
  ++ [-102; zlen (m_bt ms)] ++ flat_map (fun cl => fst cl :: zlen (snd cl) :: snd cl) (m_bt ms).
Fixpoint view_models (born : list arec) (i : Z) (ms : list mstate) : list Z :=
  match ms with
  | [] => []
  | m :: t => view_model born i m ++ view_models born (i + 1) t
  end.
Definition view_world (w : world) : list Z :=
  view_models (w_born w) 0 (w_models w) ++ [-103] ++ map a_uid (w_born w).

Definition step (w : world) (o : op) : world * list Z :=
  let '(w', r) := step_op w o in (w', r ++ view_world w').

Fixpoint run_ops (w : world) (ops : list op) : list (list Z) :=
  match ops with
  | [] => []
  | o :: t => let '(w', ob) := step w o in ob :: run_ops w' t
  end.

Definition final (w : world) (ops : list op) : world := fold_left (fun w o => fst (step w o)) ops w.

Definition init (n : Z) : world :=
  {| w_models := repeat fresh_model (Z.to_nat n); w_born := []; w_nkey := 0; w_removed := [] |}.

Record case := { c_nmodels : Z; c_ops : list op }.
Definition run_case (c : case) : list (list Z) := run_ops (init (c_nmodels c)) (c_ops c).
