(* Model of the step counter of mesa/model.py (property C05):

     Model.__init__      self.steps = 0; self.running = True;
                         self._user_step = self.step      (the bound method the MRO resolves NOW)
                         self.step = self._wrapped_step   (instance attribute: shadows every class-level step)
     Model._wrapped_step self.steps += 1; self._user_step( *args, **kwargs)
     Model.run_model     while self.running: self.step()
     Model.step          def step(self) -> None: pass

   A class hierarchy is a list of levels from the most derived class down to (excluding) Model.  A level may
   define step (with a fixed number of positional parameters or *args/**kwargs); its body - the user code
   interpreted here and built by the harness with type() - logs what it sees (self.steps, self.running, its
   arguments), may raise, may call super().step(...) (forwarding its arguments or none), and afterwards may
   clear self.running once self.steps has reached a threshold.  super().step resolves to the next definer
   further down, finally Model.step, which takes no argument.  Python's call protocol rejects a wrong number
   of arguments with TypeError before the body runs.  Definitions only. *)
From Coq Require Import ZArith List Bool.
From Mesa Require Import Model.C3.
Import ListNotations.
Open Scope Z_scope.

Record level := {
  l_def : bool;            (* the class defines step *)
  l_arity : Z;             (* number of parameters besides self; negative = *args, **kwargs *)
  l_super : bool;          (* the body calls super().step(...) *)
  l_fwd : bool;            (* ... with its own arguments (else with none) *)
  l_stop : option Z;       (* after that: if self.steps >= k: self.running = False *)
  l_raise : option Z;      (* right after logging: if self.steps == k: raise *)
  l_rec : option Z         (* then: if self.steps < k: self.step()   - a recursive call through the wrapper *)
}.
Definition hierarchy := list level.

Record mstate := { steps : Z; running : bool }.
Record event := { e_inst : Z; e_lvl : Z; e_seen : Z; e_run : bool; e_args : list Z }.
Inductive status := Ok | ErrType | ErrBoom | OutOfFuel.

Definition zlen {A : Type} (l : list A) : Z := Z.of_nat (length l).
Definition arity_ok (l : level) (args : list Z) : bool := (l_arity l <? 0) || (l_arity l =? zlen args).
Definition opt_is (o : option Z) (f : Z -> bool) : bool := match o with Some k => f k | None => false end.
Definition clear_running (st : mstate) : mstate := {| steps := steps st; running := false |}.

(* calling the step attribute looked up on the classes h (h = the MRO from some class downwards, idx = the
   position of its head in the whole hierarchy).  With multiple inheritance h is the C3 linearisation of the
   instance's class: super() continues at the NEXT class of that list, whichever base it came from.
   `rec st` is what a nested self.step() (no arguments) does - the instance attribute, i.e. the wrapper again. *)
Fixpoint call_chain (rec : mstate -> mstate * list event * status)
                    (h : hierarchy) (idx mid : Z) (st : mstate) (args : list Z)
  : mstate * list event * status :=
  match h with
  | [] => match args with [] => (st, [], Ok) | _ :: _ => (st, [], ErrType) end      (* Model.step(self) *)
  | l :: t =>
      if l_def l then
        if arity_ok l args then
          let ev := {| e_inst := mid; e_lvl := idx; e_seen := steps st; e_run := running st; e_args := args |} in
          if opt_is (l_raise l) (fun k => steps st =? k) then (st, [ev], ErrBoom)
          else
            let '(st0, evr, rr) := if opt_is (l_rec l) (fun k => steps st <? k) then rec st else (st, [], Ok) in
            match rr with
            | Ok =>
                let '(st1, evs, r) :=
                  if l_super l then call_chain rec t (idx + 1) mid st0 (if l_fwd l then args else [])
                  else (st0, [], Ok) in
                match r with
                | Ok => (if opt_is (l_stop l) (fun k => steps st1 >=? k) then clear_running st1 else st1,
                         ev :: evr ++ evs, Ok)
                | _ => (st1, ev :: evr ++ evs, r)
                end
            | _ => (st0, ev :: evr, rr)
            end
        else (st, [], ErrType)
      else call_chain rec t (idx + 1) mid st args
  end.

Definition incr (st : mstate) : mstate := {| steps := steps st + 1; running := running st |}.

(* Model._wrapped_step, i.e. what instance.step( *args) runs; fuel bounds the depth of recursive self.step() *)
Fixpoint wrapped (fuel : nat) (h : hierarchy) (mid : Z) (st : mstate) (args : list Z)
  : mstate * list event * status :=
  match fuel with
  | O => (incr st, [], OutOfFuel)
  | S f => call_chain (fun s => wrapped f h mid s []) h 0 mid (incr st) args
  end.
Definition CALL_FUEL : nat := 40.
Definition wrapped_step (h : hierarchy) (mid : Z) (st : mstate) (args : list Z) : mstate * list event * status :=
  wrapped CALL_FUEL h mid st args.

(* Model.run_model; the harness lets the loop make at most `fuel` calls and aborts the next one on entry *)
Fixpoint run_model (fuel : nat) (h : hierarchy) (mid : Z) (st : mstate) : mstate * list event * status :=
  if running st then
    match fuel with
    | O => ({| steps := steps st + 1; running := running st |}, [], OutOfFuel)
    | S f =>
        let '(st1, ev1, r) := wrapped_step h mid st [] in
        match r with
        | Ok => let '(st2, ev2, r2) := run_model f h mid st1 in (st2, ev1 ++ ev2, r2)
        | _ => (st1, ev1, r)
        end
    end
  else (st, [], Ok).

(* the level whose step the instance's _user_step is bound to (None: Model.step itself) *)
Fixpoint resolve (h : hierarchy) (idx : Z) : option (Z * level) :=
  match h with
  | [] => None
  | l :: t => if l_def l then Some (idx, l) else resolve t (idx + 1)
  end.

(* ---------- several classes, several instances ---------- *)
Record inst := { i_cls : Z; i_st : mstate }.
(* w_bases: for each class, the base lists of its levels when it is built with multiple inheritance ([] = a plain
   single-inheritance chain).  A hierarchy is USED as its MRO; NewInstance checks with the C3 merge (Model/C3.v) that
   the MRO of the declared base lists really is the order in which the levels are listed. *)
Record world := { w_classes : list hierarchy; w_bases : list (list (list Z)); w_insts : list inst }.

Definition znth {A : Type} (l : list A) (i : Z) : option A :=
  if i <? 0 then None else nth_error l (Z.to_nat i).
Fixpoint upd {A : Type} (n : nat) (v : A) (l : list A) : list A :=
  match l, n with
  | [], _ => []
  | _ :: t, O => v :: t
  | x :: t, S n' => x :: upd n' v t
  end.
Definition set_inst (w : world) (i : Z) (st : mstate) (c : Z) : world :=
  {| w_classes := w_classes w; w_bases := w_bases w;
     w_insts := upd (Z.to_nat i) {| i_cls := c; i_st := st |} (w_insts w) |}.

Inductive op :=
| NewInstance (c : Z)                 (* cls() *)
| Step (i : Z) (args : list Z)        (* instance.step( *args) (some possibly by keyword) *)
| RunModel (i : Z) (fuel : nat)       (* instance.run_model() *)
| SetRunning (i : Z) (b : bool)       (* instance.running = b *)
| Clone (i : Z).                      (* pickle.loads(pickle.dumps(instance)) (any protocol; also reached through a pickled
                                         agent or AgentSet of the model) or copy.deepcopy(instance): a NEW instance of the same
                                         class with the same counter and flag, whose step is again the counting wrapper *)

Definition enc_status (r : status) : list Z :=
  match r with Ok => [0] | ErrType => [-1; 2] | ErrBoom => [-1; 3] | OutOfFuel => [-4] end.
Definition b2z (b : bool) : Z := if b then 1 else 0.
Definition enc_event (e : event) : list Z :=
  [e_inst e; e_lvl e; e_seen e; b2z (e_run e); zlen (e_args e)] ++ e_args e.
Definition enc_call (x : mstate * list event * status) : list Z :=
  let '(st, evs, r) := x in
  enc_status r ++ [steps st; b2z (running st); zlen evs] ++ flat_map enc_event evs.
Definition OBS_NOOP : list Z := [-2].

(* the instance's class hierarchy *)
Definition class_of (w : world) (i : Z) : option (inst * hierarchy) :=
  match znth (w_insts w) i with
  | None => None
  | Some x => match znth (w_classes w) (i_cls x) with
              | None => None
              | Some h => Some (x, h)
              end
  end.

Definition step_op (w : world) (o : op) : world * list Z :=
  match o with
  | NewInstance c =>
      match znth (w_classes w) c with
      | None => (w, OBS_NOOP)
      | Some _ =>
          if negb (match znth (w_bases w) c with
                   | Some (b :: bs) => mro_is_level_order (b :: bs)
                   | _ => true
                   end) then (w, [-3])
          else
          ({| w_classes := w_classes w; w_bases := w_bases w;
              w_insts := w_insts w ++ [{| i_cls := c; i_st := {| steps := 0; running := true |} |}] |},
           [zlen (w_insts w)])
      end
  | Step i args =>
      match class_of w i with
      | None => (w, OBS_NOOP)
      | Some (x, h) =>
          let res := wrapped_step h i (i_st x) args in
          (set_inst w i (fst (fst res)) (i_cls x), enc_call res)
      end
  | RunModel i fuel =>
      match class_of w i with
      | None => (w, OBS_NOOP)
      | Some (x, h) =>
          match resolve h 0 with
          | None => (w, OBS_NOOP)        (* nothing could ever clear `running`: not run *)
          | Some _ =>
              let res := run_model fuel h i (i_st x) in
              (set_inst w i (fst (fst res)) (i_cls x), enc_call res)
          end
      end
  | SetRunning i b =>
      match class_of w i with
      | None => (w, OBS_NOOP)
      | Some (x, h) => (set_inst w i {| steps := steps (i_st x); running := b |} (i_cls x), [0])
      end
  | Clone i =>
      match class_of w i with
      | None => (w, OBS_NOOP)
      | Some (x, h) =>
          ({| w_classes := w_classes w; w_bases := w_bases w;
              w_insts := w_insts w ++ [{| i_cls := i_cls x; i_st := i_st x |}] |}, [zlen (w_insts w)])
      end
  end.

Definition view_world (w : world) : list Z :=
  -100 :: flat_map (fun x => [steps (i_st x); b2z (running (i_st x))]) (w_insts w).

Definition step (w : world) (o : op) : world * list Z :=
  let '(w', r) := step_op w o in (w', r ++ view_world w').

Fixpoint run_ops (w : world) (ops : list op) : list (list Z) :=
  match ops with
  | [] => []
  | o :: t => let '(w', ob) := step w o in ob :: run_ops w' t
  end.

Definition final (w : world) (ops : list op) : world := fold_left (fun w o => fst (step w o)) ops w.

Record case := { c_classes : list hierarchy; c_bases : list (list (list Z)); c_ops : list op }.
Definition init (cs : list hierarchy) (bs : list (list (list Z))) : world :=
  {| w_classes := cs; w_bases := bs; w_insts := [] |}.
Definition run_case (c : case) : list (list Z) := run_ops (init (c_classes c) (c_bases c)) (c_ops c).
