(* Extension of Model/CellSpace.v (round 3, breadth): histories may also contain
     - DIRECT calls of cell.add_agent(agent) / cell.remove_agent(agent) (they bypass agent.cell),
     - agents created in the middle of a history (of any of the three classes),
     - the CellCollection views: space.all_cells and space.empties as collections - their cells, their agents,
       select_random_cell(), select_random_agent(),
     - capacity 0 and fractional (float) capacities.
   The API operations are those of CellSpace.step, run in the environment restricted to the agents created so far
   (env_at); nothing of CellSpace.v changes, so every theorem about step / exec stays as it is.  Definitions only. *)
From Coq Require Import ZArith List Bool.
From Mesa Require Import Common.ListX Common.CellState Generated.Tables Model.CellSpace.
Import ListNotations.
Open Scope Z_scope.

(* connections changed at run time by Cell.connect / Cell.disconnect: (cell, key) -> Some target | None (deleted);
   the most recent entry wins, anything else is the connection the space was built with *)
Definition ovl := list ((Z * list Z) * option Z).
Fixpoint ov_get (o : ovl) (c : Z) (d : list Z) : option (option Z) :=
  match o with
  | [] => None
  | ((c', d'), t) :: r => if (c' =? c) && zlist_eqb d' d then Some t else ov_get r c d
  end.

(* the environment when only agents 1 .. n exist yet and the connections have been edited by o *)
Definition env_x (e : env) (n : Z) (o : ovl) : env :=
  {| e_ncells := e_ncells e; e_nagents := n; e_cap := e_cap e;
     e_conn := fun c d => match ov_get o c d with Some t => t | None => e_conn e c d end;
     e_grid := e_grid e; e_kind := e_kind e; e_dirs := e_dirs e |}.

Record xstate := { xs : state; born : Z; ov : ovl }.     (* born = number of agents created so far *)

(* CellCollection.select(filter_func, at_most): the filters the harness can build on both sides *)
Inductive cpred :=
| PAny                    (* filter_func=None *)
| PEmpty                  (* lambda cell: cell.is_empty *)
| PNonEmpty               (* lambda cell: not cell.is_empty *)
| PAtLeast (k : Z)        (* lambda cell: len(cell.agents) >= k *)
| PIdxMod (m r : Z)       (* lambda cell: index(cell) % m == r   (m > 0) *)
| PHas (a : Z).           (* lambda cell: agent_a in cell.agents *)
Definition cpred_eval (s : state) (p : cpred) (c : Z) : bool :=
  match p with
  | PAny => true
  | PEmpty => is_empty s c
  | PNonEmpty => negb (is_empty s c)
  | PAtLeast k => zlen (content s c) >=? k
  | PIdxMod m r => c mod m =? r
  | PHas a => memz a (content s c)
  end.
Inductive amost := AInf | AInt (k : Z) | AFrac (num den : Z).   (* float("inf") | an int | the float num/den <= 1.0 *)
(* `if at_most <= 1.0 and isinstance(at_most, float): at_most = int(len(self) * at_most)` *)
Definition limit_of (len : Z) (am : amost) : option Z :=
  match am with AInf => None | AInt k => Some k | AFrac num den => Some (len * num / den) end.
(* the generator:  count = 0; for cell in self: if count >= at_most: break; if not f or f(cell): yield cell; count += 1 *)
Fixpoint sel_loop (p : Z -> bool) (lim : option Z) (count : Z) (l : list Z) : list Z :=
  match l with
  | [] => []
  | c :: t =>
      if match lim with Some k => count >=? k | None => false end then []
      else if p c then c :: sel_loop p lim (count + 1) t else sel_loop p lim count t
  end.

Inductive coll := CAll | CEmpties.             (* space.all_cells | space.empties *)

(* CellCollection.cells / .agents (itertools.chain over the cells' agent lists) *)
Definition coll_cells (e : env) (s : state) (w : coll) : list Z :=
  match w with CAll => cells_dom e | CEmpties => empties e s end.
Definition coll_agents (e : env) (s : state) (w : coll) : list Z := flat_map (content s) (coll_cells e s w).

Inductive xop :=
| Api (o : op)                                    (* an operation of CellSpace.v *)
| CellAdd (c a : Z)                               (* cell.add_agent(agent), called directly *)
| CellRemove (c a : Z)                            (* cell.remove_agent(agent), called directly *)
| NewAgent                                        (* the next agent of the case is created (and registered) *)
| CollRandomCell (w : coll) (outcome : option Z)  (* collection.select_random_cell() *)
| CollRandomAgent (w : coll) (outcome : option Z) (* collection.select_random_agent() *)
| CollView (w : coll)                             (* len(collection), collection.cells, list(collection.agents) *)
| CollSelect (w : coll) (p : cpred) (am : amost)  (* collection.select(filter, at_most): its cells and agents *)
| Connect (c other : Z) (key : list Z)            (* cell.connect(other, key) *)
| Disconnect (c other : Z) (ks : list (list Z))   (* cell.disconnect(other); ks = the direction keys of the history *)
| ConnQuery (c : Z) (ks : list (list Z))          (* [cell.connections.get(k) for k in ks] *)
| Fill (c a0 n : Z).                              (* scale: for a in a0 .. a0+n-1: try: agent_a.cell = cell  except: pass *)

Definition raw_result (r : option Z) : result := match r with None => Ok [] | Some k => Err k end.

(* random.choice(seq): IndexError on an empty sequence; the recorded outcome must be an element *)
Definition choice (l : list Z) (outcome : option Z) : result :=
  match l with
  | [] => Err E_NOEMPTY
  | _ => match outcome with
         | Some x => if memz x l then Ok [x] else Illegal
         | None => Illegal
         end
  end.

(* the scale operation: n placements in a row, rejected ones skipped; the result counts the successful ones *)
Fixpoint fill_loop (en : env) (s : state) (c : Z) (l : list Z) (ok : Z) : state * Z :=
  match l with
  | [] => (s, ok)
  | a :: t =>
      let '(s1, r) := step en s (SetCell a (Some c)) in
      fill_loop en s1 c t (match r with Ok _ => ok + 1 | _ => ok end)
  end.

Definition coll_select (e : env) (s : state) (w : coll) (p : cpred) (am : amost) : list Z :=
  let l := coll_cells e s w in sel_loop (cpred_eval s p) (limit_of (zlen l) am) 0 l.

Definition with_xs (x : xstate) (s : state) : xstate := {| xs := s; born := born x; ov := ov x |}.
Definition with_ov (x : xstate) (o : ovl) : xstate := {| xs := xs x; born := born x; ov := o |}.

Definition xstep (e : env) (x : xstate) (o : xop) : xstate * result :=
  let en := env_x e (born x) (ov x) in
  match o with
  | Api o' => let '(s', r) := step en (xs x) o' in (with_xs x s', r)
  | CellAdd c a =>
      if in_cells en c && in_agents en a
      then let '(s', r) := add_agent en (xs x) c a in (with_xs x s', raw_result r)
      else (x, NotApplicable)
  | CellRemove c a =>
      if in_cells en c && in_agents en a
      then let '(s', r) := remove_agent (xs x) c a in (with_xs x s', raw_result r)
      else (x, NotApplicable)
  | NewAgent =>
      if born x <? e_nagents e then ({| xs := xs x; born := born x + 1; ov := ov x |}, Ok [born x + 1]) else (x, NotApplicable)
  | CollRandomCell w out => (x, choice (coll_cells en (xs x) w) out)
  | CollRandomAgent w out => (x, choice (coll_agents en (xs x) w) out)
  | CollView w =>
      (x, Ok (zlen (coll_cells en (xs x) w) :: coll_cells en (xs x) w ++ [-9] ++ coll_agents en (xs x) w))
  | CollSelect w p am =>
      let l := coll_select en (xs x) w p am in (x, Ok (zlen l :: l ++ [-9] ++ flat_map (content (xs x)) l))
  | Connect c other key =>
      if in_cells en c && in_cells en other then (with_ov x (((c, key), Some other) :: ov x), Ok []) else (x, NotApplicable)
  | Disconnect c other ks =>
      if in_cells en c && in_cells en other
      then (with_ov x (map (fun d => ((c, d), None)) (filter (fun d => opt_eqb (e_conn en c d) (Some other)) ks) ++ ov x), Ok [])
      else (x, NotApplicable)
  | ConnQuery c ks =>
      if in_cells en c then (x, Ok (map (fun d => match e_conn en c d with Some t => t | None => -1 end) ks)) else (x, NotApplicable)
  | Fill c a0 n =>
      let '(s', ok) := fill_loop en (xs x) c (zrange a0 (a0 + n - 1)) 0 in (with_xs x s', Ok [ok])
  end.

(* is_full with a fractional capacity q: len == q is never true; admission uses ceil(q) (see CellSpaceXProofs) *)
Definition xis_full (frac : Z -> bool) (e : env) (s : state) (c : Z) : bool := negb (frac c) && is_full e s c.

(* the view of CellSpace.v over the agents created so far, with is_full of fractional capacities *)
Definition xview (e : env) (frac : Z -> bool) (x : xstate) : list Z :=
  let en := env_x e (born x) (ov x) in let s := xs x in
  flat_map (fun a => [match ptr s a with Some c => c | None => -1 end; b2z (reg s a)]) (agents_dom en)
  ++ [-4]
  ++ flat_map (fun c => zlen (content s c) :: content s c
                        ++ [b2z (is_empty s c); b2z (xis_full frac en s c)]
                        ++ (if e_grid en then [b2z (flag s c)] else [])) (cells_dom en)
  ++ [-5] ++ empties en s
  ++ [-6] ++ zsort (all_agents en s)
  ++ [-7] ++ zsort (space_agents en s).

Fixpoint xexec (e : env) (x : xstate) (ops : list xop) : xstate :=
  match ops with [] => x | o :: t => xexec e (fst (xstep e x o)) t end.

Fixpoint xrun_ops (e : env) (frac : Z -> bool) (x : xstate) (ops : list xop) : list (list Z) :=
  match ops with
  | [] => []
  | o :: t => let '(x', r) := xstep e x o in (enc_result r ++ xview e frac x') :: xrun_ops e frac x' t
  end.

Record xcase := {
  x_base : case;            (* cells, capacities (ceil of a fractional one), connections, ALL agent kinds in creation order; c_ops unused *)
  x_born0 : Z;              (* agents created before the first operation *)
  x_frac : list bool;       (* per cell: the capacity is not an integer *)
  x_ops : list xop
}.

Definition frac_of (c : xcase) : Z -> bool :=
  fun i => if (0 <=? i) then nth (Z.to_nat i) (x_frac c) false else false.

Definition xinit (n : Z) : xstate := {| xs := init; born := n; ov := [] |}.

Definition xrun_case (c : xcase) : list (list Z) :=
  xrun_ops (env_of_case (x_base c)) (frac_of c) (xinit (x_born0 c)) (x_ops c).
