(* Extension of Model/CellSpace.v (round 3, breadth): histories may also contain
     - DIRECT calls of cell.add_agent(agent) / cell.remove_agent(agent) (they bypass agent.cell),
     - agents created in the middle of a history (of any of the three classes),
     - the CellCollection views: space.all_cells and space.empties as collections - their cells, their agents,
       select_random_cell(), select_random_agent(),
     - capacity 0 and fractional (float) capacities.
   The API operations are those of CellSpace.step, run in the environment restricted to the agents created so far
   (env_at); nothing of CellSpace.v changes, so every theorem about step / exec stays as it is.  Definitions only. *)
From Coq Require Import ZArith List Bool.
From Mesa Require Import Common.ListX Common.CellState Generated.Tables Model.CellSpace.
Import ListNotations.
Open Scope Z_scope.

(* the environment when only agents 1 .. n exist yet *)
Definition env_at (e : env) (n : Z) : env :=
  {| e_ncells := e_ncells e; e_nagents := n; e_cap := e_cap e; e_conn := e_conn e; e_grid := e_grid e;
     e_kind := e_kind e; e_dirs := e_dirs e |}.

Record xstate := { xs : state; born : Z }.     (* born = number of agents created so far *)

Inductive coll := CAll | CEmpties.             (* space.all_cells | space.empties *)

(* CellCollection.cells / .agents (itertools.chain over the cells' agent lists) *)
Definition coll_cells (e : env) (s : state) (w : coll) : list Z :=
  match w with CAll => cells_dom e | CEmpties => empties e s end.
Definition coll_agents (e : env) (s : state) (w : coll) : list Z := flat_map (content s) (coll_cells e s w).

Inductive xop :=
| Api (o : op)                                    (* an operation of CellSpace.v *)
| CellAdd (c a : Z)                               (* cell.add_agent(agent), called directly *)
| CellRemove (c a : Z)                            (* cell.remove_agent(agent), called directly *)
| NewAgent                                        (* the next agent of the case is created (and registered) *)
| CollRandomCell (w : coll) (outcome : option Z)  (* collection.select_random_cell() *)
| CollRandomAgent (w : coll) (outcome : option Z) (* collection.select_random_agent() *)
| CollView (w : coll).                            (* len(collection), collection.cells, list(collection.agents) *)

Definition raw_result (r : option Z) : result := match r with None => Ok [] | Some k => Err k end.

(* random.choice(seq): IndexError on an empty sequence; the recorded outcome must be an element *)
Definition choice (l : list Z) (outcome : option Z) : result :=
  match l with
  | [] => Err E_NOEMPTY
  | _ => match outcome with
         | Some x => if memz x l then Ok [x] else Illegal
         | None => Illegal
         end
  end.

Definition xstep (e : env) (x : xstate) (o : xop) : xstate * result :=
  let en := env_at e (born x) in
  match o with
  | Api o' => let '(s', r) := step en (xs x) o' in ({| xs := s'; born := born x |}, r)
  | CellAdd c a =>
      if in_cells en c && in_agents en a
      then let '(s', r) := add_agent en (xs x) c a in ({| xs := s'; born := born x |}, raw_result r)
      else (x, NotApplicable)
  | CellRemove c a =>
      if in_cells en c && in_agents en a
      then let '(s', r) := remove_agent (xs x) c a in ({| xs := s'; born := born x |}, raw_result r)
      else (x, NotApplicable)
  | NewAgent =>
      if born x <? e_nagents e then ({| xs := xs x; born := born x + 1 |}, Ok [born x + 1]) else (x, NotApplicable)
  | CollRandomCell w out => (x, choice (coll_cells en (xs x) w) out)
  | CollRandomAgent w out => (x, choice (coll_agents en (xs x) w) out)
  | CollView w =>
      (x, Ok (zlen (coll_cells en (xs x) w) :: coll_cells en (xs x) w ++ [-9] ++ coll_agents en (xs x) w))
  end.

(* is_full with a fractional capacity q: len == q is never true; admission uses ceil(q) (see CellSpaceXProofs) *)
Definition xis_full (frac : Z -> bool) (e : env) (s : state) (c : Z) : bool := negb (frac c) && is_full e s c.

(* the view of CellSpace.v over the agents created so far, with is_full of fractional capacities *)
Definition xview (e : env) (frac : Z -> bool) (x : xstate) : list Z :=
  let en := env_at e (born x) in let s := xs x in
  flat_map (fun a => [match ptr s a with Some c => c | None => -1 end; b2z (reg s a)]) (agents_dom en)
  ++ [-4]
  ++ flat_map (fun c => zlen (content s c) :: content s c
                        ++ [b2z (is_empty s c); b2z (xis_full frac en s c)]
                        ++ (if e_grid en then [b2z (flag s c)] else [])) (cells_dom en)
  ++ [-5] ++ empties en s
  ++ [-6] ++ zsort (all_agents en s)
  ++ [-7] ++ zsort (space_agents en s).

Fixpoint xexec (e : env) (x : xstate) (ops : list xop) : xstate :=
  match ops with [] => x | o :: t => xexec e (fst (xstep e x o)) t end.

Fixpoint xrun_ops (e : env) (frac : Z -> bool) (x : xstate) (ops : list xop) : list (list Z) :=
  match ops with
  | [] => []
  | o :: t => let '(x', r) := xstep e x o in (enc_result r ++ xview e frac x') :: xrun_ops e frac x' t
  end.

Record xcase := {
  x_base : case;            (* cells, capacities (ceil of a fractional one), connections, ALL agent kinds in creation order; c_ops unused *)
  x_born0 : Z;              (* agents created before the first operation *)
  x_frac : list bool;       (* per cell: the capacity is not an integer *)
  x_ops : list xop
}.

Definition frac_of (c : xcase) : Z -> bool :=
  fun i => if (0 <=? i) then nth (Z.to_nat i) (x_frac c) false else false.

Definition xinit (n : Z) : xstate := {| xs := init; born := n |}.

Definition xrun_case (c : xcase) : list (list Z) :=
  xrun_ops (env_of_case (x_base c)) (frac_of c) (xinit (x_born0 c)) (x_ops c).
