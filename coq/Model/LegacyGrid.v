(* Model of the mutating calls and the emptiness views of the legacy grids of mesa/space.py
   (SingleGrid, MultiGrid, HexSingleGrid, HexMultiGrid share it: the hex variants differ only in
   neighbourhoods), transcribed statement by statement from the code AS REPAIRED by
   fixes/C08-1 (MultiGrid empty_mask), fixes/C08-2 (SingleGrid.move_agent checks the target before
   removing) and fixes/C08-3 (_distance_squared reduces differences modulo the size on a torus).

     _Grid.torus_adj / out_of_bounds / is_cell_empty / empties / build_empties / exists_empty_cells
     SingleGrid.place_agent / remove_agent / move_agent        MultiGrid.place_agent / remove_agent
     _Grid.move_agent / swap_pos / move_to_empty / move_agent_to_one_of / _distance_squared
     _Grid.__getitem__[x, y] / __iter__ / coord_iter / agents    _PropertyGrid.empty_mask

   Python objects:  _grid[x][y]  = coord -> list of agent ids (SingleGrid: [] for None, [a] for a);
   agent.pos = agent -> option coord;  _empties = a list used as a set (membership only is observed);
   _empty_mask = coord -> bool (np.ones at construction).  Random outcomes (the empty cell picked by
   move_to_empty, the position picked by move_agent_to_one_of) are INPUTS, checked for legality.
   Definitions only. *)
From Coq Require Import ZArith List Bool.
From Mesa Require Import Common.ListX Generated.Tables.
Import ListNotations.
Open Scope Z_scope.

Definition coord := (Z * Z)%type.
Definition coord_eqb (a b : coord) : bool := (fst a =? fst b) && (snd a =? snd b).
Definition agent := Z.

Record cfg := { c_w : Z; c_h : Z; c_torus : bool; c_multi : bool }.

Record state := {
  grid : coord -> list agent;      (* self._grid[x][y] *)
  pos : agent -> option coord;     (* agent.pos *)
  built : bool;                    (* self._empties_built *)
  empties : list coord;            (* self._empties (meaningful only when built) *)
  mask : coord -> bool             (* self._empty_mask *)
}.

Definition init : state :=
  {| grid := fun _ => []; pos := fun _ => None; built := false; empties := []; mask := fun _ => true |}.

Definition upd_c {A : Type} (f : coord -> A) (p : coord) (v : A) : coord -> A :=
  fun q => if coord_eqb q p then v else f q.
Definition upd_a {A : Type} (f : agent -> A) (a : agent) (v : A) : agent -> A :=
  fun b => if b =? a then v else f b.

(* outcome of a call *)
Inductive res :=
| Ok (r : list Z)      (* returned normally; r = what the call returned, canonicalised *)
| Err (k : Z)          (* raised; k = kind *)
| Illegal              (* the recorded random outcome is not one the code could have produced *)
| Skip.                (* call outside the quantifier of C08 (not issued to the implementation) *)

Definition E_OOB : Z := 1.             (* "Point out of bounds, and space non-toroidal." *)
Definition E_CELL_NOT_EMPTY : Z := 2.  (* "Cell not empty" *)
Definition E_NO_EMPTY : Z := 3.        (* "ERROR: No empty cells" *)
Definition E_NOT_ON_GRID : Z := 4.     (* swap_pos: "... - not on the grid" *)
Definition E_BAD_SELECTION : Z := 5.   (* ValueError "Invalid selection method" *)
Definition E_NO_POSITIONS : Z := 6.    (* ValueError "No positions given" (handle_empty="error") *)
Definition E_INTERNAL : Z := 7.        (* list.remove(x): x not in list / unpacking None: unreachable
                                          from states satisfying the invariant (proved) *)

Definition bind (x : state * res) (f : state -> state * res) : state * res :=
  match x with
  | (s, Ok _) => f s
  | (s, r) => (s, r)
  end.

(* ---- _Grid.out_of_bounds / torus_adj / is_cell_empty ---- *)
Definition out_of_bounds (c : cfg) (p : coord) : bool :=
  (fst p <? 0) || (fst p >=? c_w c) || (snd p <? 0) || (snd p >=? c_h c).

Definition torus_adj (c : cfg) (p : coord) : option coord :=   (* None = raises E_OOB *)
  if negb (out_of_bounds c p) then Some p
  else if negb (c_torus c) then None
  else Some (fst p mod c_w c, snd p mod c_h c).

Definition is_nil {A : Type} (l : list A) : bool := match l with [] => true | _ => false end.
Definition is_cell_empty (s : state) (p : coord) : bool := is_nil (grid s p).

(* itertools.product(range(width), range(height)) *)
Definition all_cells (c : cfg) : list coord :=
  flat_map (fun x => map (fun y => (x, y)) (zrange 0 (c_h c - 1))) (zrange 0 (c_w c - 1)).

(* the `empties` property: builds the set on first use *)
Definition build_empties (c : cfg) (s : state) : state :=
  if built s then s
  else {| grid := grid s; pos := pos s; built := true;
          empties := filter (is_cell_empty s) (all_cells c); mask := mask s |}.

Definition set_discard (p : coord) (l : list coord) : list coord := remove_key coord_eqb p l.
Definition set_add (p : coord) (l : list coord) : list coord :=
  if memb coord_eqb p l then l else p :: l.

Definition zmemb (a : Z) (l : list Z) : bool := memb Z.eqb a l.
Fixpoint remove_first (a : Z) (l : list Z) : list Z :=    (* list.remove(a) *)
  match l with
  | [] => []
  | x :: t => if x =? a then t else x :: remove_first a t
  end.

(* self._empty_mask[pos] = <value>, possibly nested in `if self._empties_built`: the pair
   (value, guarded) is re-extracted from the source on every run (Generated.Tables, T1) *)
Definition mask_write (w : bool * bool) (blt : bool) (m : coord -> bool) (p : coord) : coord -> bool :=
  if snd w && negb blt then m else upd_c m p (fst w).

Definition is_none {A : Type} (o : option A) : bool := match o with None => true | Some _ => false end.

(* ---- SingleGrid.place_agent / remove_agent ---- *)
Definition place_single (s : state) (a : agent) (p : coord) : state * res :=
  if is_cell_empty s p then
    ({| grid := upd_c (grid s) p [a];
        pos := upd_a (pos s) a (Some p);
        built := built s;
        empties := if built s then set_discard p (empties s) else empties s;
        mask := mask_write gen_mask_single_place (built s) (mask s) p |}, Ok [])
  else (s, Err E_CELL_NOT_EMPTY).

Definition remove_single (s : state) (a : agent) : state * res :=
  match pos s a with
  | None => (s, Ok [])
  | Some p =>
    ({| grid := upd_c (grid s) p [];
        pos := upd_a (pos s) a None;
        built := built s;
        empties := if built s then set_add p (empties s) else empties s;
        mask := mask_write gen_mask_single_remove (built s) (mask s) p |}, Ok [])
  end.

(* ---- MultiGrid.place_agent / remove_agent (the mask writes are (false, unguarded) / (true, unguarded)
   once fixes/C08-1 is applied; the unchanged tree has (true, guarded) / (false, guarded) = defect #7) ---- *)
Definition place_multi (s : state) (a : agent) (p : coord) : state * res :=
  if is_none (pos s a) || negb (zmemb a (grid s p)) then
    ({| grid := upd_c (grid s) p (grid s p ++ [a]);
        pos := upd_a (pos s) a (Some p);
        built := built s;
        empties := if built s then set_discard p (empties s) else empties s;
        mask := mask_write gen_mask_multi_place (built s) (mask s) p |}, Ok [])
  else (s, Ok []).

Definition remove_multi (s : state) (a : agent) : state * res :=
  match pos s a with
  | None => (s, Err E_INTERNAL)                       (* x, y = None *)
  | Some p =>
    if zmemb a (grid s p) then
      let l := remove_first a (grid s p) in
      ({| grid := upd_c (grid s) p l;
          pos := upd_a (pos s) a None;
          built := built s;
          empties := if built s && is_nil l then set_add p (empties s) else empties s;
          mask := if is_nil l then mask_write gen_mask_multi_remove (built s) (mask s) p else mask s |}, Ok [])
    else (s, Err E_INTERNAL)                          (* list.remove: not in list *)
  end.

Definition place (c : cfg) (s : state) (a : agent) (p : coord) : state * res :=
  if c_multi c then place_multi s a p else place_single s a p.
Definition remove (c : cfg) (s : state) (a : agent) : state * res :=
  if c_multi c then remove_multi s a else remove_single s a.

(* ---- _Grid.move_agent;  SingleGrid.move_agent (fixes/C08-2) ---- *)
Definition grid_move_agent (c : cfg) (s : state) (a : agent) (p : coord) : state * res :=
  match torus_adj c p with
  | None => (s, Err E_OOB)
  | Some p' => bind (remove c s a) (fun s1 => place c s1 a p')
  end.

(* occupant is not None and occupant is not agent *)
Definition blocked (s : state) (a : agent) (p : coord) : bool :=
  match grid s p with
  | [] => false
  | b :: _ => negb (b =? a)
  end.

Definition move_agent (c : cfg) (s : state) (a : agent) (p : coord) : state * res :=
  if c_multi c then grid_move_agent c s a p
  else
    match torus_adj c p with
    | None => (s, Err E_OOB)
    | Some p' => if blocked s a p' then (s, Err E_CELL_NOT_EMPTY) else grid_move_agent c s a p'
    end.

(* ---- _Grid.swap_pos ---- *)
Definition swap_pos (c : cfg) (s : state) (a b : agent) : state * res :=
  match pos s a, pos s b with
  | Some pa, Some pb =>
    if coord_eqb pa pb then (s, Ok [])
    else
      bind (remove c s a) (fun s1 =>
      bind (remove c s1 b) (fun s2 =>
      bind (place c s2 a pb) (fun s3 =>
      place c s3 b pa)))
  | _, _ => (s, Err E_NOT_ON_GRID)
  end.

(* ---- _Grid.move_to_empty ----
   sampling = true  : the branch  num_empty_cells > self.cutoff_empties  (rejection sampling over
                      randrange(width) x randrange(height) until is_cell_empty),
   sampling = false : agent.random.choice(sorted(self.empties)).
   Which branch ran is an input (the cutoff is a float power); out = the position that came out. *)
Definition move_to_empty (c : cfg) (s : state) (a : agent) (sampling : bool) (out : coord)
  : state * res :=
  let s0 := build_empties c s in                       (* len(self.empties) *)
  if (Z.of_nat (length (empties s0)) =? 0) then (s0, Err E_NO_EMPTY)
  else
    let legal := if sampling then negb (out_of_bounds c out) && is_cell_empty s0 out
                 else memb coord_eqb out (empties s0) in
    if legal then bind (remove c s0 a) (fun s1 => place c s1 a out)
    else (s0, Illegal).

(* ---- _Grid._distance_squared (fixes/C08-3) ---- *)
Definition axis_dist (torus : bool) (n d : Z) : Z :=
  let d := Z.abs d in
  if torus then let d := d mod n in Z.min d (n - d) else d.
Definition dist2 (c : cfg) (p q : coord) : Z :=
  let dx := axis_dist (c_torus c) (c_w c) (fst p - fst q) in
  let dy := axis_dist (c_torus c) (c_h c) (snd p - snd q) in
  dx * dx + dy * dy.

(* ---- _Grid.move_agent_to_one_of ---- *)
Inductive sel := SelRandom | SelClosest | SelBad.
Inductive hempty := HNone | HWarn | HError.

Definition move_agent_to_one_of (c : cfg) (s : state) (a : agent) (cells : list coord)
           (sl : sel) (he : hempty) (out : coord) : state * res :=
  match cells with
  | [] =>
    match he with
    | HNone => (s, Ok [0])
    | HWarn => (s, Ok [1])              (* RuntimeWarning issued *)
    | HError => (s, Err E_NO_POSITIONS)
    end
  | _ =>
    match sl with
    | SelRandom =>                                       (* agent.random.choice(pos) *)
      if memb coord_eqb out cells then move_agent c s a out else (s, Illegal)
    | SelClosest =>
      match pos s a with
      | None => (s, Err E_INTERNAL)
      | Some cur =>
        (* shuffle; keep the positions of minimal _distance_squared; choice among them *)
        if memb coord_eqb out cells
           && forallb (fun p => dist2 c out cur <=? dist2 c p cur) cells
        then move_agent c s a out else (s, Illegal)
      end
    | SelBad => (s, Err E_BAD_SELECTION)
    end
  end.

(* ---- readers ---- *)
Definition b2z (b : bool) : Z := if b then 1 else 0.
Definition enc (p : coord) : Z := fst p * 65536 + snd p.
Definition obs_cell (l : list agent) : list Z := Z.of_nat (length l) :: zsort l.

(* what `grid.empties` returns if read now, as a sorted list (all_cells is in sorted order) *)
Definition view_empties (c : cfg) (s : state) : list coord :=
  filter (fun p => if built s then memb coord_eqb p (empties s) else is_cell_empty s p) (all_cells c).
Definition view_mask (c : cfg) (s : state) : list bool := map (mask s) (all_cells c).
Definition view_exists (c : cfg) (s : state) : bool :=     (* len(self.empties) > 0, after build *)
  0 <? Z.of_nat (length (empties (build_empties c s))).
Definition view_index (c : cfg) (s : state) (p : coord) : option (list agent) :=   (* grid[x, y] *)
  match torus_adj c p with None => None | Some p' => Some (grid s p') end.
Definition view_iter (c : cfg) (s : state) : list (list agent) := map (grid s) (all_cells c).
Definition view_coord_iter (c : cfg) (s : state) : list (list agent * coord) :=
  map (fun p => (grid s p, p)) (all_cells c).
Definition view_agents (c : cfg) (s : state) : list agent := flat_map (grid s) (all_cells c).

(* ---- the indexing forms of _Grid.__getitem__ and get/iter_cell_list_contents ---- *)
Definition E_INDEX : Z := 9.        (* IndexError: list index out of range *)

(* the indices a Python slice lo:hi (no step) selects from a list of length n *)
Definition slice_bound (n : Z) (dflt : Z) (b : option Z) : Z :=
  match b with
  | None => dflt
  | Some k => let k := if k <? 0 then k + n else k in Z.max 0 (Z.min n k)
  end.
Definition pyslice (n : Z) (lo hi : option Z) : list Z :=
  zrange (slice_bound n 0 lo) (slice_bound n n hi - 1).

Inductive rform :=
| FCol (x : Z)                                     (* grid[x]            -> self._grid[x] (plain list indexing) *)
| FList (l : list coord)                           (* grid[(x1, y1), (x2, y2), ...]  (through torus_adj) *)
| FSliceY (x : Z) (lo hi : option Z)               (* grid[x, lo:hi] *)
| FSliceX (lo hi : option Z) (y : Z)               (* grid[lo:hi, y] *)
| FSliceXY (xlo xhi ylo yhi : option Z)            (* grid[a:b, c:d] *)
| FCellList (l : list coord) (single : bool)       (* get_cell_list_contents / iter_cell_list_contents; single =
                                                      one coordinate passed as a bare tuple (accept_tuple_argument) *)
| FAdj (p : coord)                                 (* grid.torus_adj(p): the wrapped coordinate, or the rejection *)
| FAdj2d (p : coord).                              (* _HexGrid.torus_adj_2d(p): unconditional wrap (hex neighbourhoods) *)

Definition view_col (c : cfg) (s : state) (x : Z) : option (list (list agent)) :=
  if (- c_w c <=? x) && (x <? c_w c)
  then Some (map (fun y => grid s (x mod c_w c, y)) (zrange 0 (c_h c - 1))) else None.

Fixpoint view_list (c : cfg) (s : state) (l : list coord) : option (list (list agent)) :=
  match l with
  | [] => Some []
  | p :: t => match torus_adj c p with
              | None => None
              | Some p' => match view_list c s t with None => None | Some r => Some (grid s p' :: r) end
              end
  end.

Definition view_slice_y (c : cfg) (s : state) (x : Z) (lo hi : option Z) : option (list (list agent)) :=
  match torus_adj c (x, 0) with
  | None => None
  | Some p => Some (map (fun y => grid s (fst p, y)) (pyslice (c_h c) lo hi))
  end.
Definition view_slice_x (c : cfg) (s : state) (lo hi : option Z) (y : Z) : option (list (list agent)) :=
  match torus_adj c (0, y) with
  | None => None
  | Some p => Some (map (fun x => grid s (x, snd p)) (pyslice (c_w c) lo hi))
  end.
Definition view_slice_xy (c : cfg) (s : state) (xlo xhi ylo yhi : option Z) : list (list agent) :=
  flat_map (fun x => map (fun y => grid s (x, y)) (pyslice (c_h c) ylo yhi)) (pyslice (c_w c) xlo xhi).
Definition view_cell_list (s : state) (l : list coord) : list agent := flat_map (grid s) l.

Definition torus_adj_2d (c : cfg) (p : coord) : coord := (fst p mod c_w c, snd p mod c_h c).

Definition obs_cells (l : list (list agent)) : list Z := flat_map obs_cell l.

Definition view_form (c : cfg) (s : state) (f : rform) : res :=
  match f with
  | FCol x => match view_col c s x with Some r => Ok (obs_cells r) | None => Err E_INDEX end
  | FList l => match l with
               | [] => Skip                                   (* index[0] of an empty tuple: not generated *)
               | _ => match view_list c s l with Some r => Ok (obs_cells r) | None => Err E_OOB end
               end
  | FSliceY x lo hi => match view_slice_y c s x lo hi with Some r => Ok (obs_cells r) | None => Err E_OOB end
  | FSliceX lo hi y => match view_slice_x c s lo hi y with Some r => Ok (obs_cells r) | None => Err E_OOB end
  | FSliceXY a b d e => Ok (obs_cells (view_slice_xy c s a b d e))
  | FCellList l single =>
    if forallb (fun p => negb (out_of_bounds c p)) l && (negb single || (Z.of_nat (length l) =? 1))
    then let r := view_cell_list s l in Ok (b2z (has_dup r) :: zsort r) else Skip
  | FAdj p => match torus_adj c p with Some q => Ok [fst q; snd q] | None => Err E_OOB end
  | FAdj2d p => let q := torus_adj_2d c p in Ok [fst q; snd q]
  end.

(* ---- property layers (PropertyLayer objects attached to the grid): they live beside the grid state ---- *)
Definition layers := Z -> coord -> Z.                 (* layer number -> data[x, y] *)
Definition linit : layers := fun i _ => i.            (* the driver's default value of layer i is i *)
Inductive lop :=
| LSet (i : Z) (p : coord) (v : Z)                    (* grid.properties[name_i].set_cell(p, v) *)
| LFill (i : Z) (v : Z)                               (* grid.properties[name_i].set_cells(v) *)
| LGet (i : Z) (p : coord).                           (* grid.properties[name_i].data[p] *)

(* ---- histories ---- *)
Inductive op :=
| Place (a : agent) (p : coord)
| Remove (a : agent)
| Move (a : agent) (p : coord)
| Swap (a b : agent)
| MoveToEmpty (a : agent) (sampling : bool) (out : coord)
| MoveToOneOf (a : agent) (cells : list coord) (sl : sel) (he : hempty) (out : coord)
| ReadEmpties | ReadMask | IsCellEmpty (p : coord) | ExistsEmpty
| Index (p : coord) | Iter | CoordIter | Agents
| ReadForm (f : rform)      (* the other indexing forms *)
| LayerOp (l : lop).        (* acts on the layers only: see lstep *)

Definition placed (s : state) (a : agent) : bool :=
  match pos s a with None => false | Some _ => true end.

Definition step (c : cfg) (s : state) (o : op) : state * res :=
  match o with
  | Place a p =>
    (* quantifier: an unplaced agent, in-grid coordinates *)
    if placed s a || out_of_bounds c p then (s, Skip) else place c s a p
  | Remove a => if placed s a then remove c s a else (s, Skip)
  | Move a p => if placed s a then move_agent c s a p else (s, Skip)
  | Swap a b => swap_pos c s a b
  | MoveToEmpty a sampling out =>
    if placed s a then move_to_empty c s a sampling out else (s, Skip)
  | MoveToOneOf a cells sl he out =>
    if placed s a then move_agent_to_one_of c s a cells sl he out else (s, Skip)
  | ReadEmpties => let s' := build_empties c s in (s', Ok (map enc (view_empties c s')))
  | ReadMask => (s, Ok (map b2z (view_mask c s)))
  | IsCellEmpty p => if out_of_bounds c p then (s, Skip) else (s, Ok [b2z (is_cell_empty s p)])
  | ExistsEmpty => (build_empties c s, Ok [b2z (view_exists c s)])
  | Index p =>
    match view_index c s p with
    | None => (s, Err E_OOB)
    | Some l => (s, Ok (obs_cell l))
    end
  | Iter => (s, Ok (flat_map obs_cell (view_iter c s)))
  | CoordIter => (s, Ok (flat_map (fun x => enc (snd x) :: obs_cell (fst x)) (view_coord_iter c s)))
  | Agents => let l := view_agents c s in (s, Ok (b2z (has_dup l) :: zsort l))
  | ReadForm f => (s, view_form c s f)
  | LayerOp _ => (s, Skip)           (* no effect on the grid state; lstep gives the layer effect *)
  end.

(* ---- observation of the whole state after every operation (n agents, ids 1..n) ---- *)
Definition obs_pos (s : state) (a : agent) : Z :=
  match pos s a with None => -1 | Some p => enc p end.

Definition obs_state (c : cfg) (n : Z) (s : state) : list Z :=
  map (obs_pos s) (zrange 1 n)
  ++ (-7) :: flat_map (fun p => obs_cell (grid s p)) (all_cells c)
  ++ (-7) :: map enc (view_empties c s)
  ++ (-7) :: map b2z (view_mask c s).

Definition obs_res (r : res) : list Z :=
  match r with
  | Ok l => 0 :: l
  | Err k => [-1; k]
  | Illegal => [-3]
  | Skip => [-2]
  end.

Fixpoint run (c : cfg) (s : state) (ops : list op) : state :=
  match ops with
  | [] => s
  | o :: t => run c (fst (step c s o)) t
  end.

Fixpoint run_obs (c : cfg) (n : Z) (s : state) (ops : list op) : list (list Z) :=
  match ops with
  | [] => []
  | o :: t =>
    let '(s', r) := step c s o in
    (obs_res r ++ (-8) :: obs_state c n s') :: run_obs c n s' t
  end.

(* ---- the grid together with its k property layers ---- *)
Definition upd_l (L : layers) (i : Z) (f : coord -> Z) : layers := fun j => if j =? i then f else L j.

Definition lstep (c : cfg) (k : Z) (sl : state * layers) (o : op) : (state * layers) * res :=
  match o with
  | LayerOp l =>
    let '(s, L) := sl in
    match l with
    | LSet i p v =>
      if (0 <=? i) && (i <? k) && negb (out_of_bounds c p) then ((s, upd_l L i (upd_c (L i) p v)), Ok []) else (sl, Skip)
    | LFill i v => if (0 <=? i) && (i <? k) then ((s, upd_l L i (fun _ => v)), Ok []) else (sl, Skip)
    | LGet i p => if (0 <=? i) && (i <? k) && negb (out_of_bounds c p) then (sl, Ok [L i p]) else (sl, Skip)
    end
  | _ => let '(s', r) := step c (fst sl) o in ((s', snd sl), r)
  end.

Definition obs_layers (c : cfg) (k : Z) (L : layers) : list Z :=
  flat_map (fun i => map (L i) (all_cells c)) (zrange 0 (k - 1)).

Fixpoint lrun (c : cfg) (k : Z) (sl : state * layers) (ops : list op) : state * layers :=
  match ops with
  | [] => sl
  | o :: t => lrun c k (fst (lstep c k sl o)) t
  end.

Fixpoint lrun_obs (c : cfg) (n k : Z) (sl : state * layers) (ops : list op) : list (list Z) :=
  match ops with
  | [] => []
  | o :: t =>
    let '(sl', r) := lstep c k sl o in
    (obs_res r ++ (-8) :: obs_state c n (fst sl') ++ (-9) :: obs_layers c k (snd sl')) :: lrun_obs c n k sl' t
  end.

Record case := { k_cfg : cfg; k_n : Z; k_layers : Z; k_ops : list op }.
Definition run_case (k : case) : list (list Z) :=
  lrun_obs (k_cfg k) (k_n k) (k_layers k) (init, linit) (k_ops k).
