(* C3 linearisation (the merge algorithm of CPython's type.mro) for class hierarchies given as a list of base
   lists: class i (position i of the list) has the bases  nth i bases, all of them later positions; a class without
   listed bases derives from the root (Model) directly.  Definitions only. *)
From Coq Require Import ZArith List Bool.
Import ListNotations.
Open Scope Z_scope.

Definition nonempty (s : list Z) : bool := match s with [] => false | _ => true end.
Definition in_tail (c : Z) (s : list Z) : bool := match s with [] => false | _ :: t => existsb (Z.eqb c) t end.
(* c may be taken next: it is in the tail of no remaining sequence *)
Definition good_head (seqs : list (list Z)) (c : Z) : bool := forallb (fun s => negb (in_tail c s)) seqs.
Fixpoint find_head (cands seqs : list (list Z)) : option Z :=
  match cands with
  | [] => None
  | [] :: t => find_head t seqs
  | (c :: _) :: t => if good_head seqs c then Some c else find_head t seqs
  end.
Definition drop_head (c : Z) (s : list Z) : list Z :=
  match s with h :: t => if h =? c then t else s | [] => [] end.

Fixpoint merge (fuel : nat) (seqs : list (list Z)) : option (list Z) :=
  match filter nonempty seqs with
  | [] => Some []
  | live =>
      match fuel with
      | O => None
      | S f =>
          match find_head live live with
          | None => None                                  (* "Cannot create a consistent method resolution order" *)
          | Some c => option_map (cons c) (merge f (map (drop_head c) live))
          end
      end
  end.

Fixpoint lookup (tbl : list (Z * list Z)) (i : Z) : option (list Z) :=
  match tbl with [] => None | (j, m) :: t => if i =? j then Some m else lookup t i end.
Fixpoint lookup_all (tbl : list (Z * list Z)) (l : list Z) : option (list (list Z)) :=
  match l with
  | [] => Some []
  | x :: t => match lookup tbl x, lookup_all tbl t with Some m, Some r => Some (m :: r) | _, _ => None end
  end.

(* the MROs (without the root) of classes i, i+1, ... whose base lists are bs, computed from the bottom up:
   mro(C) = C :: merge (mro(B1), ..., mro(Bk), [B1; ...; Bk]) *)
Fixpoint c3_from (i : Z) (bs : list (list Z)) : option (list (Z * list Z)) :=
  match bs with
  | [] => Some []
  | b :: t =>
      match c3_from (i + 1) t with
      | None => None
      | Some tbl =>
          match lookup_all tbl b with
          | None => None
          | Some mros =>
              match merge (S (length (concat mros) + length b)) (mros ++ [b]) with
              | None => None
              | Some m => Some ((i, i :: m) :: tbl)
              end
          end
      end
  end.

Definition mro_of_first (bs : list (list Z)) : option (list Z) :=
  match c3_from 0 bs with Some ((_, m) :: _) => Some m | Some [] => Some [] | None => None end.

Fixpoint zl_eqb (a b : list Z) : bool :=
  match a, b with
  | [], [] => true
  | x :: a', y :: b' => (x =? y) && zl_eqb a' b'
  | _, _ => false
  end.
Definition level_order (n : nat) : list Z := map Z.of_nat (seq 0 n).
(* the hierarchy's MRO is the order in which its levels are listed (what Model/StepCounter.v assumes of a hierarchy) *)
Definition mro_is_level_order (bs : list (list Z)) : bool :=
  match mro_of_first bs with Some m => zl_eqb m (level_order (length bs)) | None => false end.

(* ---------- the hierarchies the C05 generator builds: every class lists the next level first, then any later ones ---------- *)
Fixpoint sublists (l : list Z) : list (list Z) :=
  match l with [] => [[]] | x :: t => let r := sublists t in map (cons x) r ++ r end.
Definition zrange_nat (lo : Z) (k : nat) : list Z := map (fun j => lo + Z.of_nat j) (seq 0 k).
(* all base-list assignments for classes i .. i+k-1 *)
Fixpoint family_from (i : Z) (k : nat) : list (list (list Z)) :=
  match k with
  | O => [[]]
  | S O => [[[]]]
  | S k' =>
      flat_map (fun extra => map (cons ((i + 1) :: extra)) (family_from (i + 1) k'))
               (sublists (zrange_nat (i + 2) (pred k')))
  end.
Definition family (n : nat) : list (list (list Z)) := family_from 0 n.
