(* Model of mesa/datacollection.py (DataCollector) over a small world of a Mesa model:
   model attributes (ints, None, references to mutable lists), the agent registry in
   registration order, model.steps.  Transcribed statement by statement from
     collect                    (validation at the first collect, dispatch on reporter form, deepcopy)
     _record_agents / _record_agenttype
     add_table_row              (as repaired by fixes/C12-1: validate before appending)
     get_*_dataframe            (re-indexing of the records)
   including the failing paths: the state returned with an error is the state the code leaves
   behind.  Definitions only. *)
From Coq Require Import ZArith List Bool.
Import ListNotations.
Open Scope Z_scope.

Inductive result (A : Type) := Ok (a : A) | Err (kind : Z).
Arguments Ok {A}. Arguments Err {A}.
Definition E_ATTR : Z := 1.      (* AttributeError *)
Definition E_VALUE : Z := 2.     (* ValueError *)
Definition E_RUNTIME : Z := 3.   (* RuntimeError *)
Definition E_EXC : Z := 4.       (* Exception (tables) *)
Definition E_USERWARNING : Z := 5.

(* ---- Python dict keyed by small ints: insertion ordered association list ---- *)
Section Assoc.
  Context {V : Type}.
  Fixpoint aget (k : Z) (l : list (Z * V)) : option V :=
    match l with
    | [] => None
    | (k', v) :: t => if k =? k' then Some v else aget k t
    end.
  (* d[k] = v : replaces in place (position kept) or appends *)
  Fixpoint aset (k : Z) (v : V) (l : list (Z * V)) : list (Z * V) :=
    match l with
    | [] => [(k, v)]
    | (k', v') :: t => if k =? k' then (k', v) :: t else (k', v') :: aset k v t
    end.
  Definition adel (k : Z) (l : list (Z * V)) : list (Z * V) :=
    filter (fun p => negb (k =? fst p)) l.
  Definition amem (k : Z) (l : list (Z * V)) : bool :=
    match aget k l with Some _ => true | None => false end.
End Assoc.

(* ---- values ---- *)
Inductive mval := MInt (z : Z) | MNone | MRef (loc : Z).   (* what a model attribute holds *)
Inductive snap := SNone | SInt (z : Z) | SList (l : list Z). (* an immutable copy (deepcopy) *)

Record agent := { a_id : Z; a_cls : Z; a_attrs : list (Z * Z) }.

Record world := {
  w_steps : Z;
  w_attrs : list (Z * mval);
  w_store : list (Z * list Z);     (* loc -> contents of the mutable list living there *)
  w_next_loc : Z;
  w_agents : list agent;           (* model.agents, registration order *)
  w_next_id : Z }.

(* ---- the class hierarchy used by the histories (fixed):
        5 = mesa.Agent, 0 = A(Agent), 1 = Base(Agent), 2 = Sub1(Base), 3 = Sub2(Base), 4 = SubSub(Sub1);
        any other number is a class that is not an Agent subclass ---- *)
Definition parent (c : Z) : option Z :=
  if c =? 0 then Some 5 else if c =? 1 then Some 5 else if c =? 2 then Some 1
  else if c =? 3 then Some 1 else if c =? 4 then Some 2 else None.
Fixpoint is_sub_f (fuel : nat) (c t : Z) : bool :=
  (c =? t) || match fuel with
              | O => false
              | S f => match parent c with None => false | Some p => is_sub_f f p t end
              end.
Definition is_sub (c t : Z) : bool := is_sub_f 4 c t.
Definition is_agent_class (c : Z) : bool := (0 <=? c) && (c <=? 5).
Definition creatable (c : Z) : bool := (0 <=? c) && (c <=? 4).

(* ---- reporter DSLs (the harness builds the same thing as Python callables) ---- *)
Inductive mfun :=
| FAttr (n : Z)     (* lambda m: m.<n>                       AttributeError when missing *)
| FCount            (* lambda m: len(m.agents) *)
| FSum (n : Z)      (* lambda m: sum(getattr(a, <n>, 0) for a in m.agents) *)
| FSteps            (* lambda m: m.steps *)
| FIds.             (* lambda m: [a.unique_id for a in m.agents] *)
Inductive gfun := GSum | GLen | GList | GNone.   (* functions of the argument list only *)
Inductive mrep :=
| MRAttr (n : Z)                       (* "attr" *)
| MRFun (is_partial : bool) (f : mfun) (* function / functools.partial: reporter(model) *)
| MRMethod (f : mfun)                  (* bound method: reporter() *)
| MRArgs (g : gfun) (args : list Z).   (* [function, args]: reporter[0] applied to the unpacked reporter[1] *)

Inductive afun :=
| AAttr (n : Z)       (* lambda a: a.<n>                     AttributeError when missing *)
| AId                 (* lambda a: a.unique_id *)
| AAttrPlus (n k : Z) (* lambda a: getattr(a, <n>, 0) + k *)
| AStepsAttr (n : Z). (* reads model and agent: a.model.steps * 1000 + getattr(a, <n>, 0) *)
Inductive arep :=
| ARAttr (n : Z)                  (* "attr": getattr(agent, attr, None) *)
| ARFun (f : afun)                (* function: reporter(agent) *)
| ARMethod (f : afun)             (* bound method of the model taking the agent *)
| ARArgs (n : Z) (args : list Z). (* [f, args] with f = lambda a, p..: getattr(a, <n>, 0) + sum(p) *)

Record config := {
  c_mreps : list (Z * mrep);
  c_areps : list (Z * arep);
  c_treps : list (Z * list (Z * arep));   (* class -> reporters *)
  c_tables : list (Z * list Z) }.

(* ---- evaluation = "what evaluating the reporter directly yields" ---- *)
Definition zsum (l : list Z) : Z := fold_right Z.add 0 l.
Definition deref (w : world) (loc : Z) : list Z :=
  match aget loc (w_store w) with Some l => l | None => [] end.
Definition read (w : world) (v : mval) : snap :=      (* deepcopy of a value *)
  match v with MInt z => SInt z | MNone => SNone | MRef loc => SList (deref w loc) end.
Definition attr0 (a : agent) (n : Z) : Z :=
  match aget n (a_attrs a) with Some z => z | None => 0 end.

Definition eval_mfun (w : world) (f : mfun) : result snap :=
  match f with
  | FAttr n => match aget n (w_attrs w) with Some v => Ok (read w v) | None => Err E_ATTR end
  | FCount => Ok (SInt (Z.of_nat (length (w_agents w))))
  | FSum n => Ok (SInt (zsum (map (fun a => attr0 a n) (w_agents w))))
  | FSteps => Ok (SInt (w_steps w))
  | FIds => Ok (SList (map a_id (w_agents w)))
  end.
Definition eval_gfun (g : gfun) (args : list Z) : snap :=
  match g with
  | GSum => SInt (zsum args)
  | GLen => SInt (Z.of_nat (length args))
  | GList => SList args
  | GNone => SNone
  end.
Definition eval_mrep (w : world) (r : mrep) : result snap :=
  match r with
  | MRAttr n => Ok (match aget n (w_attrs w) with Some v => read w v | None => SNone end)
  | MRFun _ f => eval_mfun w f
  | MRMethod f => eval_mfun w f
  | MRArgs g args => Ok (eval_gfun g args)
  end.

Definition eval_afun (w : world) (a : agent) (f : afun) : result snap :=
  match f with
  | AAttr n => match aget n (a_attrs a) with Some z => Ok (SInt z) | None => Err E_ATTR end
  | AId => Ok (SInt (a_id a))
  | AAttrPlus n k => Ok (SInt (attr0 a n + k))
  | AStepsAttr n => Ok (SInt (w_steps w * 1000 + attr0 a n))
  end.
Definition eval_arep (w : world) (a : agent) (r : arep) : result snap :=
  match r with
  | ARAttr n => Ok (match aget n (a_attrs a) with Some z => SInt z | None => SNone end)
  | ARFun f => eval_afun w a f
  | ARMethod f => eval_afun w a f
  | ARArgs n args => Ok (SInt (attr0 a n + zsum args))
  end.

(* ---- the collector ---- *)
Definition row := (Z * Z * list snap)%type.      (* (model.steps, unique_id, values...) *)
Definition cellv := option Z.                     (* table cell: int or None *)

Record dc := {
  d_validated : bool;
  d_mvars : list (Z * list snap);                   (* model_vars *)
  d_arecs : list (Z * list row);                    (* _agent_records *)
  d_trecs : list (Z * list (Z * list row));         (* _agenttype_records *)
  d_tables : list (Z * list (Z * list cellv));      (* tables *)
  d_csteps : list Z }.                              (* _collection_steps (fixes/C13-1) *)

Definition dc_init (cfg : config) : dc :=
  {| d_validated := false;
     d_mvars := map (fun p => (fst p, [])) (c_mreps cfg);
     d_arecs := []; d_trecs := [];
     d_tables := map (fun t => (fst t, map (fun c => (c, [])) (snd t))) (c_tables cfg);
     d_csteps := [] |}.

Definition with_validated (d : dc) : dc :=
  {| d_validated := true; d_mvars := d_mvars d; d_arecs := d_arecs d; d_trecs := d_trecs d;
     d_tables := d_tables d; d_csteps := d_csteps d |}.
Definition with_mvars (d : dc) (mv : list (Z * list snap)) : dc :=
  {| d_validated := d_validated d; d_mvars := mv; d_arecs := d_arecs d; d_trecs := d_trecs d;
     d_tables := d_tables d; d_csteps := d_csteps d |}.
Definition with_arecs (d : dc) (x : list (Z * list row)) : dc :=
  {| d_validated := d_validated d; d_mvars := d_mvars d; d_arecs := x; d_trecs := d_trecs d;
     d_tables := d_tables d; d_csteps := d_csteps d |}.
Definition with_trecs (d : dc) (x : list (Z * list (Z * list row))) : dc :=
  {| d_validated := d_validated d; d_mvars := d_mvars d; d_arecs := d_arecs d; d_trecs := x;
     d_tables := d_tables d; d_csteps := d_csteps d |}.
Definition with_tables (d : dc) (x : list (Z * list (Z * list cellv))) : dc :=
  {| d_validated := d_validated d; d_mvars := d_mvars d; d_arecs := d_arecs d; d_trecs := d_trecs d;
     d_tables := x; d_csteps := d_csteps d |}.
Definition with_csteps (d : dc) (x : list Z) : dc :=
  {| d_validated := d_validated d; d_mvars := d_mvars d; d_arecs := d_arecs d; d_trecs := d_trecs d;
     d_tables := d_tables d; d_csteps := x |}.

(* _validate_model_reporter *)
Definition validate_one (w : world) (r : mrep) : result unit :=
  match r with
  | MRFun false f => match eval_mfun w f with Ok _ => Ok tt | Err _ => Err E_RUNTIME end
  | MRAttr n => if amem n (w_attrs w) then Ok tt else Err E_ATTR
  | _ => Ok tt
  end.
Fixpoint validate_all (w : world) (rs : list (Z * mrep)) : result unit :=
  match rs with
  | [] => Ok tt
  | (_, r) :: t => match validate_one w r with Ok _ => validate_all w t | Err e => Err e end
  end.

(* self.model_vars[var].append(x) *)
Definition aappend (n : Z) (v : snap) (mv : list (Z * list snap)) : list (Z * list snap) :=
  map (fun p => if fst p =? n then (fst p, snd p ++ [v]) else p) mv.

(* the for-loop over model_reporters: appends as it goes, stops at the first exception *)
Fixpoint collect_mvars (w : world) (rs : list (Z * mrep)) (mv : list (Z * list snap))
  : list (Z * list snap) * result unit :=
  match rs with
  | [] => (mv, Ok tt)
  | (n, r) :: t =>
      match eval_mrep w r with
      | Ok v => collect_mvars w t (aappend n v mv)
      | Err e => (mv, Err e)
      end
  end.

Fixpoint map_res {A B : Type} (f : A -> result B) (l : list A) : result (list B) :=
  match l with
  | [] => Ok []
  | x :: t => match f x with
              | Err e => Err e
              | Ok y => match map_res f t with Ok ys => Ok (y :: ys) | Err e => Err e end
              end
  end.

Definition agent_row (w : world) (reps : list (Z * arep)) (a : agent) : result row :=
  match map_res (fun p => eval_arep w a (snd p)) reps with
  | Ok vs => Ok (w_steps w, a_id a, vs)
  | Err e => Err e
  end.
Definition record_agents (w : world) (reps : list (Z * arep)) (ags : list agent) : result (list row) :=
  map_res (agent_row w reps) ags.

(* _record_agenttype, as repaired by fixes/C12-2: the direct instances when there are any,
   otherwise isinstance filtering for Agent subclasses, otherwise ValueError *)
Definition type_agents (w : world) (t : Z) : result (list agent) :=
  match filter (fun a => a_cls a =? t) (w_agents w) with
  | x :: rest => Ok (x :: rest)
  | [] => if is_agent_class t then Ok (filter (fun a => is_sub (a_cls a) t) (w_agents w))
          else Err E_VALUE
  end.

Fixpoint collect_types (w : world) (treps : list (Z * list (Z * arep))) (inner : list (Z * list row))
  : list (Z * list row) * result unit :=
  match treps with
  | [] => (inner, Ok tt)
  | (t, reps) :: rest =>
      match type_agents w t with
      | Err e => (inner, Err e)
      | Ok ags => match record_agents w reps ags with
                  | Err e => (inner, Err e)
                  | Ok rows => collect_types w rest (aset t rows inner)
                  end
      end
  end.

Definition is_nil {A : Type} (l : list A) : bool := match l with [] => true | _ => false end.

Definition collect_stage1 (cfg : config) (w : world) (d : dc) : dc * result unit :=
  if is_nil (c_mreps cfg) then (d, Ok tt)
  else
    let v := if d_validated d then Ok tt else validate_all w (c_mreps cfg) in
    let d0 := with_validated d in
    match v with
    | Err e => (d0, Err e)
    | Ok _ => let '(mv, r) := collect_mvars w (c_mreps cfg) (d_mvars d0) in (with_mvars d0 mv, r)
    end.

Definition collect_stage2 (cfg : config) (w : world) (d : dc) : dc * result unit :=
  if is_nil (c_areps cfg) then (d, Ok tt)
  else match record_agents w (c_areps cfg) (w_agents w) with
       | Err e => (d, Err e)
       | Ok rows => (with_arecs d (aset (w_steps w) rows (d_arecs d)), Ok tt)
       end.

Definition collect_stage3 (cfg : config) (w : world) (d : dc) : dc * result unit :=
  if is_nil (c_treps cfg) then (d, Ok tt)
  else let '(inner, r) := collect_types w (c_treps cfg) [] in
       (with_trecs d (aset (w_steps w) inner (d_trecs d)), r).

Definition collect (cfg : config) (w : world) (d : dc) : dc * result unit :=
  match collect_stage1 cfg w d with
  | (d1, Err e) => (d1, Err e)
  | (d1, Ok _) =>
      let d1' := with_csteps d1 (d_csteps d1 ++ [w_steps w]) in
      match collect_stage2 cfg w d1' with
      | (d2, Err e) => (d2, Err e)
      | (d2, Ok _) => collect_stage3 cfg w d2
      end
  end.

(* add_table_row (repaired: all columns are checked before anything is appended) *)
Definition row_cell (r : list (Z * cellv)) (c : Z) : cellv :=
  match aget c r with Some v => v | None => None end.
Definition add_row (d : dc) (t : Z) (r : list (Z * cellv)) (ignore_missing : bool) : dc * result unit :=
  match aget t (d_tables d) with
  | None => (d, Err E_EXC)
  | Some cols =>
      if negb ignore_missing && existsb (fun c => negb (amem (fst c) r)) cols then (d, Err E_EXC)
      else (with_tables d (aset t (map (fun c => (fst c, snd c ++ [row_cell r (fst c)])) cols) (d_tables d)), Ok tt)
  end.

(* ---- histories ---- *)
Inductive op :=
| SetAttr (n v : Z)                 (* model.<n> = v *)
| SetNone (n : Z)                   (* model.<n> = None *)
| NewList (n : Z) (l : list Z)      (* model.<n> = [..] (a fresh list) *)
| Alias (n m : Z)                   (* model.<n> = model.<m> *)
| Append (n z : Z)                  (* model.<n>.append(z) (in place) *)
| DelAttr (n : Z)                   (* del model.<n> *)
| Create (cls : Z) (attrs : list (Z * Z))
| Remove (id : Z)                   (* agent.remove() *)
| SetAgentAttr (id n v : Z)
| Step                              (* model.steps += 1 (what the step wrapper does) *)
| Collect
| AddRow (t : Z) (r : list (Z * cellv)) (ignore_missing : bool)
| Frames.                           (* build all DataFrames and observe them *)

Inductive outcome := ROk | RErr (k : Z) | RNoop.

Definition with_attrs (w : world) (x : list (Z * mval)) : world :=
  {| w_steps := w_steps w; w_attrs := x; w_store := w_store w; w_next_loc := w_next_loc w;
     w_agents := w_agents w; w_next_id := w_next_id w |}.
Definition with_agents (w : world) (x : list agent) : world :=
  {| w_steps := w_steps w; w_attrs := w_attrs w; w_store := w_store w; w_next_loc := w_next_loc w;
     w_agents := x; w_next_id := w_next_id w |}.

Definition has_agent (w : world) (id : Z) : bool := existsb (fun a => a_id a =? id) (w_agents w).

Definition world_step (w : world) (o : op) : world * outcome :=
  match o with
  | SetAttr n v => (with_attrs w (aset n (MInt v) (w_attrs w)), ROk)
  | SetNone n => (with_attrs w (aset n MNone (w_attrs w)), ROk)
  | NewList n l =>
      ({| w_steps := w_steps w; w_attrs := aset n (MRef (w_next_loc w)) (w_attrs w);
          w_store := aset (w_next_loc w) l (w_store w); w_next_loc := w_next_loc w + 1;
          w_agents := w_agents w; w_next_id := w_next_id w |}, ROk)
  | Alias n m =>
      match aget m (w_attrs w) with
      | Some v => (with_attrs w (aset n v (w_attrs w)), ROk)
      | None => (w, RNoop)
      end
  | Append n z =>
      match aget n (w_attrs w) with
      | Some (MRef loc) =>
          ({| w_steps := w_steps w; w_attrs := w_attrs w;
              w_store := aset loc (deref w loc ++ [z]) (w_store w); w_next_loc := w_next_loc w;
              w_agents := w_agents w; w_next_id := w_next_id w |}, ROk)
      | _ => (w, RNoop)
      end
  | DelAttr n => if amem n (w_attrs w) then (with_attrs w (adel n (w_attrs w)), ROk) else (w, RNoop)
  | Create cls attrs =>
      if creatable cls then
        ({| w_steps := w_steps w; w_attrs := w_attrs w; w_store := w_store w; w_next_loc := w_next_loc w;
            w_agents := w_agents w ++ [{| a_id := w_next_id w; a_cls := cls; a_attrs := attrs |}];
            w_next_id := w_next_id w + 1 |}, ROk)
      else (w, RNoop)
  | Remove id =>
      if has_agent w id then (with_agents w (filter (fun a => negb (a_id a =? id)) (w_agents w)), ROk)
      else (w, RNoop)
  | SetAgentAttr id n v =>
      if has_agent w id then
        (with_agents w (map (fun a => if a_id a =? id
                                      then {| a_id := a_id a; a_cls := a_cls a; a_attrs := aset n v (a_attrs a) |}
                                      else a) (w_agents w)), ROk)
      else (w, RNoop)
  | Step =>
      ({| w_steps := w_steps w + 1; w_attrs := w_attrs w; w_store := w_store w; w_next_loc := w_next_loc w;
          w_agents := w_agents w; w_next_id := w_next_id w |}, ROk)
  | Collect | AddRow _ _ _ | Frames => (w, ROk)
  end.

Record state := { s_w : world; s_d : dc }.

Definition of_result (r : result unit) : outcome := match r with Ok _ => ROk | Err k => RErr k end.

Definition step (cfg : config) (s : state) (o : op) : state * outcome :=
  match o with
  | Collect => let '(d, r) := collect cfg (s_w s) (s_d s) in ({| s_w := s_w s; s_d := d |}, of_result r)
  | AddRow t r ign => let '(d, res) := add_row (s_d s) t r ign in ({| s_w := s_w s; s_d := d |}, of_result res)
  | Frames => (s, ROk)
  | _ => let '(w, oc) := world_step (s_w s) o in ({| s_w := w; s_d := s_d s |}, oc)
  end.

(* ---- the DataFrames: a re-indexing of the records ---- *)
(* pd.DataFrame(self.model_vars): one row per position; raises when no reporters, or ragged *)
Definition all_len {A : Type} (n : nat) (ls : list (list A)) : bool :=
  forallb (fun l => Nat.eqb (length l) n) ls.
Fixpoint transpose {A : Type} (n : nat) (cols : list (list A)) : list (list A) :=   (* n rows *)
  match n with
  | O => []
  | S k => flat_map (fun c => match c with x :: _ => [x] | [] => [] end) cols
           :: transpose k (map (@tl A) cols)
  end.
Definition frame_of_columns {A : Type} (cols : list (list A)) : result (list (list A)) :=
  match cols with
  | [] => Ok []
  | c :: _ => if all_len (length c) cols then Ok (transpose (length c) cols) else Err E_VALUE
  end.
(* a frame with the default RangeIndex: column labels + rows (row i has index i) *)
Record cframe (A : Type) := { cf_cols : list Z; cf_rows : list (list A) }.
Arguments cf_cols {A}. Arguments cf_rows {A}.
(* a frame indexed by (Step, AgentID): index names, value-column labels, rows (step, id, cells) *)
Definition IDX_STEP : Z := 100.
Definition IDX_AGENTID : Z := 101.
Record aframe := { af_index : list Z; af_cols : list Z; af_rows : list row }.

(* frame_of_records for the three kinds of records *)
Definition model_frame (cfg : config) (d : dc) : result (cframe snap) :=
  if is_nil (c_mreps cfg) then Err E_USERWARNING
  else match frame_of_columns (map snd (d_mvars d)) with
       | Ok rows => Ok {| cf_cols := map fst (d_mvars d); cf_rows := rows |}
       | Err e => Err e
       end.
(* from_records(chain(_agent_records.values()), columns=[Step, AgentID, *reporters], index=[Step, AgentID]) *)
Definition agent_frame (cfg : config) (d : dc) : result aframe :=
  if is_nil (c_areps cfg) then Err E_USERWARNING
  else Ok {| af_index := [IDX_STEP; IDX_AGENTID]; af_cols := map fst (c_areps cfg);
             af_rows := concat (map snd (d_arecs d)) |}.
Definition type_records (d : dc) (t : Z) : list (Z * list row) :=
  map (fun rec => (fst rec, match aget t (snd rec) with Some rows => rows | None => [] end)) (d_trecs d).
Definition type_frame (cfg : config) (d : dc) (t : Z) : aframe :=
  {| af_index := [IDX_STEP; IDX_AGENTID];
     af_cols := map fst (match aget t (c_treps cfg) with Some reps => reps | None => [] end);
     af_rows := concat (map snd (type_records d t)) |}.
Definition table_frame (cols : list (Z * list cellv)) : result (cframe cellv) :=
  match frame_of_columns (map snd cols) with
  | Ok rows => Ok {| cf_cols := map fst cols; cf_rows := rows |}
  | Err e => Err e
  end.

(* ---- observations ---- *)
Definition enc_list {A : Type} (f : A -> list Z) (l : list A) : list Z :=
  Z.of_nat (length l) :: flat_map f l.
Definition enc_snap (s : snap) : list Z :=
  match s with SNone => [0] | SInt z => [1; z] | SList l => 2 :: Z.of_nat (length l) :: l end.
Definition enc_cell (c : cellv) : list Z := match c with None => [0] | Some z => [1; z] end.
Definition enc_row (r : row) : list Z :=
  let '(s, i, vs) := r in s :: i :: enc_list enc_snap vs.
Definition enc_dc (d : dc) : list Z :=
  enc_list (fun p => fst p :: enc_list enc_snap (snd p)) (d_mvars d)
  ++ enc_list (fun p => fst p :: enc_list enc_row (snd p)) (d_arecs d)
  ++ enc_list (fun p => fst p :: enc_list (fun q => fst q :: enc_list enc_row (snd q)) (snd p)) (d_trecs d)
  ++ enc_list (fun p => fst p :: enc_list (fun q => fst q :: enc_list enc_cell (snd q)) (snd p)) (d_tables d).
Definition enc_res {A : Type} (f : A -> list Z) (r : result A) : list Z :=
  match r with Ok a => 0 :: f a | Err k => [-1; k] end.
Definition enc_z (z : Z) : list Z := [z].
Definition enc_cframe {A : Type} (f : A -> list Z) (fr : cframe A) : list Z :=
  1 :: enc_list enc_z (cf_cols fr) ++ enc_list (enc_list f) (cf_rows fr).   (* 1 = the index is 0..n-1 *)
Definition enc_aframe (fr : aframe) : list Z :=
  enc_list enc_z (af_index fr) ++ enc_list enc_z (af_cols fr) ++ enc_list enc_row (af_rows fr).
Definition enc_frames (cfg : config) (d : dc) : list Z :=
  enc_res (enc_cframe enc_snap) (model_frame cfg d)
  ++ enc_res enc_aframe (agent_frame cfg d)
  ++ flat_map (fun tr => fst tr :: enc_aframe (type_frame cfg d (fst tr))) (c_treps cfg)
  ++ flat_map (fun tb => fst tb :: enc_res (enc_cframe enc_cell) (table_frame (snd tb))) (d_tables d).
Definition enc_outcome (oc : outcome) : list Z :=
  match oc with ROk => [0] | RErr k => [-1; k] | RNoop => [-2] end.

Definition observe (cfg : config) (o : op) (s : state) (oc : outcome) : list Z :=
  match o with
  | Frames => 7 :: enc_frames cfg (s_d s)
  | _ => enc_outcome oc ++ enc_dc (s_d s)
  end.

Fixpoint run_ops (cfg : config) (s : state) (ops : list op) : list (list Z) :=
  match ops with
  | [] => []
  | o :: t => let '(s', oc) := step cfg s o in observe cfg o s' oc :: run_ops cfg s' t
  end.

(* the state after a history (what the theorems talk about) *)
Fixpoint exec (cfg : config) (s : state) (ops : list op) : state :=
  match ops with
  | [] => s
  | o :: t => exec cfg (fst (step cfg s o)) t
  end.

Definition world_init : world :=
  {| w_steps := 0; w_attrs := []; w_store := []; w_next_loc := 0; w_agents := []; w_next_id := 1 |}.
Definition state_init (cfg : config) : state := {| s_w := world_init; s_d := dc_init cfg |}.

Record case := { k_cfg : config; k_ops : list op }.
Definition run_case (c : case) : list (list Z) := run_ops (k_cfg c) (state_init (k_cfg c)) (k_ops c).
