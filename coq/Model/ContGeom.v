(* Geometry shared by the two continuous-space models (C10).
   Coordinates are dyadic rationals (multiples of 1/16) held as Z scaled by 16, so every
   + - * abs min % and comparison the code performs in binary64 is exact; distances are
   compared squared (scaled by 256).  A point is the list of its coordinates, the bounds of a
   space the list of (lo, hi) per axis (legacy space: 2 axes; experimental: any number).
   Definitions only. *)
From Coq Require Import ZArith List Bool.
Import ListNotations.
Open Scope Z_scope.

Definition point := list Z.
Definition bounds := list (Z * Z).

(* |a - b|, on a torus min(d, size - d)            space.py:1426-1430, :1484-1490;
   continuous_space.py:219-227 (torus) / cdist (non torus) *)
Definition axis_dist (torus : bool) (size a b : Z) : Z :=
  let d := Z.abs (a - b) in if torus then Z.min d (size - d) else d.

(* heading / difference vector from a to b         space.py:1455-1468; continuous_space.py:181-193 *)
Definition axis_diff (torus : bool) (size a b : Z) : Z :=
  let h := b - a in
  if torus then
    let inv := h - Z.sgn h * size in
    if Z.abs h <? Z.abs inv then h else inv
  else h.

Fixpoint dist2 (torus : bool) (bs : bounds) (p q : point) : Z :=
  match bs, p, q with
  | (lo, hi) :: bs', x :: p', y :: q' =>
      let d := axis_dist torus (hi - lo) x y in d * d + dist2 torus bs' p' q'
  | _, _, _ => 0
  end.

Fixpoint diffv (torus : bool) (bs : bounds) (p q : point) : list Z :=
  match bs, p, q with
  | (lo, hi) :: bs', x :: p', y :: q' => axis_diff torus (hi - lo) x y :: diffv torus bs' p' q'
  | _, _, _ => []
  end.

Fixpoint norm2 (v : list Z) : Z :=
  match v with [] => 0 | x :: t => x * x + norm2 t end.

(* legacy out_of_bounds: x < min or x >= max on some axis      space.py:1511-1514 *)
Fixpoint oob_half (bs : bounds) (p : point) : bool :=
  match bs, p with
  | (lo, hi) :: bs', x :: p' => (x <? lo) || (x >=? hi) || oob_half bs' p'
  | _, _ => false
  end.

(* experimental in_bounds: lo <= x <= hi on every axis         continuous_space.py:260-267 *)
Fixpoint in_closed (bs : bounds) (p : point) : bool :=
  match bs, p with
  | (lo, hi) :: bs', x :: p' => (lo <=? x) && (x <=? hi) && in_closed bs' p'
  | _, _ => true
  end.

(* lo + ((x - lo) % size) on every axis      space.py:1503-1504; continuous_space.py:269-273 *)
Fixpoint wrap (bs : bounds) (p : point) : point :=
  match bs, p with
  | (lo, hi) :: bs', x :: p' => (lo + (x - lo) mod (hi - lo)) :: wrap bs' p'
  | _, _ => []
  end.

(* well-formed input: one coordinate per axis *)
Definition dim_ok (bs : bounds) (p : point) : bool := Nat.eqb (length p) (length bs).

(* every axis has positive extent *)
Fixpoint bounds_ok (bs : bounds) : bool :=
  match bs with [] => true | (lo, hi) :: t => (lo <? hi) && bounds_ok t end.

(* ---- small association lists (insertion ordered, like a dict) keyed by agent id ---- *)
Section Assoc.
  Context {V : Type}.
  Fixpoint aget (k : Z) (l : list (Z * V)) : option V :=
    match l with
    | [] => None
    | (k', v) :: t => if k =? k' then Some v else aget k t
    end.
  (* d[k] = v : overwrite keeps the position, a new key goes to the end *)
  Fixpoint aset (k : Z) (v : V) (l : list (Z * V)) : list (Z * V) :=
    match l with
    | [] => [(k, v)]
    | (k', v') :: t => if k =? k' then (k, v) :: t else (k', v') :: aset k v t
    end.
  (* del d[k] / d.pop(k) *)
  Fixpoint adel (k : Z) (l : list (Z * V)) : list (Z * V) :=
    match l with
    | [] => []
    | (k', v') :: t => if k =? k' then adel k t else (k', v') :: adel k t
    end.
  Definition akeys (l : list (Z * V)) : list Z := map fst l.
End Assoc.

Definition mem (k : Z) (l : list Z) : bool := existsb (Z.eqb k) l.

Fixpoint list_set {A : Type} (i : nat) (v : A) (l : list A) {struct l} : list A :=
  match l, i with
  | [], _ => []
  | _ :: t, O => v :: t
  | x :: t, S i' => x :: list_set i' v t
  end.

Fixpoint remove_nth {A : Type} (i : nat) (l : list A) {struct l} : list A :=
  match l, i with
  | [], _ => []
  | _ :: t, O => t
  | x :: t, S i' => x :: remove_nth i' t
  end.

(* position of the first occurrence *)
Fixpoint index_of (a : Z) (l : list Z) : option nat :=
  match l with
  | [] => None
  | x :: t => if a =? x then Some O else option_map S (index_of a t)
  end.

(* ---- canonical observations ---- *)
(* rows (id :: payload) sorted by id (insertion sort: ids are distinct in every legal state) *)
Fixpoint row_insert (r : list Z) (l : list (list Z)) : list (list Z) :=
  match l with
  | [] => [r]
  | r' :: t => if hd 0 r <=? hd 0 r' then r :: l else r' :: row_insert r t
  end.
Definition row_sort (l : list (list Z)) : list (list Z) := fold_right row_insert [] l.
Definition obs_rows (l : list (list Z)) : list Z := concat (row_sort l).
(* rows in the order the code fixes (space.agents: insertion order of _agent_to_index / active_agents) *)
Definition obs_rows_in_order (l : list (list Z)) : list Z := concat l.

Inductive result (A : Type) := Ok (a : A) | Err (kind : Z).
Arguments Ok {A}. Arguments Err {A}.
Definition E_OOB : Z := 1.        (* out of bounds on a bounded space *)
Definition E_NOTIN : Z := 2.      (* legacy remove_agent of an agent not in the space *)
Definition E_INDEX : Z := 3.      (* IndexError / KeyError inside the implementation: never reached (theorem) *)
Definition E_KTH : Z := 4.        (* argpartition kth out of bounds: k outside 1..n *)
Definition obs_err (k : Z) : list Z := [-1; k].
Definition obs_noop : list Z := [-2].
Definition obs_illegal : list Z := [-3].
Definition SEP : Z := -9.
