(* Model of mesa/experimental/mesa_signals/mesa_signal.py : Observable, Computable, Computed and the
   part of HasObservables they use (observe / unobserve / notify for the "change" signal), as
   repaired by fixes/C17-1..4.  Transcribed statement by statement:

     Observable.__get__    value; if a Computed is evaluating: _add_parent + PROCESSING_SIGNALS.add
     Observable.__set__    cycle check; notify (before the store); store; clear PROCESSING_SIGNALS
                           only when no Computed is evaluating (fix 2)
     Computable.__get__    computed(); register the value returned (fix 1); notify when it changed
     Computed._set_dirty   if clean: dirty, notify own subscribers (cascade)
     Computed._add_parent  subscribe, remember value (dict of dicts: owner -> name -> value)
     Computed._remove_parents  unsubscribe from every name of every remembered owner; forget (fix 3)
     Computed.__call__     dirty? first? compare remembered values in dict order, outside any
                           enclosing evaluation (fix 4), stop at the first difference; rebuild; clean

   Computed functions are terms  e ::= Const | Obs owner name | Comp k | Add | If  evaluated left to
   right, reading only the taken branch.  Computeds are installed in index order, so Comp k inside
   computed j is defined for k < j (anything else reads as 0 without effect: never generated).
   Owners are referenced weakly by the functions: a collected owner reads as 0.
   Definitions only. *)
From Coq Require Import ZArith List Bool PeanoNat.
Import ListNotations.
Open Scope Z_scope.

Inductive expr :=
| Const (z : Z)
| Obs (o nm : Z)
| Comp (k : nat)
| Add (a b : expr)
| If (c a b : expr).

Record cdef := mkdef { d_owner : Z; d_expr : expr }.

Inductive src := SObs (o nm : Z) | SComp (k : nat).

Definition src_eqb (a b : src) : bool :=
  match a, b with
  | SObs o n, SObs o' n' => (o =? o') && (n =? n')
  | SComp k, SComp k' => Nat.eqb k k'
  | _, _ => false
  end.

(* Computed.parents : WeakKeyDictionary owner -> dict name -> remembered value *)
Definition pdict := list (Z * list (src * Z)).

Fixpoint iadd (l : list (src * Z)) (s : src) (v : Z) : list (src * Z) :=
  match l with
  | [] => [(s, v)]
  | (s', v') :: t => if src_eqb s s' then (s', v) :: t else (s', v') :: iadd t s v
  end.

Fixpoint padd (P : pdict) (o : Z) (s : src) (v : Z) : pdict :=
  match P with
  | [] => [(o, [(s, v)])]
  | (o', l) :: t => if o =? o' then (o', iadd l s v) :: t else (o', l) :: padd t o s v
  end.

Definition flat (P : pdict) : list (src * Z) := flat_map snd P.

Record state := mkstate {
  store : Z -> Z -> Z;              (* owner -> name -> value of the Observable *)
  alive : Z -> bool;                (* owner not yet collected *)
  dirty : nat -> bool;              (* Computed._is_dirty *)
  first : nat -> bool;              (* Computed._first *)
  value : nat -> Z;                 (* Computed._value (meaningful once first = false) *)
  count : nat -> Z;                 (* number of runs of the function (the harness's counter) *)
  parents : nat -> pdict;           (* Computed.parents *)
  subs : src -> list nat;           (* owner.subscribers[name]["change"], as indices of Computeds *)
  ps : list (Z * Z)                 (* PROCESSING_SIGNALS *)
}.

Definition updn {A} (f : nat -> A) (k : nat) (v : A) : nat -> A :=
  fun i => if Nat.eqb i k then v else f i.
Definition upds (f : src -> list nat) (s : src) (v : list nat) : src -> list nat :=
  fun s' => if src_eqb s' s then v else f s'.

Definition upd_store st f := mkstate f (alive st) (dirty st) (first st) (value st) (count st) (parents st) (subs st) (ps st).
Definition upd_alive st f := mkstate (store st) f (dirty st) (first st) (value st) (count st) (parents st) (subs st) (ps st).
Definition upd_dirty st f := mkstate (store st) (alive st) f (first st) (value st) (count st) (parents st) (subs st) (ps st).
Definition upd_first st f := mkstate (store st) (alive st) (dirty st) f (value st) (count st) (parents st) (subs st) (ps st).
Definition upd_value st f := mkstate (store st) (alive st) (dirty st) (first st) f (count st) (parents st) (subs st) (ps st).
Definition upd_count st f := mkstate (store st) (alive st) (dirty st) (first st) (value st) f (parents st) (subs st) (ps st).
Definition upd_parents st f := mkstate (store st) (alive st) (dirty st) (first st) (value st) (count st) f (subs st) (ps st).
Definition upd_subs st f := mkstate (store st) (alive st) (dirty st) (first st) (value st) (count st) (parents st) f (ps st).
Definition upd_ps st f := mkstate (store st) (alive st) (dirty st) (first st) (value st) (count st) (parents st) (subs st) f.

Definition remove_nat (j : nat) (l : list nat) : list nat := filter (fun i => negb (Nat.eqb i j)) l.
Definition ps_mem (o nm : Z) (l : list (Z * Z)) : bool :=
  existsb (fun p => (fst p =? o) && (snd p =? nm)) l.

Section Prog.
  Variable prog : list cdef.
  Definition ncomp : nat := length prog.
  Definition cdef_at (k : nat) : cdef := nth k prog (mkdef 0 (Const 0)).
  Definition cowner (k : nat) : Z := d_owner (cdef_at k).
  Definition owner_of (s : src) : Z := match s with SObs o _ => o | SComp k => cowner k end.

  (* Computed._add_parent (of Computed j) *)
  Definition add_parent (st : state) (j : nat) (s : src) (v : Z) : state :=
    let st1 := upd_subs st (upds (subs st) s (subs st s ++ [j])) in
    upd_parents st1 (updn (parents st1) j (padd (parents st1 j) (owner_of s) s v)).

  (* Computed._remove_parents (after fix 3) *)
  Definition remove_parents (st : state) (j : nat) : state :=
    let owners := map fst (parents st j) in
    let st1 := upd_subs st (fun s => if existsb (Z.eqb (owner_of s)) owners
                                     then remove_nat j (subs st s) else subs st s) in
    upd_parents st1 (updn (parents st1) j []).

  (* Computed._set_dirty, called through a subscriber list; a collected Computed's weak method
     reference is dead and is skipped by _mesa_notify *)
  Fixpoint set_dirty (f : nat) (st : state) (c : nat) : state :=
    match f with
    | O => st
    | S f' =>
        if negb (c <? ncomp)%nat then st
        else if negb (alive st (cowner c)) then st
        else if dirty st c then st
        else fold_left (set_dirty f') (subs st (SComp c)) (upd_dirty st (updn (dirty st) c true))
    end.

  (* HasObservables.notify(name, ..., "change") *)
  Definition notify (st : state) (s : src) : state :=
    fold_left (set_dirty ncomp) (subs st s) st.

  Section Eval.
    (* Computed.__call__ of a Computed of lower index (lower fuel) *)
    Variable call : state -> nat -> state * Z.

    (* Computable.__get__ (after fix 1); cur = the Computed that is evaluating, if any *)
    Definition read_comp (cur : option nat) (st : state) (k : nat) : state * Z :=
      let old := value st k in
      let was_none := first st k in
      let '(st1, v) := call st k in
      let st2 := match cur with Some j => add_parent st1 j (SComp k) v | None => st1 end in
      let st3 := if was_none || negb (v =? old) then notify st2 (SComp k) else st2 in
      (st3, v).

    (* the function of Computed j *)
    Fixpoint ev (j : nat) (e : expr) (st : state) : state * Z :=
      match e with
      | Const z => (st, z)
      | Obs o nm =>
          if alive st o then
            let v := store st o nm in
            let st1 := add_parent st j (SObs o nm) v in
            (upd_ps st1 ((o, nm) :: ps st1), v)
          else (st, 0)
      | Comp k =>
          if (k <? j)%nat && alive st (cowner k) then read_comp (Some j) st k else (st, 0)
      | Add a b =>
          let '(st1, va) := ev j a st in
          let '(st2, vb) := ev j b st1 in
          (st2, va + vb)
      | If c a b =>
          let '(st1, vc) := ev j c st in
          if vc =? 0 then ev j b st1 else ev j a st1
      end.

    (* the comparison loop of __call__ (after fix 4: no Computed counts as evaluating) *)
    Fixpoint cmp_items (l : list (src * Z)) (st : state) : state * bool :=
      match l with
      | [] => (st, false)
      | (s, old) :: t =>
          let '(st1, v) := match s with
                           | SObs o nm => (st, store st o nm)
                           | SComp k => read_comp None st k
                           end in
          if v =? old then cmp_items t st1 else (st1, true)
      end.
  End Eval.

  (* Computed.__call__ *)
  Fixpoint callf (f : nat) (st : state) (j : nat) : state * Z :=
    match f with
    | O => (st, 0)
    | S f' =>
        if negb (dirty st j) then (st, value st j)
        else
          let '(st1, changed) :=
            if first st j then (upd_first st (updn (first st) j false), true)
            else cmp_items (callf f') (flat (parents st j)) st in
          let st2 :=
            if changed then
              let '(stb, v) := ev (callf f') j (d_expr (cdef_at j)) (remove_parents st1 j) in
              upd_count (upd_value stb (updn (value stb) j v)) (updn (count stb) j (count stb j + 1))
            else st1 in
          let st3 := upd_dirty st2 (updn (dirty st2) j false) in
          (st3, value st3 j)
    end.

  (* top-level attribute read of Computable k *)
  Definition read_top (st : state) (k : nat) : state * Z := read_comp (callf ncomp) None st k.

  (* Observable.__set__ ; inside = a Computed is evaluating.  None = the ValueError *)
  Definition set_obs (inside : bool) (st : state) (o nm v : Z) : option state :=
    if inside && ps_mem o nm (ps st) then None
    else
      let st1 := notify st (SObs o nm) in
      let st2 := upd_store st1 (fun o' n' => if (o' =? o) && (n' =? nm) then v else store st1 o' n') in
      Some (if inside then st2 else upd_ps st2 []).

  (* --- histories --- *)
  Inductive act :=
  | ARead (o nm : Z)            (* the writer function reads an Observable *)
  | AReadC (k : nat)            (* ... reads a Computable *)
  | AWrite (o nm v : Z).        (* ... assigns an Observable *)

  Inductive op :=
  | Assign (o nm v : Z)
  | Read (k : nat)
  | Kill (o : Z)                (* dummy assignment (empties PROCESSING_SIGNALS), drop, gc.collect() *)
  | WriteInside (acts : list act)   (* install a throw-away Computed whose function performs acts *)
  | WriteInsideKeep (acts : list act).  (* the same, and when the installation was rejected as a cycle the
                                           Computed - which stays installed - is read once more *)

  (* the function of the throw-away Computed; false = rejected as a cycle *)
  Fixpoint run_acts (acts : list act) (st : state) : state * bool :=
    match acts with
    | [] => (st, true)
    | ARead o nm :: t =>
        if alive st o then run_acts t (upd_ps st ((o, nm) :: ps st)) else run_acts t st
    | AReadC k :: t =>
        if (k <? ncomp)%nat && alive st (cowner k) then run_acts t (fst (read_top st k)) else run_acts t st
    | AWrite o nm v :: t =>
        if alive st o then
          match set_obs true st o nm v with
          | None => (st, false)
          | Some st1 => run_acts t st1
          end
        else run_acts t st
    end.

  (* the same function, also returning what the throw-away Computed registered as its parents *)
  Fixpoint run_acts_p (acts : list act) (st : state) (tp : pdict) : state * bool * pdict :=
    match acts with
    | [] => (st, true, tp)
    | ARead o nm :: t =>
        if alive st o then run_acts_p t (upd_ps st ((o, nm) :: ps st)) (padd tp o (SObs o nm) (store st o nm))
        else run_acts_p t st tp
    | AReadC k :: t =>
        if (k <? ncomp)%nat && alive st (cowner k) then
          let '(st1, v) := read_top st k in run_acts_p t st1 (padd tp (cowner k) (SComp k) v)
        else run_acts_p t st tp
    | AWrite o nm v :: t =>
        if alive st o then
          match set_obs true st o nm v with
          | None => (st, false, tp)
          | Some st1 => run_acts_p t st1 tp
          end
        else run_acts_p t st tp
    end.

  (* reading a Computed whose installing evaluation was rejected: Computable.__get__ -> __call__ finds it dirty
     and not first, compares the parents registered before the ValueError; unchanged -> clean, returns the
     cached _value, which is still None (code 2); changed -> the function runs again: rejected again (1) or
     it completes and returns 0 (3) *)
  Definition reread_rejected (acts : list act) (tp : pdict) (st : state) : state * Z :=
    let '(st2, changed) := cmp_items (callf ncomp) (flat tp) st in
    if changed then
      let '(st3, ok2) := run_acts acts st2 in (st3, if ok2 then 3 else 1)
    else (st2, 2).

  Variable nobs : list nat.       (* number of Observables of owner 0, 1, ... *)

  Definition zseq (k : nat) : list Z := map Z.of_nat (seq 0 k).
  Definition obs_state (st : state) : list Z :=
    map (count st) (seq 0 ncomp) ++
    flat_map (fun on => let o := Z.of_nat (fst on) in
                        if alive st o then map (store st o) (zseq (snd on)) else [])
             (combine (seq 0 (length nobs)) nobs).

  Definition step (st : state) (x : op) : state * list Z :=
    match x with
    | Assign o nm v =>
        if alive st o then
          match set_obs false st o nm v with
          | Some st1 => (st1, 0 :: obs_state st1)
          | None => (st, [-1; 1])
          end
        else (st, [-2])
    | Read k =>
        if (k <? ncomp)%nat && alive st (cowner k) then
          let '(st1, v) := read_top st k in (st1, 1 :: v :: obs_state st1)
        else (st, [-2])
    | Kill o =>
        if alive st o then
          let st1 := upd_ps st [] in
          let st2 := upd_alive st1 (fun o' => if o' =? o then false else alive st1 o') in
          let st3 := upd_parents st2 (fun j => filter (fun e => negb (fst e =? o)) (parents st2 j)) in
          (st3, 2 :: obs_state st3)
        else (st, [-2])
    | WriteInside acts =>
        let '(st1, ok) := run_acts acts st in
        (st1, 3 :: (if ok then 0 else 1) :: obs_state st1)
    | WriteInsideKeep acts =>
        let '(st1, ok, tp) := run_acts_p acts st [] in
        if ok then (st1, 4 :: 0 :: 0 :: obs_state st1)
        else let '(st2, r) := reread_rejected acts tp st1 in (st2, 4 :: 1 :: r :: obs_state st2)
    end.

  Fixpoint run_ops (st : state) (ops : list op) : list (list Z) :=
    match ops with
    | [] => []
    | x :: t => let '(st1, ob) := step st x in ob :: run_ops st1 t
    end.

  Fixpoint final (st : state) (ops : list op) : state :=
    match ops with
    | [] => st
    | x :: t => final (fst (step st x)) t
    end.
End Prog.

(* --- cases --- *)
Record case := { c_init : list (list Z); c_comps : list cdef; c_ops : list (op) }.

Definition init_store (init : list (list Z)) : Z -> Z -> Z :=
  fun o nm => if (o <? 0) || (nm <? 0) then 0 else nth (Z.to_nat nm) (nth (Z.to_nat o) init []) 0.

Definition init_state (init : list (list Z)) : state :=
  mkstate (init_store init) (fun _ => true) (fun _ => true) (fun _ => true) (fun _ => 0) (fun _ => 0)
          (fun _ => []) (fun _ => []) [].

(* owner.c<j> = Computed(func) for j = 0, 1, ... : Computable.__set__ forces an evaluation *)
Definition install (prog : list cdef) (st : state) : state :=
  fold_left (fun s k => fst (read_top prog s k)) (seq 0 (length prog)) st.

Definition start (c : case) : state := install (c_comps c) (init_state (c_init c)).

Definition run_case (c : case) : list (list Z) :=
  run_ops (c_comps c) (map (@length Z) (c_init c)) (start c) (c_ops c).
