(* Model of mesa/agent.py  AgentSet  (select / shuffle / sort / groupby / get / set / agg / map /
   __getitem__ / add / discard / remove / __contains__ / __len__ / __iter__), transcribed
   statement by statement, including the failing paths.

   - an AgentSet is the key list of its WeakKeyDictionary in insertion order (agents are kept
     alive by the model's registry in the driver, so no reference dies);
   - the agents live in one table  id -> (class, attributes)  shared by every set;
   - a history works on a POOL of sets (slots 0..5): copying forms store their result in a
     destination slot, in-place forms rewrite the source slot;
   - shuffle outcomes are inputs (the permutation the implementation produced), checked for
     legality.
   Definitions only. *)
From Coq Require Import ZArith List Bool.
From Mesa Require Import Common.ListX.
Import ListNotations.
Open Scope Z_scope.

Definition id := Z.

(* ---------- agents: class + attribute dictionary ---------- *)
Record agent := { a_cls : Z; a_attrs : list (Z * Z) }.
Definition table := list (id * agent).

Fixpoint assoc {V : Type} (k : Z) (l : list (Z * V)) : option V :=
  match l with
  | [] => None
  | (k', v) :: t => if k =? k' then Some v else assoc k t
  end.

(* getattr(agent, "a<n>") : None = AttributeError *)
Definition attr_of (t : table) (a : id) (n : Z) : option Z :=
  match assoc a t with
  | None => None
  | Some ag => assoc n (a_attrs ag)
  end.

Definition cls_of (t : table) (a : id) : option Z :=
  match assoc a t with None => None | Some ag => Some (a_cls ag) end.

(* the driver's class hierarchy: 0 = A(mesa.Agent), 1 = B(A), 2 = C(B), 3 = D(A),
   4 = F(A, Falsy): a mixin after the framework base; its instances have __bool__ False and __len__ 0 *)
Definition parent (c : Z) : option Z :=
  if c =? 1 then Some 0 else if c =? 2 then Some 1 else if c =? 3 then Some 0 else if c =? 4 then Some 0 else None.
Fixpoint subclass (fuel : nat) (c ty : Z) : bool :=
  (c =? ty) ||
  match fuel with
  | O => false
  | S f => match parent c with Some p => subclass f p ty | None => false end
  end.
Definition isinstance (t : table) (a : id) (ty : Z) : bool :=
  match cls_of t a with Some c => subclass 4 c ty | None => false end.

(* setattr(agent, "a<n>", v): overwrite keeps the position, a new name is appended *)
Fixpoint assoc_set {V : Type} (k : Z) (v : V) (l : list (Z * V)) : list (Z * V) :=
  match l with
  | [] => [(k, v)]
  | (k', v') :: t => if k =? k' then (k', v) :: t else (k', v') :: assoc_set k v t
  end.

Definition set_attr_agent (n v : Z) (ag : agent) : agent :=
  {| a_cls := a_cls ag; a_attrs := assoc_set n v (a_attrs ag) |}.

(* for agent in self: setattr(agent, name, value) *)
Definition set_attr_all (m : list id) (n v : Z) (t : table) : table :=
  map (fun e => if memb Z.eqb (fst e) m then (fst e, set_attr_agent n v (snd e)) else e) t.

(* ---------- the little languages of user code ---------- *)
Inductive pred :=
| PTrue | PFalse
| PAttrLe (n k : Z)          (* lambda a: a.a<n> <= k *)
| PAttrEq (n k : Z)          (* lambda a: a.a<n> == k *)
| PIdMod (m r : Z)           (* lambda a: a.unique_id % m == r   (m > 0) *)
| PNot (p : pred)
| PAnd (p q : pred)          (* short-circuit `and` *)
| POr (p q : pred).          (* short-circuit `or` *)

Fixpoint eval_pred (t : table) (p : pred) (a : id) : option bool :=
  match p with
  | PTrue => Some true
  | PFalse => Some false
  | PAttrLe n k => match attr_of t a n with Some v => Some (v <=? k) | None => None end
  | PAttrEq n k => match attr_of t a n with Some v => Some (v =? k) | None => None end
  | PIdMod m r => Some (a mod m =? r)
  | PNot q => match eval_pred t q a with Some b => Some (negb b) | None => None end
  | PAnd q1 q2 =>
      match eval_pred t q1 a with
      | None => None
      | Some false => Some false
      | Some true => eval_pred t q2 a
      end
  | POr q1 q2 =>
      match eval_pred t q1 a with
      | None => None
      | Some true => Some true
      | Some false => eval_pred t q2 a
      end
  end.

Inductive keyf :=
| KAttr (n : Z)              (* the string "a<n>"  (operator.attrgetter / getattr) *)
| KNegAttr (n : Z)           (* lambda a: -a.a<n> *)
| KAttrMod (n m : Z)         (* lambda a: a.a<n> % m   (m > 0) *)
| KId                        (* lambda a: a.unique_id *)
| KIdMod (m : Z)             (* lambda a: a.unique_id % m *)
| KCls                       (* lambda a: index of type(a) *)
| KName (n : Z).             (* lambda a: NAMES[a.a<n> % 10] : a STRING key, compared lexicographically *)

(* strings are lists of character codes; the driver's table NAMES *)
Definition names : list (list Z) :=
  [[]; [97]; [97; 98]; [97; 98; 99]; [98]; [98; 97]; [66]; [97; 97]; [122]; [90; 122]].
(*  ""   "a"    "ab"       "abc"       "b"    "ba"     "B"    "aa"      "z"     "Zz"  *)
Definition lex_leb_step (c d : Z) (rest : bool) : bool := (c <? d) || ((c =? d) && rest).
(* Python's str <= str *)
Fixpoint lex_leb (a b : list Z) : bool :=
  match a, b with
  | [], _ => true
  | _ :: _, [] => false
  | c :: t, d :: u => lex_leb_step c d (lex_leb t u)
  end.
(* order-preserving code of a string of at most L characters with codes in 1..127 (proved in the Proofs file):
   pad with 0 to length L and read in base 128 *)
Fixpoint pw (L : nat) : Z := match L with O => 1 | S L' => 128 * pw L' end.
Fixpoint enc_str (L : nat) (l : list Z) : Z :=
  match L with
  | O => 0
  | S L' => match l with [] => 0 | c :: t => c * pw L' + enc_str L' t end
  end.
Definition name_key (v : Z) : Z := enc_str 3 (nth (Z.to_nat (v mod 10)) names []).

Definition eval_key (t : table) (k : keyf) (a : id) : option Z :=
  match k with
  | KAttr n => attr_of t a n
  | KNegAttr n => match attr_of t a n with Some v => Some (- v) | None => None end
  | KAttrMod n m => match attr_of t a n with Some v => Some (v mod m) | None => None end
  | KId => Some a
  | KIdMod m => Some (a mod m)
  | KCls => cls_of t a
  | KName n => match attr_of t a n with Some v => Some (name_key v) | None => None end
  end.

Inductive mapf :=
| MKey (k : keyf)            (* callable form *)
| MMeth (c : Z).             (* string form: method "plus"(c) = self.a0 + c *)

Definition eval_mapf (t : table) (f : mapf) (a : id) : option Z :=
  match f with
  | MKey k => eval_key t k a
  | MMeth c => match attr_of t a 0 with Some v => Some (v + c) | None => None end
  end.

Inductive atmost :=
| AInf                       (* float("inf") *)
| AInt (k : Z)               (* an int: a count *)
| AFrac (k j : Z).           (* the float k / 2^j  (the statement's quantifier: 0 <= k <= 2^j) *)

Inductive aggf := FSum | FMin | FMax | FLen.

(* what is applied to each group by GroupBy.map *)
Inductive gmeth :=
| GMLen (by_name : bool)     (* "__len__"  /  len            : works on lists and on AgentSets *)
| GMSumAttr (n : Z)          (* lambda g: sum(a.a<n> for a in g) : works on both *)
| GMGet (n : Z).             (* "get", "a<n>"                : a list has no method get *)

Inductive setop := SUnion | SInter | SDiff | SXor.
Inductive setcmp := CEq | CLe | CDisjoint.

(* ---------- select (agent.py:200-246) ---------- *)
(* at_most after the conversion  int(len(self) * at_most) ; None = inf *)
Definition limit (am : atmost) (len : Z) : option Z :=
  match am with
  | AInf => None
  | AInt k => Some k
  | AFrac k j =>
      (* `at_most <= 1.0 and isinstance(at_most, float)`: only then converted; a float above 1.0 is used as it
         is, and  count >= f  for an integer count is  count >= ceil(f) *)
      if k <=? 2 ^ j then Some ((len * k) / 2 ^ j) else Some ((k + 2 ^ j - 1) / 2 ^ j)
  end.

Definition reached (lim : option Z) (count : Z) : bool :=
  match lim with None => false | Some n => count >=? n end.

(* (not filter_func or filter_func(agent)) and (not agent_type or isinstance(agent, agent_type)) *)
Definition keep (t : table) (p : option pred) (ty : option Z) (a : id) : option bool :=
  match (match p with None => Some true | Some q => eval_pred t q a end) with
  | None => None
  | Some false => Some false
  | Some true => match ty with None => Some true | Some c => Some (isinstance t a c) end
  end.

(* agent_generator: the counting loop with break; None = the filter raised *)
Fixpoint select_loop (t : table) (p : option pred) (ty : option Z) (lim : option Z)
         (count : Z) (l : list id) : option (list id) :=
  match l with
  | [] => Some []
  | a :: rest =>
      if reached lim count then Some []
      else match keep t p ty a with
           | None => None
           | Some true =>
               match select_loop t p ty lim (count + 1) rest with
               | Some r => Some (a :: r)
               | None => None
               end
           | Some false => select_loop t p ty lim count rest
           end
  end.

Definition is_fast (p : option pred) (am : atmost) (ty : option Z) : bool :=
  match p, ty, am with None, None, AInf => true | _, _, _ => false end.

Definition select_members (t : table) (p : option pred) (am : atmost) (ty : option Z)
           (m : list id) : option (list id) :=
  if is_fast p am ty then Some m      (* return self / copy.copy(self) *)
  else select_loop t p ty (limit am (Z.of_nat (length m))) 0 m.

(* ---------- sort (agent.py:272-297): a stable insertion sort ---------- *)
Section Sort.
  Context {A : Type} (le : Z -> Z -> bool) (kf : A -> Z).
  Fixpoint ins (x : A) (l : list A) : list A :=
    match l with
    | [] => [x]
    | y :: t => if le (kf x) (kf y) then x :: l else y :: ins x t
    end.
  Definition isort (l : list A) : list A := fold_right ins [] l.
End Sort.

(* sorted(..., reverse=not ascending): ascending uses <=, descending >= ; both keep ties in
   their original order *)
Definition dir_le (asc : bool) : Z -> Z -> bool :=
  if asc then Z.leb else (fun a b => b <=? a).

(* all keys are computed before any comparison: None = the key raised *)
Fixpoint all_some {A B : Type} (f : A -> option B) (l : list A) : option (list B) :=
  match l with
  | [] => Some []
  | a :: t => match f a with
              | None => None
              | Some b => match all_some f t with Some r => Some (b :: r) | None => None end
              end
  end.

Definition key_or0 (t : table) (k : keyf) (a : id) : Z :=
  match eval_key t k a with Some z => z | None => 0 end.

Definition sort_members (t : table) (k : keyf) (asc : bool) (m : list id) : option (list id) :=
  match all_some (eval_key t k) m with
  | None => None
  | Some _ => Some (isort (dir_le asc) (key_or0 t k) m)
  end.

(* tuple keys (k1(a), k2(a)) compare lexicographically; a stable sort by the second component followed by a
   stable sort by the first is the stable lexicographic sort (in both directions) *)
Definition sort2_members (t : table) (k1 k2 : keyf) (asc : bool) (m : list id) : option (list id) :=
  match all_some (fun a => match eval_key t k1 a, eval_key t k2 a with
                           | Some x, Some y => Some (x, y) | _, _ => None end) m with
  | None => None
  | Some _ => Some (isort (dir_le asc) (key_or0 t k1) (isort (dir_le asc) (key_or0 t k2) m))
  end.

(* ---------- shuffle (agent.py:248-270): the outcome is an input ---------- *)
Fixpoint zlist_eqb (a b : list Z) : bool :=
  match a, b with
  | [], [] => true
  | x :: a', y :: b' => (x =? y) && zlist_eqb a' b'
  | _, _ => false
  end.
Definition perm_check (outcome m : list id) : bool := zlist_eqb (zsort outcome) (zsort m).

(* ---------- groupby (agent.py:545-580): defaultdict(list) in first-seen key order ---------- *)
Fixpoint group_add (k : Z) (a : id) (g : list (Z * list id)) : list (Z * list id) :=
  match g with
  | [] => [(k, [a])]
  | (k', m) :: t => if k =? k' then (k', m ++ [a]) :: t else (k', m) :: group_add k a t
  end.
Definition groupby_members (kf : id -> Z) (l : list id) : list (Z * list id) :=
  fold_left (fun g a => group_add (kf a) a g) l [].

(* ---------- get / agg / map: list comprehensions that may raise ---------- *)
Definition get_row (t : table) (names : list Z) (mode dflt : Z) (a : id) : option (list Z) :=
  all_some (fun n => match attr_of t a n with
                     | Some v => Some v
                     | None => if mode =? 0 then None else Some dflt
                     end) names.

Definition zsum (l : list Z) : Z := fold_left Z.add l 0.
Fixpoint zmin (x : Z) (l : list Z) : Z := match l with [] => x | y :: t => zmin (Z.min x y) t end.
Fixpoint zmax (x : Z) (l : list Z) : Z := match l with [] => x | y :: t => zmax (Z.max x y) t end.

(* ---------- __getitem__ ---------- *)
Definition norm_index (len i : Z) : Z := if i <? 0 then i + len else i.
Definition clamp (len v : Z) : Z := if v <? 0 then 0 else if v >? len then len else v.
Definition slice_bound (len : Z) (x : option Z) (default : Z) : Z :=
  match x with None => default | Some v => clamp len (norm_index len v) end.
Definition slice (l : list id) (lo hi : option Z) : list id :=
  let len := Z.of_nat (length l) in
  let a := slice_bound len lo 0 in
  let b := slice_bound len hi len in
  firstn (Z.to_nat (b - a)) (skipn (Z.to_nat a) l).

(* ---------- the pool of sets ---------- *)
Definition pool := list (Z * list id).
Definition slot_get (s : Z) (p : pool) : option (list id) := assoc s p.
Definition slot_set (s : Z) (m : list id) (p : pool) : pool := assoc_set s m p.
Definition NSLOTS : Z := 6.
Definition valid_slot (d : Z) : bool := (0 <=? d) && (d <? NSLOTS).

Record state := { st_tbl : table; st_pool : pool }.
Definition store (st : state) (i : Z) (m : list id) : state :=
  {| st_tbl := st_tbl st; st_pool := slot_set i m (st_pool st) |}.

(* ---------- operations ---------- *)
Inductive op :=
| Select (s : Z) (p : option pred) (am : atmost) (ty : option Z) (inplace : bool) (d : Z)
| Sort (s : Z) (k : keyf) (asc inplace : bool) (d : Z)
| Sort2 (s : Z) (k1 k2 : keyf) (asc inplace : bool) (d : Z)    (* key = lambda a: (k1(a), k2(a)) : tuples, lexicographic *)
| Shuffle (s : Z) (outcome : list id) (inplace : bool) (d : Z)
| GroupBy (s : Z) (k : keyf) (rt : bool)             (* result_type: true = "agentset", false = "list" *)
| GroupGet (s : Z) (k : keyf) (kv : Z) (d : Z)      (* s.groupby(k).groups[kv] *)
| GroupLookup (s : Z) (k : keyf) (kv : Z) (rt : bool)   (* list(s.groupby(k, result_type).groups[kv]) *)
| Get (s : Z) (names : list Z) (single : bool) (mode dflt : Z)
| SetAttr (s : Z) (n v : Z)
| Agg (s : Z) (n : Z) (f : aggf)
| Map (s : Z) (f : mapf)
| Add (s a : Z) | Discard (s a : Z) | Remove (s a : Z)
| Contains (s a : Z) | Len (s : Z) | Index (s i : Z)
| Slice (s : Z) (lo hi : option Z) | Iter (s : Z)
(* methods inherited from collections.abc.MutableSet / Sequence, running on the methods above *)
| Pop (s : Z)                 (* MutableSet.pop: next(iter(self)), then discard; KeyError when empty *)
| Clear (s : Z)               (* MutableSet.clear: pop until KeyError *)
| IndexOf (s a : Z)           (* Sequence.index: first i with self[i] is value; ValueError *)
| Count (s a : Z)             (* Sequence.count *)
| Reversed (s : Z)            (* Sequence.__reversed__: self[i] for i = len-1 .. 0 *)
(* GroupBy helper methods (agent.py:604-683) *)
| GroupCount (s : Z) (k : keyf)                      (* s.groupby(k).count() *)
| GroupAgg (s : Z) (k : keyf) (n : Z) (f : aggf)     (* s.groupby(k).agg("a<n>", f) *)
| GroupDoSet (s : Z) (k : keyf) (n v : Z)            (* s.groupby(k).do("set", "a<n>", v) *)
| GroupMap (s : Z) (k : keyf) (rt : bool) (gm : gmeth)   (* s.groupby(k, result_type).map(...) *)
| GroupDo (s : Z) (k : keyf) (rt : bool) (by_name : bool) (n v : Z)
     (* .do("set", "a<n>", v)  /  .do(lambda g: [setattr(a, "a<n>", v) for a in g]) *)
(* set algebra inherited from collections.abc.Set / MutableSet *)
| SetOp (s1 s2 : Z) (o : setop) (inplace : bool) (d : Z)     (* s1 | s2 ...  /  s1 |= s2 ... *)
| SetCmp (s1 s2 : Z) (c : setcmp).                           (* s1 == s2, s1 <= s2, s1.isdisjoint(s2) *)

Inductive result :=
| ROk (vals : list Z)
| RErr (kind : Z)          (* the call raised; the state returned is the one left behind *)
| RSkip                    (* refers to a slot/agent that does not exist: no-op *)
| RIllegal.                (* recorded outcome is not a legal one *)

Definition E_ATTR : Z := 1.   (* AttributeError *)
Definition E_KEY : Z := 2.    (* KeyError *)
Definition E_VALUE : Z := 3.  (* ValueError *)
Definition E_INDEX : Z := 4.  (* IndexError *)

Definition b2z (b : bool) : Z := if b then 1 else 0.
Definition zlen {A : Type} (l : list A) : Z := Z.of_nat (length l).

Definition flag_ok (inplace : bool) : result := ROk [b2z inplace].   (* "returned object is self" *)

(* while True: self.pop()  -- each pop discards the first member *)
Fixpoint pop_all (fuel : nat) (m : list id) : list id :=
  match fuel with
  | O => m
  | S f => match m with [] => [] | x :: _ => pop_all f (remove_key Z.eqb x m) end
  end.

(* i = 0; while True: v = self[i] (IndexError -> ValueError); if v is value: return i; i += 1 *)
Fixpoint index_of (a : id) (m : list id) (i : Z) : option Z :=
  match m with
  | [] => None
  | x :: t => if x =? a then Some i else index_of a t (i + 1)
  end.

Definition count_of (a : id) (m : list id) : Z := zlen (filter (fun x => x =? a) m).

(* func(values): None = ValueError (min/max of an empty list) *)
Definition agg_apply (f : aggf) (vals : list Z) : option Z :=
  match f, vals with
  | FSum, _ => Some (zsum vals)
  | FLen, _ => Some (zlen vals)
  | FMin, [] => None
  | FMax, [] => None
  | FMin, x :: r => Some (zmin x r)
  | FMax, x :: r => Some (zmax x r)
  end.

(* {name: func([getattr(agent, attr) for agent in group]) for name, group in groups.items()} *)
Fixpoint group_agg (t : table) (n : Z) (f : aggf) (g : list (Z * list id)) : list Z + Z :=
  match g with
  | [] => inl []
  | (k, mem) :: rest =>
      match all_some (fun a => attr_of t a n) mem with
      | None => inr E_ATTR
      | Some vals =>
          match agg_apply f vals with
          | None => inr E_VALUE
          | Some v => match group_agg t n f rest with
                      | inl r => inl (k :: v :: r)
                      | inr e => inr e
                      end
          end
      end
  end.

(* for group in groups.values(): group.set(name, value) *)
Definition group_do_set (n v : Z) (g : list (Z * list id)) (t : table) : table :=
  fold_left (fun t' e => set_attr_all (snd e) n v t') g t.

(* what GroupBy.map applies to one group; None = AttributeError *)
Definition gm_apply (t : table) (rt : bool) (gm : gmeth) (mem : list id) : option (list Z) :=
  match gm with
  | GMLen _ => Some [zlen mem]
  | GMSumAttr n => match all_some (fun a => attr_of t a n) mem with
                   | Some vals => Some [zsum vals] | None => None end
  | GMGet n => if rt then match all_some (fun a => attr_of t a n) mem with
                          | Some vals => Some (zlen vals :: vals) | None => None end
               else None
  end.

(* {k: f(v) for k, v in self.groups.items()} : the first failing group ends the comprehension *)
Fixpoint group_map (t : table) (rt : bool) (gm : gmeth) (g : list (Z * list id)) : option (list Z) :=
  match g with
  | [] => Some []
  | (k, mem) :: rest =>
      match gm_apply t rt gm mem with
      | None => None
      | Some vs => match group_map t rt gm rest with Some r => Some (k :: vs ++ r) | None => None end
      end
  end.

(* AgentSet(agents): {agent: None for agent in agents} de-duplicates, first position kept *)
Definition new_set (l : list id) : list id := dedup_first Z.eqb l.

(* ---------- set algebra (collections.abc.Set / MutableSet mixins) ---------- *)
Definition isin (m : list id) (a : id) : bool := memb Z.eqb a m.
Definition notin (m : list id) (a : id) : bool := negb (memb Z.eqb a m).
(* for value in it: self.add(value) *)
Definition add_all (m1 m2 : list id) : list id :=
  fold_left (fun m v => if memb Z.eqb v m then m else m ++ [v]) m2 m1.
(* for value in it: discard it if present, add it otherwise *)
Definition toggle_all (m1 m2 : list id) : list id :=
  fold_left (fun m v => if memb Z.eqb v m then remove_key Z.eqb v m else m ++ [v]) m2 m1.

Definition set_binop (o : setop) (inplace : bool) (m1 m2 : list id) : list id :=
  match o, inplace with
  | SUnion, false => new_set (m1 ++ m2)               (* _from_iterable(chain(self, other)) *)
  | SUnion, true => add_all m1 m2                     (* __ior__ *)
  | SInter, false => filter (isin m1) m2              (* value for value in OTHER if value in self *)
  | SInter, true => filter (isin m2) m1               (* discard every value of self - it *)
  | SDiff, _ => filter (notin m2) m1                  (* value for value in self if value not in other / discards *)
  | SXor, false => new_set (filter (notin m2) m1 ++ filter (notin m1) m2)   (* (self - other) | (other - self) *)
  | SXor, true => toggle_all m1 m2                    (* __ixor__ *)
  end.

Definition set_le (m1 m2 : list id) : bool :=
  if zlen m1 >? zlen m2 then false else forallb (isin m2) m1.
Definition set_cmp (c : setcmp) (m1 m2 : list id) : bool :=
  match c with
  | CEq => (zlen m1 =? zlen m2) && set_le m1 m2
  | CLe => set_le m1 m2
  | CDisjoint => forallb (notin m1) m2                (* for value in other: if value in self: return False *)
  end.

Definition step (st : state) (o : op) : state * result :=
  let t := st_tbl st in
  let getm := fun s => slot_get s (st_pool st) in
  match o with
  | Select s p am ty inplace d =>
      match getm s with
      | None => (st, RSkip)
      | Some m =>
          if negb (valid_slot d) then (st, RSkip) else
          match select_members t p am ty m with
          | None => (st, RErr E_ATTR)
          | Some r => (store st (if inplace then s else d) r, flag_ok inplace)
          end
      end
  | Sort s k asc inplace d =>
      match getm s with
      | None => (st, RSkip)
      | Some m =>
          if negb (valid_slot d) then (st, RSkip) else
          match sort_members t k asc m with
          | None => (st, RErr E_ATTR)
          | Some r => (store st (if inplace then s else d) r, flag_ok inplace)
          end
      end
  | Sort2 s k1 k2 asc inplace d =>
      match getm s with
      | None => (st, RSkip)
      | Some m =>
          if negb (valid_slot d) then (st, RSkip) else
          match sort2_members t k1 k2 asc m with
          | None => (st, RErr E_ATTR)
          | Some r => (store st (if inplace then s else d) r, flag_ok inplace)
          end
      end
  | Shuffle s outcome inplace d =>
      match getm s with
      | None => (st, RSkip)
      | Some m =>
          if negb (valid_slot d) then (st, RSkip) else
          if perm_check outcome m
          then (store st (if inplace then s else d) outcome, flag_ok inplace)
          else (st, RIllegal)
      end
  | GroupBy s k rt =>
      match getm s with
      | None => (st, RSkip)
      | Some m =>
          match all_some (eval_key t k) m with
          | None => (st, RErr E_ATTR)
          | Some _ =>
              let g := groupby_members (key_or0 t k) m in
              (st, ROk (b2z rt :: zlen g :: flat_map (fun e => fst e :: zlen (snd e) :: snd e) g))
          end
      end
  | GroupGet s k kv d =>
      match getm s with
      | None => (st, RSkip)
      | Some m =>
          if negb (valid_slot d) then (st, RSkip) else
          match all_some (eval_key t k) m with
          | None => (st, RErr E_ATTR)
          | Some _ =>
              match assoc kv (groupby_members (key_or0 t k) m) with
              | None => (st, RErr E_KEY)
              | Some r => (store st d r, ROk [])
              end
          end
      end
  | GroupLookup s k kv rt =>
      match getm s with
      | None => (st, RSkip)
      | Some m =>
          match all_some (eval_key t k) m with
          | None => (st, RErr E_ATTR)
          | Some _ =>
              match assoc kv (groupby_members (key_or0 t k) m) with
              | Some r => (st, ROk (zlen r :: r))
              | None =>
                  (* "agentset": a plain dict -> KeyError.  "list": GroupBy keeps the defaultdict(list), which
                     silently creates (and returns) an empty group *)
                  if rt then (st, RErr E_KEY) else (st, ROk [0])
              end
          end
      end
  | Get s names single mode dflt =>
      match getm s with
      | None => (st, RSkip)
      | Some m =>
          if negb ((mode =? 0) || (mode =? 1)) then (st, RErr E_VALUE) else
          let names' := if single then firstn 1 names else names in
          match all_some (get_row t names' mode dflt) m with
          | None => (st, RErr E_ATTR)
          | Some rows => (st, ROk (zlen rows :: concat rows))
          end
      end
  | SetAttr s n v =>
      match getm s with
      | None => (st, RSkip)
      | Some m => ({| st_tbl := set_attr_all m n v t; st_pool := st_pool st |}, ROk [1])
      end
  | Agg s n f =>
      match getm s with
      | None => (st, RSkip)
      | Some m =>
          match all_some (fun a => attr_of t a n) m with
          | None => (st, RErr E_ATTR)
          | Some vals =>
              match f, vals with
              | FSum, _ => (st, ROk [zsum vals])
              | FLen, _ => (st, ROk [zlen vals])
              | FMin, [] => (st, RErr E_VALUE)
              | FMax, [] => (st, RErr E_VALUE)
              | FMin, x :: r => (st, ROk [zmin x r])
              | FMax, x :: r => (st, ROk [zmax x r])
              end
          end
      end
  | Map s f =>
      match getm s with
      | None => (st, RSkip)
      | Some m =>
          match all_some (eval_mapf t f) m with
          | None => (st, RErr E_ATTR)
          | Some vals => (st, ROk (zlen vals :: vals))
          end
      end
  | Add s a =>
      match getm s, assoc a t with
      | Some m, Some _ => (store st s (if memb Z.eqb a m then m else m ++ [a]), ROk [])
      | _, _ => (st, RSkip)
      end
  | Discard s a =>
      match getm s, assoc a t with
      | Some m, Some _ => (store st s (remove_key Z.eqb a m), ROk [])
      | _, _ => (st, RSkip)
      end
  | Remove s a =>
      match getm s, assoc a t with
      | Some m, Some _ =>
          if memb Z.eqb a m then (store st s (remove_key Z.eqb a m), ROk [])
          else (st, RErr E_KEY)
      | _, _ => (st, RSkip)
      end
  | Contains s a =>
      match getm s, assoc a t with
      | Some m, Some _ => (st, ROk [b2z (memb Z.eqb a m)])
      | _, _ => (st, RSkip)
      end
  | Len s =>
      match getm s with
      | None => (st, RSkip)
      | Some m => (st, ROk [zlen m])
      end
  | Index s i =>
      match getm s with
      | None => (st, RSkip)
      | Some m =>
          let j := norm_index (zlen m) i in
          if (j <? 0) || (j >=? zlen m) then (st, RErr E_INDEX)
          else (st, ROk [nth (Z.to_nat j) m 0])
      end
  | Slice s lo hi =>
      match getm s with
      | None => (st, RSkip)
      | Some m => let r := slice m lo hi in (st, ROk (zlen r :: r))
      end
  | Iter s =>
      match getm s with
      | None => (st, RSkip)
      | Some m => (st, ROk m)
      end
  | Pop s =>
      match getm s with
      | None => (st, RSkip)
      | Some [] => (st, RErr E_KEY)
      | Some (x :: r) => (store st s (remove_key Z.eqb x (x :: r)), ROk [x])
      end
  | Clear s =>
      match getm s with
      | None => (st, RSkip)
      | Some m => (store st s (pop_all (length m) m), ROk [])
      end
  | IndexOf s a =>
      match getm s, assoc a t with
      | Some m, Some _ =>
          match index_of a m 0 with
          | Some i => (st, ROk [i])
          | None => (st, RErr E_VALUE)
          end
      | _, _ => (st, RSkip)
      end
  | Count s a =>
      match getm s, assoc a t with
      | Some m, Some _ => (st, ROk [count_of a m])
      | _, _ => (st, RSkip)
      end
  | Reversed s =>
      match getm s with
      | None => (st, RSkip)
      | Some m => (st, ROk (rev m))
      end
  | GroupCount s k =>
      match getm s with
      | None => (st, RSkip)
      | Some m =>
          match all_some (eval_key t k) m with
          | None => (st, RErr E_ATTR)
          | Some _ =>
              let g := groupby_members (key_or0 t k) m in
              (st, ROk (zlen g :: flat_map (fun e => [fst e; zlen (snd e)]) g))
          end
      end
  | GroupAgg s k n f =>
      match getm s with
      | None => (st, RSkip)
      | Some m =>
          match all_some (eval_key t k) m with
          | None => (st, RErr E_ATTR)
          | Some _ =>
              match group_agg t n f (groupby_members (key_or0 t k) m) with
              | inl r => (st, ROk r)
              | inr e => (st, RErr e)
              end
          end
      end
  | GroupDoSet s k n v =>
      match getm s with
      | None => (st, RSkip)
      | Some m =>
          match all_some (eval_key t k) m with
          | None => (st, RErr E_ATTR)
          | Some _ =>
              ({| st_tbl := group_do_set n v (groupby_members (key_or0 t k) m) t; st_pool := st_pool st |},
               ROk [1])
          end
      end
  | GroupMap s k rt gm =>
      match getm s with
      | None => (st, RSkip)
      | Some m =>
          match all_some (eval_key t k) m with
          | None => (st, RErr E_ATTR)
          | Some _ =>
              match group_map t rt gm (groupby_members (key_or0 t k) m) with
              | Some r => (st, ROk r)
              | None => (st, RErr E_ATTR)
              end
          end
      end
  | GroupDo s k rt by_name n v =>
      match getm s with
      | None => (st, RSkip)
      | Some m =>
          match all_some (eval_key t k) m with
          | None => (st, RErr E_ATTR)
          | Some _ =>
              let g := groupby_members (key_or0 t k) m in
              (* getattr(<list>, "set") raises on the first group, before anything is written *)
              if by_name && negb rt && negb (zlen g =? 0) then (st, RErr E_ATTR)
              else ({| st_tbl := group_do_set n v g t; st_pool := st_pool st |}, ROk [1])
          end
      end
  | SetOp s1 s2 o inplace d =>
      match getm s1, getm s2 with
      | Some m1, Some m2 =>
          if negb (valid_slot d) then (st, RSkip)
          else (store st (if inplace then s1 else d) (set_binop o inplace m1 m2), flag_ok inplace)
      | _, _ => (st, RSkip)
      end
  | SetCmp s1 s2 c =>
      match getm s1, getm s2 with
      | Some m1, Some m2 => (st, ROk [b2z (set_cmp c m1 m2)])
      | _, _ => (st, RSkip)
      end
  end.

(* ---------- observations ---------- *)
Definition obs_result (r : result) : list Z :=
  match r with
  | ROk v => 0 :: v
  | RErr k => [-1; k]
  | RSkip => [-2]
  | RIllegal => [-3]
  end.

Definition slots : list Z := [0; 1; 2; 3; 4; 5].
Definition attr_names : list Z := [0; 1; 2].

Definition obs_pool (p : pool) : list Z :=
  flat_map (fun s => match slot_get s p with None => [-4] | Some m => -5 :: m end) slots.
Definition obs_table (t : table) : list Z :=
  flat_map (fun e => flat_map (fun n => match assoc n (a_attrs (snd e)) with
                                       | Some v => [1; v] | None => [0; 0] end) attr_names) t.
Definition obs_state (st : state) : list Z := -7 :: obs_pool (st_pool st) ++ -6 :: obs_table (st_tbl st).

Fixpoint run_ops (st : state) (ops : list op) : list (list Z) :=
  match ops with
  | [] => []
  | o :: rest =>
      let sr := step st o in
      (obs_result (snd sr) ++ obs_state (fst sr)) :: run_ops (fst sr) rest
  end.

Definition final (st : state) (ops : list op) : state :=
  fold_left (fun s o => fst (step s o)) ops st.


(* compact description of a LARGE population (scale stream of the correspondence): n agents with ids 1..n, classes
   cycling through the hierarchy, heavily tied small attribute values computed from a seed *)
Definition gen_agent (seed i : Z) : id * agent :=
  (i, {| a_cls := i mod 5;
         a_attrs := [(0, (i * i + seed * i + 3) mod 4); (1, (i * 7 + seed) mod 3); (2, (i + seed) mod 2)] |}).
Definition gen_agents (n seed : Z) : table := map (gen_agent seed) (zrange 1 n).

Record case := { c_agents : table; c_init : list id; c_ops : list op }.
Definition init_state (c : case) : state :=
  {| st_tbl := c_agents c; st_pool := [(0, new_set (c_init c))] |}.
Definition run_case (c : case) : list (list Z) := run_ops (init_state c) (c_ops c).
