(* C19, round 3: the world around the spaces - the Model object that holds a space and its agents.

   On top of Model/Copy.v (whose state and step are used unchanged) a world records
     - for every model object its registry  model._agents  (agent locations in registration order; off-grid agents
       included, removed agents excluded) and which side is  model.grid,
     - for every agent its  .model  pointer, and whether it is a FixedAgent,
     - user attributes in the instance __dict__ of cells (names other than layer names),
   and adds the operations
     WCopy mech src root   copy.deepcopy / pickle round trip of the SPACE (root = 0) or of the MODEL (root = 1) of side src.
                           The model object is reached from the space exactly when some agent stands on the grid
                           (agent.model); then the whole registry is copied with it, off-grid agents included.
     PlaceFixed            FixedAgent(model); agent.cell = cell      (FixedCell setter: a placed agent cannot be moved)
     Kill                  CellAgent.remove(): deregister from the model, leave the cell
     SetUser               setattr(cell, <user name>, v)             (instance __dict__ of the cell)
     SForget               the program drops every strong reference to the members of an AgentSet and runs gc.collect()
     DelEmpty              space.remove_property_layer("empty")      (what the code does; afterwards cell.empty lives in the
                           instance __dict__ and is not carried by the copy of a grid cell)
   Definitions only. *)
From Coq Require Import ZArith List Bool.
From Mesa Require Import Model.Copy.
Import ListNotations.
Open Scope Z_scope.

Record world := {
  w_st : state;
  w_models : list (list nat);      (* model id -> registry *)
  w_grid : list nat;               (* model id -> index of the side that is model.grid *)
  w_smodel : list nat;             (* side index -> model id *)
  w_amodel : list (nat * nat);     (* agent location -> model id  (agent.model) *)
  w_fixed : list nat;              (* FixedAgents *)
  w_user : list (nat * Z * Z);     (* (cell location, name, value) *)
  w_setpin : list bool;            (* agent-set side -> an agent was created with its model (Agent._ids then holds the model for ever) *)
  w_xconn : list (nat * Z * nat);  (* hand-made connections (cell, key, target), Cell.connect after construction *)
  w_ghost : list (nat * nat)       (* removed FixedAgents: (agent, cell its _mesa_cell still points to) *)
}.

Inductive wop :=
| Inner (o : op)
| WCopy (mech src root : Z)
| PlaceFixed (s label cell : Z)
| Kill (s label : Z)
| SetUser (s cell name v : Z)
| SForget (s : Z)
| DelEmpty (s : Z)
| Connect (s ci key cj : Z)       (* cells[ci].connect(cells[cj], <hand-made key>) *)
| Draw (s kind arg : Z)           (* a random selection on side s: which population, see draw_population *)
| SDraw (s kind : Z)              (* AgentSet.shuffle_do / shuffle(inplace=False): draws, order unchanged *)
| SShuffle (s : Z) (perm : list Z).  (* AgentSet.shuffle(inplace=True): the new order (labels) is the recorded outcome *)

Definition E_FIXED : Z := 6.
Definition E_EMPTY : Z := 7.      (* IndexError: cannot choose from an empty sequence *)
Definition ILLEGAL : list Z := [-3].

Fixpoint lookupn (a : nat) (l : list (nat * nat)) : option nat :=
  match l with
  | [] => None
  | (a', m) :: t => if Nat.eqb a a' then Some m else lookupn a t
  end.

Definition with_st (w : world) (st : state) : world :=
  {| w_st := st; w_models := w_models w; w_grid := w_grid w; w_smodel := w_smodel w;
     w_amodel := w_amodel w; w_fixed := w_fixed w; w_user := w_user w; w_setpin := w_setpin w; w_xconn := w_xconn w; w_ghost := w_ghost w |}.

Definition side_of (w : world) (s : Z) : option side := nth_side (st_sides (w_st w)) s.
Definition tab_of (w : world) (s : Z) : list (Z * nat) :=
  match side_of w s with Some sd => sd_tab sd | None => [] end.
Definition model_of (w : world) (s : Z) : option nat :=
  if s <? 0 then None else nth_error (w_smodel w) (Z.to_nat s).

Definition placed (h : heap) (a : nat) : bool :=
  match a_cell (geta h a) with Some _ => true | None => false end.

(* a placed FixedAgent refuses every change of its cell *)
Definition is_ghost (w : world) (a : nat) : bool := existsb (fun g => Nat.eqb (fst g) a) (w_ghost w).

(* a FixedAgent whose _mesa_cell is set - placed, or removed with the pointer left behind - refuses every change *)
Definition fixed_guard (w : world) (s label : Z) : bool :=
  match assoc label (tab_of w s) with
  | Some a => memn a (w_fixed w) && (placed (st_heap (w_st w)) a || is_ghost w a)
  | None => false
  end.

Definition HANDMADE : Z := 900.   (* keys >= 900 are hand-made connection keys *)

Fixpoint xconn_get (c : nat) (key : Z) (l : list (nat * Z * nat)) : option nat :=
  match l with
  | [] => None
  | e :: t => if Nat.eqb (fst (fst e)) c && (snd (fst e) =? key) then Some (snd e) else xconn_get c key t
  end.

Fixpoint xconn_set (c : nat) (key : Z) (tgt : nat) (l : list (nat * Z * nat)) : list (nat * Z * nat) :=
  match l with
  | [] => [(c, key, tgt)]
  | e :: t => if Nat.eqb (fst (fst e)) c && (snd (fst e) =? key) then (c, key, tgt) :: t else e :: xconn_set c key tgt t
  end.

(* move_relative along a hand-made connection: the index of the target cell *)
Definition xconn_target (w : world) (s label key : Z) : option Z :=
  match side_of w s, assoc label (tab_of w s) with
  | Some sd, Some a =>
      match a_cell (geta (st_heap (w_st w)) a) with
      | Some cur =>
          match xconn_get cur key (w_xconn w) with
          | Some tgt => option_map Z.of_nat (index_of tgt (s_cells (sd_space sd)))
          | None => None
          end
      | None => None
      end
  | _, _ => None
  end.

(* Agent.__init__ -> model.register_agent: agents created by an operation are appended to the registry *)
Definition register (w : world) (s : Z) (news : list nat) : world :=
  match model_of w s with
  | None => w
  | Some m =>
      {| w_st := w_st w; w_models := upd m (fun r => r ++ news) (w_models w); w_grid := w_grid w;
         w_smodel := w_smodel w; w_amodel := w_amodel w ++ map (fun a => (a, m)) news;
         w_fixed := w_fixed w; w_user := w_user w; w_setpin := w_setpin w; w_xconn := w_xconn w; w_ghost := w_ghost w |}
  end.

Definition set_pins (w : world) (pins : list bool) : world :=
  {| w_st := w_st w; w_models := w_models w; w_grid := w_grid w; w_smodel := w_smodel w;
     w_amodel := w_amodel w; w_fixed := w_fixed w; w_user := w_user w; w_setpin := pins; w_xconn := w_xconn w; w_ghost := w_ghost w |}.

Definition inner_step (w : world) (o : op) : world * list nat * list Z :=
  let s := op_side o in
  let tab0 := tab_of w s in
  let '(st', r) := step (w_st w) o in
  let w1 := with_st w st' in
  let news := if is_set_op o then [] else map snd (skipn (length tab0) (tab_of w1 s)) in
  (* agent sets: a new side starts unpinned; creating an agent with the side's model pins it *)
  let grown := Nat.ltb (length (h_agents (st_heap (w_st w)))) (length (h_agents (st_heap st'))) in
  let pins := w_setpin w ++ repeat false (length (st_sets st') - length (st_sets (w_st w))) in
  let pins := if is_set_op o && grown then upd (Z.to_nat s) (fun _ => true) pins else pins in
  (set_pins (register w1 s news) pins, news, r).

Definition mark_fixed (w : world) (news : list nat) : world :=
  {| w_st := w_st w; w_models := w_models w; w_grid := w_grid w; w_smodel := w_smodel w;
     w_amodel := w_amodel w; w_fixed := w_fixed w ++ news; w_user := w_user w; w_setpin := w_setpin w; w_xconn := w_xconn w; w_ghost := w_ghost w |}.

(* ------------------------------------------------------------------ copying the space / the model *)
Definition user_of (w : world) (c : nat) : list (nat * Z * Z) :=
  filter (fun e => Nat.eqb (fst (fst e)) c) (w_user w).

Definition carry_registry (h0 : heap) (reg : list nat) (h1 : heap) (tab1 : list (Z * nat))
  : heap * list (Z * nat) * list nat :=
  fold_left (fun acc a =>
               let '(hh, tab, done) := acc in
               let '(hh', a', tab') := find_or_create hh tab (a_label (geta h0 a)) in
               (hh', tab', done ++ [a']))
            reg (h1, tab1, []).

Definition wcopy (w : world) (src root : Z) : world * list Z :=
  let st := w_st w in
  match nth_side (st_sides st) src, model_of w src with
  | Some sd, Some m =>
      if Nat.leb MAX_SIDES (length (st_sides st)) then (w, NOOP) else
      let h := st_heap st in
      let '(h1, sd1) := copy_space h sd in
      let cells := s_cells (sd_space sd) in
      let new_side := length (st_sides st) in
      let mid := length (w_models w) in
      let reached := (root =? 1) || negb (Nat.eqb (length (agents_of h cells)) O) in
      (* the registry travels with the model; find_or_create re-uses the copies copy_space made of the agents on the grid
         and creates the copies of the off-grid agents *)
      let '(h2, tab2, newreg) :=
        if reached then carry_registry h (nth m (w_models w) []) h1 (sd_tab sd1) else (h1, sd_tab sd1, []) in
      let sd2 := {| sd_space := sd_space sd1; sd_tab := tab2 |} in
      let old_fixed := fun label => match assoc label (sd_tab sd) with Some a => memn a (w_fixed w) | None => false end in
      let new_fixed := flat_map (fun la => if old_fixed (fst la) then [snd la] else []) tab2 in
      (* pickle_gridcell drops the instance __dict__ of grid cells; other cells keep theirs *)
      let new_user :=
        if s_grid (sd_space sd) then []
        else flat_map (fun ic => map (fun e => ((length (h_cells h) + fst ic)%nat, snd (fst e), snd e)) (user_of w (snd ic)))
                      (combine (seq 0 (length cells)) cells) in
      ({| w_st := {| st_heap := h2; st_sides := st_sides st ++ [sd2]; st_sets := st_sets st |};
          w_models := w_models w ++ [newreg];
          w_grid := w_grid w ++ [new_side];
          w_smodel := w_smodel w ++ [mid];
          w_amodel := w_amodel w ++ map (fun la => (snd la, mid)) tab2;
          w_fixed := w_fixed w ++ new_fixed;
          w_user := w_user w ++ new_user; w_setpin := w_setpin w; w_xconn := w_xconn w; w_ghost := w_ghost w |}, [0])
  | _, _ => (w, NOOP)
  end.

(* ------------------------------------------------------------------ the other world operations *)
Fixpoint set_user (c : nat) (name v : Z) (l : list (nat * Z * Z)) : list (nat * Z * Z) :=
  match l with
  | [] => [(c, name, v)]
  | e :: t => if Nat.eqb (fst (fst e)) c && (snd (fst e) =? name) then (c, name, v) :: t else e :: set_user c name v t
  end.

Definition del_empty_side (h : heap) (sd : side) : heap * side :=
  let sp := sd_space sd in
  (upd_class h (s_klass sp) (fun k => {| d_descr := assoc_del EMPTY (d_descr k) |}),
   {| sd_space := set_layers (assoc_del EMPTY (s_layers sp)) sp; sd_tab := sd_tab sd |}).

(* ------------------------------------------------------------------ random selections
   The generator is not modelled: which element is drawn is an outcome the model does not see.  What is determined is
   WHETHER the side's own generator is consulted (a non-empty population: random.choice consumes; an empty one raises
   IndexError before drawing) - and, by construction of the model, that no other side's generator is touched. *)
Fixpoint dedupn (l : list nat) : list nat :=
  match l with [] => [] | x :: t => if memn x t then dedupn t else x :: dedupn t end.

(* cell.neighborhood (radius 1): the targets of the cell's CURRENT connections - those of the geometry and the hand-made
   ones (xc = w_xconn: at most one entry per cell and key) - without the cell itself *)
Definition nbhd_cells (xc : list (nat * Z * nat)) (h : heap) (c : nat) : list nat :=
  filter (fun t => negb (Nat.eqb t c))
         (dedupn (map snd (k_conns (getc h c)) ++ map snd (filter (fun e => Nat.eqb (fst (fst e)) c) xc))).

Definition draw_population (xc : list (nat * Z * nat)) (h : heap) (sd : side) (kind arg : Z) : option nat :=
  let cells := s_cells (sd_space sd) in
  let n_empty := length (filter (fun c => Nat.eqb (length (k_agents (getc h c))) O) cells) in
  let at_cell := if arg <? 0 then None else nth_error cells (Z.to_nat arg) in
  if kind =? 0 then Some (length cells)                                   (* all_cells.select_random_cell() *)
  else if kind =? 1 then Some (length (agents_of h cells))                (* all_cells.select_random_agent() *)
  else if kind =? 2 then Some n_empty                                     (* empties.select_random_cell() *)
  else if kind =? 3 then                                                  (* select_random_empty_cell(), _try_random: loops *)
    (if s_grid (sd_space sd) && Nat.eqb n_empty O then None else Some n_empty)
  else if kind =? 4 then Some n_empty                                     (* select_random_empty_cell() via the empties list *)
  else if kind =? 5 then option_map (fun c => length (nbhd_cells xc h c)) at_cell           (* cell.neighborhood.select_random_cell() *)
  else if kind =? 6 then option_map (fun c => length (agents_of h (nbhd_cells xc h c))) at_cell  (* ....select_random_agent() *)
  else None.

Definition member_with_label (h : heap) (ms : list nat) (label : Z) : list nat :=
  match filter (fun a => a_label (geta h a) =? label) ms with a :: _ => [a] | [] => [] end.

Definition wstep (w : world) (o : wop) : world * list Z :=
  match o with
  | Inner (Copy _ _) => (w, NOOP)
  | Inner (Move s label _ as o') | Inner (Leave s label as o') =>
      if fixed_guard w s label then (w, [-1; E_FIXED])
      else let '(w', _, r) := inner_step w o' in (w', r)
  | Inner (RelMove s label key as o') =>
      if fixed_guard w s label then (w, [-1; E_FIXED])
      else match xconn_target w s label key with
           | Some idx => let '(w', _, r) := inner_step w (Move s label idx) in (w', r)
           | None => let '(w', _, r) := inner_step w o' in (w', r)
           end
  | Inner o' => let '(w', _, r) := inner_step w o' in (w', r)
  | WCopy _ src root => wcopy w src root
  | PlaceFixed s label ci =>
      if fixed_guard w s label then (w, [-1; E_FIXED])
      else
        let fresh := match assoc label (tab_of w s) with Some _ => false | None => true end in
        let '(w', news, r) := inner_step w (Move s label ci) in
        (if fresh then mark_fixed w' news else w', r)
  | Kill s label =>
      match assoc label (tab_of w s), model_of w s with
      | Some a, Some m =>
          if negb (memn a (nth m (w_models w) [])) then (w, NOOP)
          else
            (* CellAgent.remove: deregister, cell = None.  FixedAgent.remove: deregister, cell.remove_agent(self) - the
               agent's _mesa_cell keeps pointing to the cell (recorded as a ghost pointer) *)
            let ghost := if memn a (w_fixed w)
                         then match a_cell (geta (st_heap (w_st w)) a) with Some c => [(a, c)] | None => [] end
                         else [] in
            let '(w', _, _) := inner_step w (Leave s label) in
            ({| w_st := w_st w'; w_models := upd m (remove_first a) (w_models w'); w_grid := w_grid w';
                w_smodel := w_smodel w'; w_amodel := w_amodel w'; w_fixed := w_fixed w'; w_user := w_user w';
                w_setpin := w_setpin w'; w_xconn := w_xconn w'; w_ghost := w_ghost w' ++ ghost |}, [0])
      | _, _ => (w, NOOP)
      end
  | SetUser s ci name v =>
      match side_of w s with
      | None => (w, NOOP)
      | Some sd =>
          if ci <? 0 then (w, NOOP) else
          match nth_error (s_cells (sd_space sd)) (Z.to_nat ci) with
          | None => (w, NOOP)
          | Some c =>
              ({| w_st := w_st w; w_models := w_models w; w_grid := w_grid w; w_smodel := w_smodel w;
                  w_amodel := w_amodel w; w_fixed := w_fixed w; w_user := set_user c name v (w_user w);
                  w_setpin := w_setpin w; w_xconn := w_xconn w; w_ghost := w_ghost w |}, [0])
          end
      end
  | SForget s =>
      match nth_side (st_sets (w_st w)) s with
      | None => (w, NOOP)
      | Some _ =>
          (* Agent._ids (a class-level dict keyed by model) keeps a model alive once an agent was created with it, and the
             model's registry keeps its agents: only the members of a side whose model never created an agent can go *)
          if nth (Z.to_nat s) (w_setpin w) true then (w, NOOP)
          else (with_st w (with_set (w_st w) (st_heap (w_st w)) s {| ss_members := []; ss_tab := [] |}), [0])
      end
  | Connect s ci key cj =>
      match side_of w s with
      | None => (w, NOOP)
      | Some sd =>
          if (ci <? 0) || (cj <? 0) || (key <? HANDMADE) then (w, NOOP) else
          match nth_error (s_cells (sd_space sd)) (Z.to_nat ci), nth_error (s_cells (sd_space sd)) (Z.to_nat cj) with
          | Some c1, Some c2 =>
              ({| w_st := w_st w; w_models := w_models w; w_grid := w_grid w; w_smodel := w_smodel w;
                  w_amodel := w_amodel w; w_fixed := w_fixed w; w_user := w_user w; w_setpin := w_setpin w;
                  w_xconn := xconn_set c1 key c2 (w_xconn w); w_ghost := w_ghost w |}, [0])
          | _, _ => (w, NOOP)
          end
      end
  | Draw s kind arg =>
      match side_of w s with
      | None => (w, NOOP)
      | Some sd =>
          match draw_population (w_xconn w) (st_heap (w_st w)) sd kind arg with
          | None => (w, NOOP)
          | Some O => (w, [-1; E_EMPTY])
          | Some _ => (w, [0; 1])            (* drawn from the side's own generator *)
          end
      end
  | SDraw s _ =>
      match nth_side (st_sets (w_st w)) s with
      | None => (w, NOOP)
      | Some ss => (w, [0; b2z (Nat.leb 2 (length (ss_members ss)))])     (* random.shuffle draws iff there are >= 2 items *)
      end
  | SShuffle s perm =>
      match nth_side (st_sets (w_st w)) s with
      | None => (w, NOOP)
      | Some ss =>
          let h := st_heap (w_st w) in
          let ms := ss_members ss in
          let new := flat_map (member_with_label h ms) perm in
          (* legal outcome: the same members, each once *)
          if Nat.eqb (length new) (length ms) && forallb (fun a => memn a new) ms
          then (with_st w (with_set (w_st w) h s {| ss_members := new; ss_tab := ss_tab ss |}),
                [0; b2z (Nat.leb 2 (length ms))])
          else (w, ILLEGAL)
      end
  | DelEmpty s =>
      match side_of w s with
      | None => (w, NOOP)
      | Some sd =>
          if s_grid (sd_space sd) && match assoc EMPTY (s_layers (sd_space sd)) with Some _ => true | None => false end
          then let '(h', sd') := del_empty_side (st_heap (w_st w)) sd in
               (with_st w (with_side (w_st w) h' s sd'), [0])
          else (w, NOOP)
      end
  end.

(* ------------------------------------------------------------------ observation *)
Fixpoint xghost (l : list (nat * nat)) (a : nat) : option nat :=
  match l with
  | [] => None
  | (a', c) :: t => if Nat.eqb a a' then Some c else xghost t a
  end.

Definition user_code (w : world) (c : nat) (name : Z) : Z :=
  match filter (fun e => Nat.eqb (fst (fst e)) c && (snd (fst e) =? name)) (w_user w) with
  | e :: _ => snd e
  | [] => NOATTR
  end.

Definition world_side_view (w : world) (k : nat) (sd : side) : list Z :=
  let h := st_heap (w_st w) in
  let cells := s_cells (sd_space sd) in
  let m := nth k (w_smodel w) O in
  let ptr_ok := forallb (fun la => match lookupn (snd la) (w_amodel w) with Some m' => Nat.eqb m' m | None => false end)
                        (sd_tab sd) in
  let grid_ok := Nat.eqb (nth m (w_grid w) (S k)) k in
  (- (300 + Z.of_nat k)) :: map (fun a => a_label (geta h a)) (nth m (w_models w) [])
  ++ (-6) :: map (fun a => b2z (memn a (w_fixed w))) (agents_of h cells)
  ++ (-5) :: [b2z ptr_ok; b2z grid_ok]
  ++ (-4) :: flat_map (fun c => [user_code w c 10; user_code w c 11]) cells
  ++ (-3) :: flat_map (fun c => flat_map (fun e => if Nat.eqb (fst (fst e)) c
                                                    then [idx_code cells c; snd (fst e); idx_code cells (snd e)] else [])
                                         (w_xconn w)) cells
  ++ (-2) :: flat_map (fun la => match xghost (w_ghost w) (snd la) with
                                 | Some c => [fst la; idx_code cells c]
                                 | None => []
                                 end) (sd_tab sd).

Fixpoint nodupn (l : list nat) : bool :=
  match l with [] => true | x :: t => negb (memn x t) && nodupn t end.

Definition world_obs (w : world) : list Z :=
  obs_state (w_st w) ++ views (world_side_view w) O (st_sides (w_st w)) ++ [b2z (nodupn (w_smodel w))]
  (* generators: every side has its own, a draw on one side leaves the others alone, a copy starts in the state of its source *)
  ++ [1].

Fixpoint wrun_ops (w : world) (ops : list wop) : list (list Z) :=
  match ops with
  | [] => []
  | o :: t => let '(w', res) := wstep w o in (res ++ world_obs w') :: wrun_ops w' t
  end.

Fixpoint wrun_states (w : world) (ops : list wop) : world :=
  match ops with
  | [] => w
  | o :: t => wrun_states (fst (wstep w o)) t
  end.

Record wcase := { wc_case : case; wc_ops : list wop }.

Definition init_world (c : case) : world :=
  {| w_st := init_state c;
     w_models := if c_space c then [[]] else [];
     w_grid := if c_space c then [O] else [];
     w_smodel := if c_space c then [O] else [];
     w_amodel := []; w_fixed := []; w_user := [];
     w_setpin := if c_space c then [] else [true]; w_xconn := []; w_ghost := [] |}.

Definition run_world (c : wcase) : list (list Z) := wrun_ops (init_world (wc_case c)) (wc_ops c).
