(* The life cycle layer (Model/DevsLife.v) over the heap-array simulator (Model/DevsHeap.v): used by the heapq tie
   (thorough tier / VERIF_HEAPQ_TIE=1) and by the refinement theorem C14_heap_lifecycle_refines.  Definitions only. *)
From Coq Require Import ZArith List Bool.
From Mesa Require Import Generated.Tables Model.Devs Model.Heap Model.DevsHeap Model.DevsLife.
Import ListNotations.
Open Scope Z_scope.

Definition h_setup_state (cfg : config) (st : state) : state :=
  let st0 := set_steps st 0 in
  if c_abm cfg then fst (h_schedule_relative cfg st0 SCALE gen_step_prio (-1) (-1) true []) else st0.

Definition h_xstep (cfg : config) (fuel : nat) (m : sim) (x : xop) : sim * list Z :=
  match x with
  | XOp o =>
      let '(st1, ob) := if m_setup m then h_step_op cfg fuel (m_st m) o else h_step_op_unset cfg fuel (m_st m) o in
      ({| m_st := st1; m_setup := m_setup m |}, ob)
  | XReset =>
      let st1 := reset_state (m_st m) in
      ({| m_st := st1; m_setup := false |}, 0 :: h_view st1 [])
  | XSetup =>
      if negb (s_time (m_st m) =? 0) then (m, [-1; E_SETUP_TIME])
      else match s_events (m_st m) with
           | [] => let st1 := h_setup_state cfg (m_st m) in ({| m_st := st1; m_setup := true |}, 0 :: h_view st1 [])
           | _ :: _ => (m, [-1; E_SETUP_EVENTS])
           end
  end.

Fixpoint h_xrun_ops (cfg : config) (fuel : nat) (m : sim) (ops : list xop) : list (list Z * list Z) :=
  match ops with
  | [] => []
  | x :: r => let '(m1, ob) := h_xstep cfg fuel m x in (ob, h_array (m_st m1)) :: h_xrun_ops cfg fuel m1 r
  end.

Definition h_xinit (cfg : config) (setup : bool) : sim :=
  {| m_st := if setup then h_init cfg else fresh; m_setup := setup |}.

Definition h_run_xcase (c : xcase) : list (list Z * list Z) :=
  h_xrun_ops (x_cfg c) (x_fuel c) (h_xinit (x_cfg c) (x_setup c)) (x_ops c).

(* what the heapq tie compares: observation, separator -7, array *)
Definition run_xcase_heap (c : xcase) : list (list Z) :=
  map (fun oa => fst oa ++ (-7) :: snd oa) (h_run_xcase c).
