(* Model of one activation (mesa/agent.py AgentSet.do / shuffle_do / map, GroupBy.do / map) on top
   of a small registry (mesa/model.py register_agent / deregister_agent, Agent.__init__ / remove),
   with CPython reference counting made explicit:

     reg   the model's hard references   (Model._agents, a dict in insertion order)
     ext   references the program holds  (a multiset: one entry per reference)
     cur   the agent bound to the local `agent` of every running do/shuffle_do/map frame (a stack:
           a callback may start an activation of its own)
     sets  every AgentSet in play: Model._all_agents (SAll), Model._agents_by_type[c] (SType c) and
           the program's own sets (SUser k); each is a WeakKeyDictionary = keys in insertion order
           from which a key disappears at the moment its agent dies (`sweep`).

   An agent is alive iff some strong reference exists: alive a := a in reg \/ a in ext \/ a in cur.
   A callback may raise (Raise: the loop is left at once, the exception travels through every running
   activation) and may start an activation itself (Nested; TryNested when it catches what comes out
   of it), to any depth: exN scs, one script per nesting level.
   do/map:      for agentref in self._agents.keyrefs(): if (agent := agentref()) is not None: call
   shuffle_do:  weakrefs = list(keyrefs()); self.random.shuffle(weakrefs); same loop over weakrefs
   The permutation chosen by random.shuffle is an input (`perm`), checked to be a permutation of the
   snapshot.  User callbacks are scripts of `act`s interpreted by `exec_act`.  Definitions only. *)
From Coq Require Import ZArith List Bool.
From Mesa Require Import Common.ListX.
Import ListNotations.
Open Scope Z_scope.

Definition memz (x : Z) (l : list Z) : bool := existsb (Z.eqb x) l.
(* del d[k] on a dict with distinct keys *)
Definition remove_z (x : Z) (l : list Z) : list Z := filter (fun y => negb (x =? y)) l.
(* list.remove: first occurrence only (one reference of the multiset ext) *)
Fixpoint remove_first (x : Z) (l : list Z) : list Z :=
  match l with
  | [] => []
  | y :: t => if x =? y then t else y :: remove_first x t
  end.

Inductive sref := SAll | SType (c : Z) | SUser (k : Z).
Definition sref_eqb (a b : sref) : bool :=
  match a, b with
  | SAll, SAll => true
  | SType c, SType d => c =? d
  | SUser k, SUser j => k =? j
  | _, _ => false
  end.

Record st := mkSt {
  next_id : Z;                      (* next value of Agent._ids[model] *)
  reg : list Z;                     (* Model._agents keys *)
  ext : list Z;                     (* references held by the program *)
  cur : list (option Z);            (* local `agent` of every running activation frame, innermost first *)
  cls : list (Z * Z);               (* type(agent) *)
  sets : list (sref * list Z);      (* weak sets *)
  nuser : Z;                        (* number of program-made sets *)
  nlog : list Z                     (* calls made by nested activations during the current op (observation only) *)
}.

Definition init_st : st := mkSt 1 [] [] [] [] [(SAll, [])] 0 [].

Definition holds (a : Z) (o : option Z) : bool := match o with Some c => c =? a | None => false end.
Definition is_cur (s : st) (a : Z) : bool := existsb (holds a) (cur s).
Definition alive (s : st) (a : Z) : bool := memz a (reg s) || memz a (ext s) || is_cur s a.

Fixpoint class_of_l (l : list (Z * Z)) (a : Z) : Z :=
  match l with
  | [] => -1
  | (b, c) :: t => if a =? b then c else class_of_l t a
  end.
Definition class_of (s : st) (a : Z) : Z := class_of_l (cls s) a.

Fixpoint lookup (r : sref) (l : list (sref * list Z)) : option (list Z) :=
  match l with
  | [] => None
  | (r', m) :: t => if sref_eqb r r' then Some m else lookup r t
  end.

Definition set_sets (f : list (sref * list Z)) (s : st) : st :=
  mkSt (next_id s) (reg s) (ext s) (cur s) (cls s) f (nuser s) (nlog s).
Definition set_ext (e : list Z) (s : st) : st :=
  mkSt (next_id s) (reg s) e (cur s) (cls s) (sets s) (nuser s) (nlog s).
Definition set_frames (c : list (option Z)) (s : st) : st :=
  mkSt (next_id s) (reg s) (ext s) c (cls s) (sets s) (nuser s) (nlog s).
Definition set_nlog (l : list Z) (s : st) : st :=
  mkSt (next_id s) (reg s) (ext s) (cur s) (cls s) (sets s) (nuser s) l.
(* rebinding the local `agent` of the innermost frame *)
Definition set_cur (c : option Z) (s : st) : st := set_frames (c :: tl (cur s)) s.
(* a call of do / shuffle_do / map starts (its local is unbound) / its frame is gone *)
Definition push_frame (s : st) : st := set_frames (None :: cur s) s.
Definition pop_frame (s : st) : st := set_frames (tl (cur s)) s.

(* weakref callbacks: every key whose agent has no strong reference left disappears *)
Definition upd_sets (g : sref -> list Z -> list Z) (l : list (sref * list Z)) : list (sref * list Z) :=
  map (fun e => (fst e, g (fst e) (snd e))) l.
Definition sweep (s : st) : st :=
  set_sets (upd_sets (fun _ m => filter (alive s) m) (sets s)) s.

(* the two model-owned sets an agent of class c is a member of *)
Definition touches (c : Z) (r : sref) : bool :=
  match r with SAll => true | SType c' => c =? c' | SUser _ => false end.

(* Model.deregister_agent:  del self._agents[agent]  (KeyError when absent: nothing else runs,
   Agent.remove suppresses it);  self._agents_by_type[type(agent)].remove(agent);
   self._all_agents.remove(agent) *)
Definition deregister (a : Z) (s : st) : st :=
  if memz a (reg s) then
    mkSt (next_id s) (remove_z a (reg s)) (ext s) (cur s) (cls s)
         (upd_sets (fun r m => if touches (class_of s a) r then remove_z a m else m) (sets s))
         (nuser s) (nlog s)
  else s.

(* the program looks the agent up (only a living object can be reached), calls agent.remove(),
   optionally keeps the reference it has in hand, then lets go of its temporaries *)
Definition do_remove (a : Z) (keep : bool) (s : st) : st :=
  if alive s a then
    let s1 := deregister a s in
    let s2 := if keep then set_ext (ext s1 ++ [a]) s1 else s1 in
    sweep s2
  else s.

Definition has_set (r : sref) (l : list (sref * list Z)) : bool :=
  existsb (fun e => sref_eqb r (fst e)) l.

(* Agent.__init__: unique_id = next(_ids[model]); model.register_agent(self):
   _agents[agent] = None; _agents_by_type[type].add(agent) or a new AgentSet([agent]);
   _all_agents.add(agent) *)
Definition create1 (c : Z) (keep : bool) (s : st) : st :=
  let a := next_id s in
  let sets1 := upd_sets (fun r m => if touches c r then m ++ [a] else m) (sets s) in
  let sets2 := if has_set (SType c) (sets s) then sets1 else sets1 ++ [(SType c, [a])] in
  mkSt (a + 1) (reg s ++ [a]) (if keep then ext s ++ [a] else ext s) (cur s)
       ((a, c) :: cls s) sets2 (nuser s) (nlog s).

Fixpoint create_n (n : nat) (c : Z) (keep : bool) (s : st) : st :=
  match n with
  | O => s
  | S n' => create_n n' c keep (create1 c keep s)
  end.

Inductive akind := KDo | KShuffleDo | KMap.

(* what a callback (or the program between activations) can do *)
Inductive act :=
| Nop
| RemoveSelf (keep : bool)
| RemoveId (i : Z) (keep : bool)
| Create (c n : Z) (keep : bool)
| DropRef (i : Z)
| AddRef (i : Z)
| Raise                                      (* the callback raises: the activation is aborted *)
| Nested (k : akind) (r : sref) (perm : list Z)   (* the callback itself calls r.do / shuffle_do / map *)
| TryNested (k : akind) (r : sref) (perm : list Z). (* the same inside  try: ... except Exception: pass *)

Definition exec_act (self : Z) (s : st) (a : act) : st :=
  match a with
  | Nop => s
  | RemoveSelf k => do_remove self k s
  | RemoveId i k => do_remove i k s
  | Create c n k => create_n (Z.to_nat n) c k s
  | DropRef i => sweep (set_ext (remove_first i (ext s)) s)
  | AddRef i => if alive s i then set_ext (ext s ++ [i]) s else s
  | Raise => s
  | Nested _ _ _ => s          (* given a meaning by the executors ex_next / exN below *)
  | TryNested _ _ _ => s
  end.

Definition script := list (Z * list act).
Fixpoint script_of (sc : script) (a : Z) : list act :=
  match sc with
  | [] => []
  | (b, l) :: t => if a =? b then l else script_of t a
  end.

(* an executor runs one act of a callback and says whether it raised *)
Definition executor := Z -> st -> act -> st * bool.

(* the statements of a callback in order; an exception ends it *)
Fixpoint run_acts (ex : executor) (self : Z) (l : list act) (s : st) : st * bool :=
  match l with
  | [] => (s, false)
  | a :: t => let '(s', raised) := ex self s a in
              if raised then (s', true) else run_acts ex self t s'
  end.

(* the loop body of do / shuffle_do / map over the list of weak references `order`;
   result: state, agents called (in order), whether a callback raised (the loop is then left at once) *)
Fixpoint visit (ex : executor) (sc : script) (order : list Z) (s : st) : st * list Z * bool :=
  match order with
  | [] => (s, [], false)
  | r :: rest =>
      if alive s r then
        (* agent := agentref()  rebinds the local, the previous agent loses that reference *)
        let s1 := sweep (set_cur (Some r) s) in
        let '(s2, raised) := run_acts ex r (script_of sc r) s1 in
        if raised then (s2, [r], true)
        else let '(s3, log, rz) := visit ex sc rest s2 in (s3, r :: log, rz)
      else
        (* agent := None *)
        visit ex sc rest (sweep (set_cur None s))
  end.

Fixpoint zlist_eqb (a b : list Z) : bool :=
  match a, b with
  | [], [] => true
  | x :: a', y :: b' => (x =? y) && zlist_eqb a' b'
  | _, _ => false
  end.
Definition is_perm (p l : list Z) : bool := zlist_eqb (zsort p) (zsort l).

(* the order in which the references are inspected: the keyrefs() snapshot, or the outcome of
   random.shuffle on a private copy of it (legality checked) *)
Definition visit_order (k : akind) (perm snap : list Z) : option (list Z) :=
  match k with
  | KShuffleDo => if is_perm perm snap then Some perm else None
  | _ => Some snap
  end.

(* one call of do / shuffle_do / map on a set whose members are `snap` at call time; the frame
   (and with it `agent`) is gone when the call returns or the exception leaves it *)
Definition activate (ex : executor) (k : akind) (perm : list Z) (sc : script) (snap : list Z) (s : st)
  : option (st * list Z * bool) :=
  match visit_order k perm snap with
  | None => None
  | Some order =>
      let '(s1, log, rz) := visit ex sc order (push_frame s) in Some (sweep (pop_frame s1), log, rz)
  end.

(* AgentSet.shuffle() (not in place): weakrefs = list(keyrefs()); random.shuffle(weakrefs);
   AgentSet((agent for ref in weakrefs if (agent := ref()) is not None), random) - then .do(...) on
   that temporary set *)
Definition shuffle_new (perm snap : list Z) (s : st) : option (list Z) :=
  if is_perm perm snap then Some (filter (alive s) perm) else None.
Definition shuffle_then_do (ex : executor) (perm : list Z) (sc : script) (snap : list Z) (s : st)
  : option (st * list Z * bool) :=
  match shuffle_new perm snap s with
  | None => None
  | Some m => activate ex KDo [] sc m s
  end.

(* level 0: callbacks that do not start activations themselves (Nested is a no-op) *)
Definition is_raise (a : act) : bool := match a with Raise => true | _ => false end.
Definition ex0 : executor := fun self s a => (exec_act self s a, is_raise a).

(* one level up: a callback may call do / shuffle_do / map on a set; the agents called by that inner
   activation run the script sc2 under the executor `inner`; an exception in there travels out through
   the callback (Nested) unless the callback catches it (TryNested: the inner activation is still
   aborted, its frame is gone, the callback goes on) *)
Definition ex_next (inner : executor) (sc2 : script) : executor := fun self s a =>
  match a with
  | Nested k r perm =>
      match lookup r (sets s) with
      | None => (s, false)
      | Some snap =>
          match activate inner k perm sc2 snap s with
          | None => (set_nlog (nlog s ++ [-3]) s, false)
          | Some (s', log, rz) => (set_nlog (nlog s' ++ (-35 :: log)) s', rz)
          end
      end
  | TryNested k r perm =>
      match lookup r (sets s) with
      | None => (s, false)
      | Some snap =>
          match activate inner k perm sc2 snap s with
          | None => (set_nlog (nlog s ++ [-3]) s, false)
          | Some (s', log, rz) => (set_nlog (nlog s' ++ (-35 :: log) ++ (if rz then [-36] else [])) s', false)
          end
      end
  | _ => ex0 self s a
  end.
Definition ex1 (sc2 : script) : executor := ex_next ex0 sc2.

(* any depth: the callbacks of the activation started at depth i run the i-th script of the list;
   below the last script nesting acts do nothing *)
Fixpoint exN (scs : list script) : executor :=
  match scs with
  | [] => ex0
  | sc2 :: rest => ex_next (exN rest) sc2
  end.

(* a STRONG container of agents (a list, GroupBy(result_type="list").groups) keeps them alive as
   long as it exists *)
Definition hold (l : list Z) (s : st) : st := set_frames (map Some l ++ cur s) s.
Definition release (n : nat) (s : st) : st := set_frames (skipn n (cur s)) s.

(* AgentSet.groupby(by): defaultdict(list) filled in iteration order, one weak AgentSet per key *)
Definition gkey (m a : Z) : Z := a mod m.
Definition group_keys (m : Z) (l : list Z) : list Z := dedup_first Z.eqb (map (gkey m) l).
Definition groups_of (m : Z) (l : list Z) : list (Z * list Z) :=
  map (fun k => (k, filter (fun a => gkey m a =? k) l)) (group_keys m l).

(* GroupBy.do / map: for v in self.groups.values(): getattr(v, method)( *args).  A group is a weak
   set of its own: by the time its turn comes it holds the members still alive.  An exception
   leaves the loop over the groups as well. *)
Fixpoint visit_groups (ex : executor) (k : akind) (sc : script) (gs : list (Z * list Z))
         (perms : list (list Z)) (s : st) : option (st * list (Z * list Z) * bool) :=
  match gs with
  | [] => Some (s, [], false)
  | (key, g) :: gs' =>
      match activate ex k (hd [] perms) sc (filter (alive s) g) s with
      | None => None
      | Some (s1, log1, rz1) =>
          if rz1 then Some (s1, [(key, log1)], true) else
          match visit_groups ex k sc gs' (tl perms) s1 with
          | None => None
          | Some (s2, logs, rz) => Some (s2, (key, log1) :: logs, rz)
          end
      end
  end.

(* groupby(by, result_type="list"): the GroupBy object holds plain lists of agents; GroupBy.do / map
   hand each list to the program's callable, which calls every agent of it (a program loop over strong
   references: liveness is not an issue, every member at groupby time is reached) *)
Fixpoint visit_lists (ex : executor) (sc : script) (gs : list (Z * list Z)) (s : st)
  : st * list (Z * list Z) * bool :=
  match gs with
  | [] => (s, [], false)
  | (key, g) :: gs' =>
      let '(s1, log1, rz1) := visit ex sc g (push_frame s) in
      let s1' := sweep (pop_frame s1) in
      if rz1 then (s1', [(key, log1)], true) else
      let '(s2, logs, rz) := visit_lists ex sc gs' s1' in (s2, (key, log1) :: logs, rz)
  end.
Definition group_lists (ex : executor) (sc : script) (m : Z) (members : list Z) (s : st)
  : st * list (Z * list Z) * bool :=
  let '(s1, logs, rz) := visit_lists ex sc (groups_of m members) (hold members s) in
  (sweep (release (length members) s1), logs, rz).

(* GroupBy.count / agg:  {name: len(group)} / {name: func([getattr(agent, attr) for agent in group])} over
   self.groups.items(): a group is a weak set, its length and its iteration see the living members, in order *)
Definition group_count (gs : list (Z * list Z)) (s : st) : list (Z * Z) :=
  map (fun kg => (fst kg, Z.of_nat (length (filter (alive s) (snd kg))))) gs.
Definition group_agg (f : list Z -> Z) (attr : Z -> Z) (gs : list (Z * list Z)) (s : st) : list (Z * Z) :=
  map (fun kg => (fst kg, f (map attr (filter (alive s) (snd kg))))) gs.
Definition zsum (l : list Z) : Z := fold_right Z.add 0 l.

(* --- histories --- *)
Inductive op :=
| OAct (a : act)                                    (* the program itself, outside any activation *)
| ONewSet (ids : list Z)                            (* AgentSet([those still alive], random) *)
| OCollect                                          (* gc.collect() *)
| OActivate (k : akind) (s : sref) (perm : list Z) (sc : script) (scs : list script) (args : list Z)
| OShuffleThenDo (s : sref) (perm : list Z) (sc : script) (scs : list script) (args : list Z)   (* s.shuffle().do(...) *)
| OGroup (k : akind) (s : sref) (m : Z) (perms : list (list Z)) (sc : script) (scs : list script) (args : list Z)
| OGroupList (s : sref) (m : Z) (sc : script) (scs : list script) (args : list Z)   (* groupby(result_type="list").do/map(callable) *)
| OGroupCount (s : sref) (m : Z)                    (* groupby(...).count() *)
| OGroupAgg (s : sref) (m : Z).                     (* groupby(...).agg("unique_id", sum) *)

(* observation: the registry, the program's references and every set, in order *)
Definition enc_ref (r : sref) : list Z :=
  match r with SAll => [-20] | SType c => [-21; c] | SUser k => [-22; k] end.
Definition view_set (s : st) (r : sref) : list Z :=
  enc_ref r ++ match lookup r (sets s) with Some m => m | None => [-23] end.
Definition all_refs (s : st) : list sref :=
  SAll :: SType 0 :: SType 1 :: SType 2 :: map SUser (zrange 0 (nuser s - 1)).
Definition view (s : st) : list Z :=
  next_id s :: (-10 :: reg s) ++ (-11 :: zsort (ext s)) ++ flat_map (view_set s) (all_refs s).

(* what the callback logs: the agent and the arguments it received; map returns 2*id+1 *)
Definition obs_log (args log : list Z) : list Z := flat_map (fun a => a :: args) log.
Definition obs_ret (k : akind) (raised : bool) (log : list Z) : list Z :=
  if raised then [-37] else
  match k with
  | KMap => -31 :: map (fun a => 2 * a + 1) log
  | _ => [-32]
  end.

Definition obs_activation (k : akind) (args : list Z) (res : st * list Z * bool) : st * list Z :=
  let '(s', log, rz) := res in
  (s', (-30 :: obs_log args log) ++ obs_ret k rz log ++ (-38 :: nlog s') ++ view s').

Definition step (s0 : st) (o : op) : st * list Z :=
  let s := set_nlog [] s0 in
  match o with
  | OAct a => let s' := exec_act (-1) s a in (s', view s')
  | ONewSet ids =>
      let m := dedup_first Z.eqb (filter (alive s) ids) in
      let s' := mkSt (next_id s) (reg s) (ext s) (cur s) (cls s)
                     (sets s ++ [(SUser (nuser s), m)]) (nuser s + 1) (nlog s) in
      (s', view s')
  | OCollect => (s, view s)
  | OActivate k r perm sc scs args =>
      match lookup r (sets s) with
      | None => (s, [-2])
      | Some snap =>
          match activate (exN scs) k perm sc snap s with
          | None => (s, [-3])
          | Some res => obs_activation k args res
          end
      end
  | OShuffleThenDo r perm sc scs args =>
      match lookup r (sets s) with
      | None => (s, [-2])
      | Some snap =>
          match shuffle_then_do (exN scs) perm sc snap s with
          | None => (s, [-3])
          | Some res => obs_activation KDo args res
          end
      end
  | OGroup k r m perms sc scs args =>
      match lookup r (sets s) with
      | None => (s, [-2])
      | Some members =>
          if m <=? 0 then (s, [-2]) else
          match visit_groups (exN scs) k sc (groups_of m members) perms s with
          | None => (s, [-3])
          | Some (s', logs, rz) =>
              (s', flat_map (fun kl => (-34 :: fst kl :: obs_log args (snd kl))) logs
                   ++ (if rz then [-37] else [-32]) ++ (-38 :: nlog s') ++ view s')
          end
      end
  | OGroupList r m sc scs args =>
      match lookup r (sets s) with
      | None => (s, [-2])
      | Some members =>
          if m <=? 0 then (s, [-2]) else
          let '(s', logs, rz) := group_lists (exN scs) sc m members s in
          (s', flat_map (fun kl => (-34 :: fst kl :: obs_log args (snd kl))) logs
               ++ (if rz then [-37] else [-32]) ++ (-38 :: nlog s') ++ view s')
      end
  | OGroupCount r m =>
      match lookup r (sets s) with
      | None => (s, [-2])
      | Some members =>
          if m <=? 0 then (s, [-2]) else
          (s, (-39 :: flat_map (fun kv => [fst kv; snd kv]) (group_count (groups_of m members) s)) ++ view s)
      end
  | OGroupAgg r m =>
      match lookup r (sets s) with
      | None => (s, [-2])
      | Some members =>
          if m <=? 0 then (s, [-2]) else
          (s, (-39 :: flat_map (fun kv => [fst kv; snd kv]) (group_agg zsum (fun a => a) (groups_of m members) s)) ++ view s)
      end
  end.



Fixpoint run_ops (s : st) (ops : list op) : list (list Z) :=
  match ops with
  | [] => []
  | o :: t => let '(s', ob) := step s o in ob :: run_ops s' t
  end.

Definition case := list op.
Definition run_case (c : case) : list (list Z) := run_ops init_st c.
