(* Model of the DATA handed to Matplotlib / Altair by mesa.visualization, and of the
   model-parameter check of SolaraViz.  Transcribed statement by statement from

     mesa/visualization/mpl_space_drawing.py   collect_agent_data, _scatter, draw_hex_grid
                                               (centre formula), draw_network (pos[loc]),
                                               _get_hexmesh (centres), draw_property_layers
     mesa/visualization/components/altair_components.py   _get_agent_data_*, _draw_grid
     mesa/visualization/solara_viz.py          _check_model_params, split_model_params,
                                               check_param_is_fixed

   AS REPAIRED by fixes/C20-*.diff.  Definitions only.

   Units.  All numbers are integers: orthogonal / network / Voronoi locations are the integer
   coordinates themselves; continuous positions are in quarter units; hexagon centres are in
   units (sqrt 3 / 2, 1 / 2), i.e. the code's  x*sqrt3 + p*sqrt3/2 , y*1.5  is (2x+p, 3y);
   marker sizes are reduced fractions (num, den), z-orders are in quarter units; colours and marker shapes are indices into
   the harness palettes (opaque tokens here, index 0 = the default "tab:blue" / "o"). *)
From Coq Require Import ZArith List Bool.
From Mesa Require Import Common.ListX.
From Mesa Require Export Common.VizTypes.
From Mesa Require Import Generated.Tables.
Import ListNotations.
Open Scope Z_scope.


(* lexicographic order on rows, insertion sort: canonical order of an observation *)
Fixpoint lex_leb (a b : list Z) : bool :=
  match a, b with
  | [], _ => true
  | _ :: _, [] => false
  | x :: a', y :: b' => if x <? y then true else if y <? x then false else lex_leb a' b'
  end.
Fixpoint linsert (r : list Z) (l : list (list Z)) : list (list Z) :=
  match l with
  | [] => [r]
  | h :: t => if lex_leb r h then r :: l else h :: linsert r t
  end.
Definition lsort (l : list (list Z)) : list (list Z) := fold_right linsert [] l.

(* ------------------------------------------------------------------ spaces *)
Inductive family := Orth | Hex | Net | Cont | Voro.

Record space := {
  sp_family : family;
  sp_w : Z; sp_h : Z;        (* grid: width/height; continuous: x_max-x_min, y_max-y_min *)
  sp_x0 : Z; sp_y0 : Z;      (* continuous: x_min, y_min (whole units); 0 otherwise *)
  sp_single : bool;          (* at most one agent per cell (SingleGrid, HexSingleGrid, capacity=1) *)
  sp_legacy : bool;          (* mesa.space class: agent.pos is set; otherwise agent.cell *)
  sp_altair : Z;             (* _draw_grid: 1 discrete_space.Grid, 2 space._Grid, 3 legacy continuous, 0 unsupported *)
  sp_points : list coord     (* network: layout position of node i; Voronoi: centroid of cell i *)
}.

Definition in_range (lo x hi : Z) : bool := (lo <=? x) && (x <? hi).

(* is (x, y) an address at which an agent can be put (the history's Place/Move argument) *)
Definition valid_addr (sp : space) (x y : Z) : bool :=
  match sp_family sp with
  | Orth | Hex => in_range 0 x (sp_w sp) && in_range 0 y (sp_h sp)
  | Net | Voro => in_range 0 x (Z.of_nat (length (sp_points sp))) && (y =? 0)
  | Cont => in_range (4 * sp_x0 sp) x (4 * (sp_x0 sp + sp_w sp)) &&
            in_range (4 * sp_y0 sp) y (4 * (sp_y0 sp + sp_h sp))
  end.

(* what agent.pos / agent.cell.coordinate is for that address *)
Definition addr_coord (sp : space) (x y : Z) : coord :=
  match sp_family sp with
  | Voro => nthz x (sp_points sp) (0, 0)
  | _ => (x, y)
  end.

(* --- per-family transformation of the loc column before _scatter --- *)
(* draw_hex_grid:  loc[:,0] = loc[:,0]*x_spacing + ((loc[:,1]-1) % 2)*(x_spacing/2);  loc[:,1] *= y_spacing *)
Definition hex_center (p : coord) : coord :=
  (2 * fst p + (snd p - 1) mod 2, 3 * snd p).      (* = the translated source: Proofs/VizBridge.v *)
(* _get_hexmesh:  x = col*x_spacing + (row % 2 == 0)*(x_spacing/2);  y = row*y_spacing *)
Definition mesh_center (col row : Z) : coord :=
  (2 * col + (if row mod 2 =? 0 then 1 else 0), 3 * row).

Definition draw_loc (sp : space) (p : coord) : coord :=
  match sp_family sp with
  | Hex => hex_center p
  | Net => nthz (fst p) (sp_points sp) (0, 0)      (* pos[arguments["loc"]] *)
  | _ => p
  end.

(* --- default marker size  (180 / max(width, height)) ** 2  as a reduced fraction --- *)
Definition zmax_list (l : list Z) (d : Z) : Z := fold_right Z.max d l.
Definition zmin_list (l : list Z) (d : Z) : Z := fold_right Z.min d l.
Definition span (l : list Z) : Z :=
  match l with [] => 0 | x :: t => zmax_list t x - zmin_list t x end.

Definition extent (sp : space) : Z :=
  match sp_family sp with
  | Orth | Hex | Cont => Z.max (sp_w sp) (sp_h sp)
  | Net | Voro => Z.max (span (map fst (sp_points sp))) (span (map snd (sp_points sp)))
  end.

Definition dflt_size (sp : space) : Z * Z :=
  reduce (gen_viz_size_base * gen_viz_size_base, extent sp * extent sp).   (* 180: re-read from the source (T1) *)

(* ------------------------------------------------------------------ agents and portrayal *)

Definition portrayal := list (Z * pdict).        (* agent kind -> dict *)
Fixpoint portray (pt : portrayal) (k : Z) : pdict :=
  match pt with
  | [] => pd_empty
  | (k', d) :: t => if k =? k' then d else portray t k
  end.

(* defaults of collect_agent_data(color=, marker=, zorder=), re-read from the source (T1) *)
Definition DEF_COLOR : Z := gen_viz_default_color.
Definition DEF_MARKER : Z := gen_viz_default_marker.
Definition DEF_ZORDER : Z := 4 * gen_viz_default_zorder.      (* quarter units *)

(* loc = agent.pos;  if loc is None: loc = agent.cell.coordinate   (None: AttributeError) *)
Definition agent_loc (a : agent) : option coord :=
  match a_pos a with Some p => Some p | None => a_cell a end.


(* portrayal sizes and z-orders are floats in Matplotlib; the histories give them in QUARTER units
   (size 7 = 1.75, zorder 6 = 1.5) so that any truncation / coercion on the way is visible *)
Definition size_of (dflt : Z * Z) (d : pdict) : Z * Z :=
  match pd_size d with Some s => reduce (s, 4) | None => dflt end.

(* one iteration of  for agent in space.agents:  (None = the AttributeError propagates) *)
Definition collect_step (pt : portrayal) (dflt : Z * Z) (acc : option cols) (a : agent) : option cols :=
  match acc with
  | None => None
  | Some c =>
      let d := portray pt (a_kind a) in
      match agent_loc a with
      | None => None
      | Some loc =>
          Some {| cl_loc := cl_loc c ++ [loc];
                  cl_s := cl_s c ++ [size_of dflt d];
                  cl_c := cl_c c ++ [get (pd_color d) DEF_COLOR];
                  cl_m := cl_m c ++ [get (pd_marker d) DEF_MARKER];
                  cl_z := cl_z c ++ [get (pd_zorder d) DEF_ZORDER] |}
      end
  end.
Definition collect (pt : portrayal) (dflt : Z * Z) (agents : list agent) : option cols :=
  fold_left (collect_step pt dflt) agents (Some cols_empty).

Definition mark_row (m : mark) : list Z :=
  [fst (m_loc m); snd (m_loc m); fst (m_s m); snd (m_s m); m_c m; m_m m; m_z m].


(* _scatter:  for mark in set(marker): for z_order in np.unique(zorder): scatter(x[logical], ...)
   set(marker) iterates in an order the statement does not fix: first-occurrence order is used
   here and observations are sorted. *)
Definition scatter (c : cols) : list group :=
  let x := map fst (cl_loc c) in
  let y := map snd (cl_loc c) in
  let marks := dedup_first Z.eqb (cl_m c) in
  let zs := zsort (dedup_first Z.eqb (cl_z c)) in
  flat_map (fun mk =>
    let mark_mask := map (Z.eqb mk) (cl_m c) in
    map (fun z =>
      let zorder_mask := map (Z.eqb z) (cl_z c) in
      let logical := map2 andb mark_mask zorder_mask in
      {| g_marker := mk; g_zorder := z;
         g_x := select logical x; g_y := select logical y;
         g_s := select logical (cl_s c); g_c := select logical (cl_c c) |}) zs) marks.

(* draw_*: collect, transform the loc column, scatter *)
Definition draw_groups (sp : space) (pt : portrayal) (agents : list agent) : option (list group) :=
  match collect pt (dflt_size sp) agents with
  | None => None
  | Some c =>
      Some (scatter {| cl_loc := map (draw_loc sp) (cl_loc c); cl_s := cl_s c; cl_c := cl_c c;
                       cl_m := cl_m c; cl_z := cl_z c |})
  end.
Definition drawn_marks (gs : list group) : list mark := flat_map group_marks gs.

(* ------------------------------------------------------------------ Altair *)
Definition arow_row (r : arow) : list Z :=
  [fst (ar_loc r); snd (ar_loc r);
   oflag (pd_size (ar_d r)); get (pd_size (ar_d r)) 0;
   oflag (pd_color (ar_d r)); get (pd_color (ar_d r)) 0;
   oflag (pd_marker (ar_d r)); get (pd_marker (ar_d r)) 0;
   oflag (pd_zorder (ar_d r)); get (pd_zorder (ar_d r)) 0].

Definition all_cells (w h : Z) : list coord :=
  flat_map (fun x => map (fun y => (x, y)) (zrange 0 (h - 1))) (zrange 0 (w - 1)).

Definition at_cell (p : coord) (a : agent) : bool :=
  match agent_loc a with Some q => coord_eqb p q | None => false end.

(* _get_agent_data_old__discrete_space (coord_iter) and _get_agent_data_new_discrete_space
   (all_cells): for every cell, for every agent in it: x, y are the CELL's coordinates *)
Definition altair_by_cell (pt : portrayal) (cells : list coord) (agents : list agent) : list arow :=
  flat_map (fun p =>
    map (fun a => {| ar_loc := p; ar_d := portray pt (a_kind a) |}) (filter (at_cell p) agents)) cells.

(* _get_agent_data_continuous_space: for agent in space._agent_to_index: x, y = agent.pos *)
Definition altair_by_agent (pt : portrayal) (agents : list agent) : list arow :=
  flat_map (fun a =>
    match a_pos a with
    | Some p => [{| ar_loc := p; ar_d := portray pt (a_kind a) |}]
    | None => []
    end) agents.

Definition E_NOT_IMPLEMENTED : Z := 1.
Definition altair_data (sp : space) (pt : portrayal) (agents : list agent) : option (list arow) :=
  if sp_altair sp =? 1 then Some (altair_by_cell pt (all_cells (sp_w sp) (sp_h sp)) agents)
  else if sp_altair sp =? 2 then Some (altair_by_cell pt (all_cells (sp_w sp) (sp_h sp)) agents)
  else if sp_altair sp =? 3 then Some (altair_by_agent pt agents)
  else None.

(* ------------------------------------------------------------------ property layers *)

Definition clip (lo hi v : Z) : Z := Z.max lo (Z.min hi v).

(* what a pixel / hexagon shows, as an integer (see the decoders in harness/props/C20.py):
   colormap mode, imshow:   the array entry itself
   colormap mode, hexagons: cmap(norm(v)) inverted = v clipped to [vmin, vmax]
   color mode, imshow:      alpha channel clip(normalized * alpha, 0, 1) * 4 (vmax - vmin)
   color mode, hexagons:    alpha channel clip(normalized, 0, 1) * alpha     * 4 (vmax - vmin) *)
Definition shown (fam : family) (color_mode : bool) (vmin vmax a4 v : Z) : Z :=
  match fam, color_mode with
  | Hex, false => clip vmin vmax v
  | Hex, true => clip 0 (vmax - vmin) (v - vmin) * a4
  | _, false => v
  | _, true => clip 0 (4 * (vmax - vmin)) ((v - vmin) * a4)
  end.

(* vmin == vmax (e.g. a CONSTANT layer with the default scale): what reaches Matplotlib
   colormap mode: as above (imshow gets the entries; cmap(norm) of a degenerate Normalize is cmap(0))
   color mode, imshow:   (as repaired, fixes/C20-11) the normalised data is 0 everywhere: alpha 0
   color mode, hexagons: Normalize(vmin = vmax) maps everything to 0: alpha 0 *)
Definition shown_degenerate (fam : family) (color_mode : bool) (lo v : Z) : Z :=
  match fam, color_mode with
  | Hex, false => lo
  | Hex, true => 0
  | _, false => v
  | _, true => 0
  end.

(* --- layer values outside Z: a constant layer of +inf / -inf (float layers may hold them) ---
   extended values and the normalisation expression of the imshow colour mode AS REPAIRED:
     (data - vmin) / (vmax - vmin)  if vmax != vmin  else  zeros
   IEEE: inf - inf = nan, nan != x is True for every x, inf == inf *)
Inductive xz := Fin (z : Z) | PInf | NInf | XNaN.
Definition xeqb (a b : xz) : bool :=
  match a, b with
  | Fin x, Fin y => x =? y
  | PInf, PInf | NInf, NInf => true
  | _, _ => false
  end.
Definition xsub (a b : xz) : xz :=
  match a, b with
  | XNaN, _ | _, XNaN => XNaN
  | Fin x, Fin y => Fin (x - y)
  | PInf, PInf | NInf, NInf => XNaN
  | PInf, _ | Fin _, NInf => PInf
  | NInf, _ | Fin _, PInf => NInf
  end.
(* what the alpha channel of a cell is, as far as the statement cares: exactly 0, NaN, or something else *)
Inductive alpha_kind := AZero | ANaN | AOther.
Definition xdiv_kind (num den : xz) : alpha_kind :=
  match num, den with
  | XNaN, _ | _, XNaN => ANaN
  | Fin 0, Fin d => if d =? 0 then ANaN else AZero
  | Fin _, Fin d => if d =? 0 then AOther else AOther
  | Fin _, _ => AZero                     (* finite / +-inf = 0 *)
  | _, Fin _ => AOther                    (* +-inf / finite = +-inf, clipped *)
  | _, _ => ANaN                          (* inf / inf *)
  end.
Definition alpha_color_mode (v lo hi : xz) : alpha_kind :=
  if negb (xeqb hi lo) then xdiv_kind (xsub v lo) (xsub hi lo) else AZero.
Definition INF : Z := 1000000007.
Definition alpha_code (a : alpha_kind) : Z := match a with AZero => 0 | ANaN => -7 | AOther => -6 end.

(* the value shown for a layer entry, whatever the scale *)
Definition value_shown (fam : family) (color_mode : bool) (lo hi a4 v : Z) : Z :=
  if hi =? lo then shown_degenerate fam color_mode lo v else shown fam color_mode lo hi a4 v.

Fixpoint lookup_coord (p : coord) (l : list (coord * Z)) : option Z :=
  match l with
  | [] => None
  | (q, v) :: t => if coord_eqb p q then Some v else lookup_coord p t
  end.

Definition mesh_centres (w h : Z) : list coord :=
  flat_map (fun row => map (fun col => mesh_center col row) (zrange 0 (w - 1))) (zrange 0 (h - 1)).

(* hexagons = _get_hexmesh(width, height);  colors = data.T.ravel()  (as repaired): the i-th
   hexagon gets the i-th colour *)
Definition hex_layer_pairs (w h : Z) (d : layer) : list (coord * Z) :=
  combine (mesh_centres w h) (ravel (transpose w h d)).

(* ax.imshow(data.T, origin="lower"): pixel (col x, row y) is centred on (x, y) *)
Definition image_at (rows : list (list Z)) (x y : Z) : Z := nthz x (nthz y rows []) 0.

(* the value shown at the drawing position of cell (x, y), for every cell, rows first *)
Definition layer_view (sp : space) (d : layer) : list (option Z) :=
  let w := sp_w sp in let h := sp_h sp in
  flat_map (fun y => map (fun x =>
    match sp_family sp with
    | Hex => lookup_coord (hex_center (x, y)) (hex_layer_pairs w h d)
    | _ => Some (image_at (transpose w h d) x y)
    end) (zrange 0 (w - 1))) (zrange 0 (h - 1)).

(* ------------------------------------------------------------------ _check_model_params *)

(* body of the first loop for one parameter: 0 = nothing raised *)
Definition param_problem (ps : list Z) (p : param) : Z :=
  if (pn p =? SELF) || is_kind VarKw p then 0
  else if is_kind PosOnly p then (if pdef p then 0 else E_POSONLY)
  else if negb (pdef p) && negb (memz (pn p) ps) then E_MISSING
  else 0.

(* body of the second loop for one given name: true = raises "Invalid model parameter" *)
Definition name_invalid (s : list param) (has_kw : bool) (n : Z) : bool :=
  let passable := match lookup_param s n with Some p => kw_passable p | None => false end in
  negb passable && negb has_kw.

(* 0 = returns normally, otherwise the kind of ValueError *)
Definition check (s : list param) (ps : list Z) : Z :=
  if existsb (is_kind VarPos) s then E_VARARGS
  else
    let has_kw := existsb (is_kind VarKw) s in
    let r := first_nonzero (map (param_problem ps) s) in
    if negb (r =? 0) then r
    else if existsb (name_invalid s has_kw) ps then E_INVALID else 0.

(* --- Python's own rule for  the keyword call  cls(STARSTAR params), i.e.  __init__(instance, STARSTAR params) --- *)
(* the one positional argument (the instance) is taken by the first parameter *)
Definition takes_positional (p : param) : bool :=
  is_kind PosOnly p || is_kind PosOrKw p || is_kind VarPos p.
(* keyword n is accepted: it names a keyword-passable parameter that is not already bound
   positionally ("multiple values" otherwise), or is swallowed by **kwargs *)
Definition kw_ok (p0 : param) (rest : list param) (n : Z) : bool :=
  if (pn p0 =? n) && is_kind PosOrKw p0 then false
  else existsb (fun p => (pn p =? n) && kw_passable p) rest
       || existsb (is_kind VarKw) (p0 :: rest).
(* after binding, a parameter other than the first has a value *)
Definition has_value (ps : list Z) (p : param) : bool :=
  match pk p with
  | VarPos | VarKw => true
  | PosOnly => pdef p
  | PosOrKw | KwOnly => memz (pn p) ps || pdef p
  end.
Definition bindable (s : list param) (ps : list Z) : bool :=
  match s with
  | [] => false
  | p0 :: rest => takes_positional p0 && forallb (kw_ok p0 rest) ps && forallb (has_value ps) rest
  end.

(* ------------------------------------------------------------------ split_model_params *)
(* check_param_is_fixed: False / True / True / falls off the end (None) *)
Definition check_param_is_fixed (v : pvalue) : option bool :=
  match v with
  | VSlider _ => Some false
  | VFixed _ => Some true
  | VDictNoType _ => Some true
  | VDictType _ => None
  end.
Definition split_step (acc : list (Z * pvalue) * list (Z * pvalue)) (kv : Z * pvalue) :=
  if truthy (check_param_is_fixed (snd kv)) then (fst acc, snd acc ++ [kv])
  else (fst acc ++ [kv], snd acc).
Definition split_model_params (ps : list (Z * pvalue)) : list (Z * pvalue) * list (Z * pvalue) :=
  fold_left split_step ps ([], []).

(* ------------------------------------------------------------------ histories *)
Record state := { st_agents : list agent; st_layer : option layer }.

Inductive op :=
| Place (id kind x y : Z)          (* put agent id (of that kind) at the address *)
| Move (id x y : Z)
| Remove (id : Z)
| SetKind (id k : Z)               (* changes what the portrayal returns for it *)
| SetLayer (x y v : Z)             (* layer.data[x, y] = v *)
| Collect                          (* collect_agent_data *)
| DrawMpl                          (* draw_space, markers read back from ax.collections *)
| DrawAltair                       (* _draw_grid, chart.data.values *)
| DrawLayer (color_mode : bool) (vmin vmax : option Z) (a4 : Z) (colorbar : bool)
| Check (s : list param) (ps : list Z)
| Split (ps : list (Z * pvalue))
| Creator (s : list param) (ps : list (Z * pvalue))    (* ModelCreator's parameter check *)
| Bind (s : list param) (ps : list Z)                  (* does the keyword call M(k=.., ...) itself succeed *)
| DrawMplC (default_portrayal : bool)      (* make_space_component(backend="matplotlib")(model): the Figure handed to Solara *)
| DrawAltairC (default_portrayal : bool)   (* make_space_component(backend="altair")(model): the Chart handed to Solara *)
| DrawAltairEnc                            (* _draw_grid: the encodings of the chart (from the keys of all rows) *)
| DrawInfLayer (color_mode neg : bool).    (* a second, float layer that is constantly +inf / -inf, drawn with the default
                                              or the explicit degenerate scale *)

Definition find_agent (id : Z) (l : list agent) : option agent := find (fun a => a_id a =? id) l.
Definition occupied (p : coord) (l : list agent) : bool := existsb (at_cell p) l.

Definition mk_agent (sp : space) (id kind : Z) (p : coord) : agent :=
  if sp_legacy sp then {| a_id := id; a_kind := kind; a_pos := Some p; a_cell := None |}
  else if match sp_family sp with Cont => true | _ => false end
       then {| a_id := id; a_kind := kind; a_pos := Some p; a_cell := None |}  (* ContinuousSpaceAgent.pos *)
       else {| a_id := id; a_kind := kind; a_pos := None; a_cell := Some p |}.

(* the agent list is kept in the order the space iterates its agents WITHIN a cell: cell lists
   (legacy MultiGrid content lists, Cell.agents) append on arrival, so a move takes the agent to
   the end; the legacy continuous space iterates the dict _agent_to_index, whose order a move does
   not change.  (Only the Altair encodings, taken from the FIRST row, depend on this order.) *)
Definition moves_to_end (sp : space) : bool := match sp_family sp with Cont => false | _ => true end.
Definition set_loc (sp : space) (id : Z) (p : coord) (l : list agent) : list agent :=
  if moves_to_end sp then
    match find (fun a => a_id a =? id) l with
    | Some a =>
        (* CellAgent.cell = <the cell it is in> returns at once; the legacy move_agent removes and places again *)
        if negb (sp_legacy sp) && at_cell p a then l
        else filter (fun b => negb (a_id b =? id)) l ++ [mk_agent sp id (a_kind a) p]
    | None => l
    end
  else map (fun a => if a_id a =? id then mk_agent sp id (a_kind a) p else a) l.
Definition set_kind (id k : Z) (l : list agent) : list agent :=
  map (fun a => if a_id a =? id
                then {| a_id := a_id a; a_kind := k; a_pos := a_pos a; a_cell := a_cell a |} else a) l.
Definition remove_agent (id : Z) (l : list agent) : list agent :=
  filter (fun a => negb (a_id a =? id)) l.

Fixpoint set_nth {A : Type} (n : nat) (v : A) (l : list A) : list A :=
  match n, l with
  | _, [] => []
  | O, _ :: t => v :: t
  | S n', x :: t => x :: set_nth n' v t
  end.
Definition layer_set (d : layer) (x y v : Z) : layer :=
  set_nth (Z.to_nat x) (set_nth (Z.to_nat y) v (nthz x d [])) d.

(* observations *)
Definition OBS_NOOP : list Z := [-2].
Definition obs_err (k : Z) : list Z := [-1; k].
Definition E_NO_LOCATION : Z := 5.
Definition obs_rows (rows : list (list Z)) : list Z :=
  0 :: Z.of_nat (length rows) :: concat (lsort rows).

Definition cols_marks (c : cols) : list mark :=
  (* the columns of collect_agent_data read back row by row *)
  (fix go (ls : list coord) (ss : list (Z * Z)) (cs ms zs : list Z) : list mark :=
     match ls, ss, cs, ms, zs with
     | l :: ls', s :: ss', c :: cs', m :: ms', z :: zs' =>
         {| m_loc := l; m_s := s; m_c := c; m_m := m; m_z := z |} :: go ls' ss' cs' ms' zs'
     | _, _, _, _, _ => []
     end) (cl_loc c) (cl_s c) (cl_c c) (cl_m c) (cl_z c).

Definition obs_collect (sp : space) (pt : portrayal) (agents : list agent) : list Z :=
  match collect pt (dflt_size sp) agents with
  | None => obs_err E_NO_LOCATION
  | Some c => obs_rows (map mark_row (cols_marks c))
  end.

Definition obs_mpl (sp : space) (pt : portrayal) (agents : list agent) : list Z :=
  match draw_groups sp pt agents with
  | None => obs_err E_NO_LOCATION
  | Some gs => obs_rows (map mark_row (drawn_marks gs))
  end.

Definition obs_altair (sp : space) (pt : portrayal) (agents : list agent) : list Z :=
  match altair_data sp pt agents with
  | None => obs_err E_NOT_IMPLEMENTED
  | Some rows => obs_rows (map arow_row rows)
  end.

Definition layer_min (d : layer) : Z :=
  match ravel d with [] => 0 | x :: t => zmin_list t x end.
Definition layer_max (d : layer) : Z :=
  match ravel d with [] => 0 | x :: t => zmax_list t x end.

Definition obs_layer (sp : space) (d : layer) (color_mode : bool) (vmin vmax : option Z) (a4 : Z)
           (colorbar : bool) : list Z :=
  let lo := get vmin (layer_min d) in
  let hi := get vmax (layer_max d) in
  if hi <? lo then OBS_NOOP      (* vmin > vmax: not generated, not drawn *)
  else
    0 :: sp_h sp :: sp_w sp ::
    map (fun o => match o with
                  | Some v => value_shown (sp_family sp) color_mode lo hi a4 v
                  | None => -9
                  end) (layer_view sp d)
    (* colormap mode on an image: the colour scale handed to imshow (vmin=, vmax=) is the CURRENT one *)
    ++ (match sp_family sp, color_mode with
        | Hex, _ | _, true => []
        | _, false => if hi =? lo then [] else [lo; hi]
        end)
    (* the colour bar never touches the image; its scale is Normalize(vmin, vmax) *)
    ++ (if colorbar then (if hi =? lo then [1]                            (* Matplotlib widens a singular scale itself *)
                          else [1; 2 * lo; 2 * hi])                       (* half units *)
        else [0]).

(* _draw_grid (as repaired): tooltip / color / size encodings from the keys of ALL rows
   (portrayed.setdefault(key, value) over all_agent_data), and the default mark size
   30000 / min(width, height)^2 when there is no size encoding *)
Definition obs_altair_enc (sp : space) (pt : portrayal) (agents : list agent) : list Z :=
  match altair_data sp pt agents with
  | None => obs_err E_NOT_IMPLEMENTED
  | Some rows =>
      let d := rows_union rows in
      let m := Z.min (sp_w sp) (sp_h sp) in
      let ms := if oflag (pd_size d) =? 1 then (0, 1) else reduce (30000, m * m) in
      [0; oflag (pd_color d); oflag (pd_size d); oflag (pd_marker d); oflag (pd_zorder d); fst ms; snd ms]
  end.

(* ModelCreator: model_parameters = {**fixed_params, **{k: v.get("value") for k, v in user_params.items()}} *)
Definition pv_value (v : pvalue) : Z :=
  match v with VFixed x | VSlider x | VDictType x | VDictNoType x => x end.
Definition creator_kwargs (ps : list (Z * pvalue)) : list (Z * Z) :=
  let sp' := split_model_params ps in
  map (fun kv => (fst kv, pv_value (snd kv))) (snd sp') ++ map (fun kv => (fst kv, pv_value (snd kv))) (fst sp').

Definition param_row (kv : Z * pvalue) : list Z :=
  match snd kv with
  | VFixed v => [fst kv; 0; v]
  | VSlider v => [fst kv; 1; v]
  | VDictType v => [fst kv; 2; v]
  | VDictNoType v => [fst kv; 3; v]
  end.
Definition obs_split (ps : list (Z * pvalue)) : list Z :=
  let r := split_model_params ps in
  0 :: Z.of_nat (length (fst r)) :: Z.of_nat (length (snd r)) ::
  concat (map param_row (fst r)) ++ concat (map param_row (snd r)).

Definition step (sp : space) (pt : portrayal) (st : state) (o : op) : state * list Z :=
  let ags := st_agents st in
  match o with
  | Place id kind x y =>
      match find_agent id ags with
      | Some _ => (st, OBS_NOOP)
      | None =>
          if negb (valid_addr sp x y) then (st, OBS_NOOP)
          else let p := addr_coord sp x y in
               if sp_single sp && occupied p ags then (st, OBS_NOOP)
               else let ags' := ags ++ [mk_agent sp id kind p] in
                    ({| st_agents := ags'; st_layer := st_layer st |}, obs_collect sp pt ags')
      end
  | Move id x y =>
      match find_agent id ags with
      | None => (st, OBS_NOOP)
      | Some _ =>
          if negb (valid_addr sp x y) then (st, OBS_NOOP)
          else let p := addr_coord sp x y in
               if sp_single sp && occupied p ags then (st, OBS_NOOP)
               else let ags' := set_loc sp id p ags in
                    ({| st_agents := ags'; st_layer := st_layer st |}, obs_collect sp pt ags')
      end
  | Remove id =>
      match find_agent id ags with
      | None => (st, OBS_NOOP)
      | Some _ => let ags' := remove_agent id ags in
                  ({| st_agents := ags'; st_layer := st_layer st |}, obs_collect sp pt ags')
      end
  | SetKind id k =>
      match find_agent id ags with
      | None => (st, OBS_NOOP)
      | Some _ => let ags' := set_kind id k ags in
                  ({| st_agents := ags'; st_layer := st_layer st |}, obs_collect sp pt ags')
      end
  | SetLayer x y v =>
      match st_layer st with
      | None => (st, OBS_NOOP)
      | Some d =>
          if in_range 0 x (sp_w sp) && in_range 0 y (sp_h sp)
          then ({| st_agents := ags; st_layer := Some (layer_set d x y v) |}, [0])
          else (st, OBS_NOOP)
      end
  | Collect => (st, obs_collect sp pt ags)
  | DrawMpl => (st, obs_mpl sp pt ags)
  | DrawAltair => (st, obs_altair sp pt ags)
  | DrawLayer cm vmin vmax a4 cbar =>
      match st_layer st with
      | None => (st, OBS_NOOP)
      | Some d => (st, obs_layer sp d cm vmin vmax a4 cbar)
      end
  | Check s ps => (st, let r := check s ps in if r =? 0 then [0] else obs_err r)
  | Split ps => (st, obs_split ps)
  | Creator s ps =>
      (* user_params, fixed_params = split_model_params(user_params);
         _check_model_params(model.__class__.__init__, {**fixed_params, **user_params})  (as repaired) *)
      let sp' := split_model_params ps in
      (st, let r := check s (map fst (snd sp' ++ fst sp')) in
           if r =? 0 then obs_rows (map (fun kv => [fst kv; snd kv]) (creator_kwargs ps)) else obs_err r)
  | Bind s ps => (st, [if bindable s ps then 1 else 0])
  | DrawMplC dflt => (st, obs_mpl sp (if dflt then [] else pt) ags)
  | DrawAltairC dflt => (st, obs_altair sp (if dflt then [] else pt) ags)
  | DrawAltairEnc => (st, obs_altair_enc sp pt ags)
  | DrawInfLayer cm neg =>
      match st_layer st with
      | None => (st, OBS_NOOP)
      | Some _ =>
          let c := if neg then NInf else PInf in
          let code := if cm then alpha_code (alpha_color_mode c c c)
                      else match sp_family sp with Hex => 0 | _ => if neg then - INF else INF end in
          (st, 0 :: sp_h sp :: sp_w sp :: map (fun _ => code) (layer_view sp []))
      end
  end.

Fixpoint run_ops (sp : space) (pt : portrayal) (st : state) (ops : list op) : list (list Z) :=
  match ops with
  | [] => []
  | o :: t => let '(st', ob) := step sp pt st o in ob :: run_ops sp pt st' t
  end.

(* the state reached, for the theorems *)
Definition exec (sp : space) (pt : portrayal) (st : state) (ops : list op) : state :=
  fold_left (fun s o => fst (step sp pt s o)) ops st.

Record case := { c_space : space; c_portrayal : portrayal; c_layer : option layer; c_ops : list op }.
Definition init_state (c : case) : state := {| st_agents := []; st_layer := c_layer c |}.
Definition run_case (c : case) : list (list Z) :=
  run_ops (c_space c) (c_portrayal c) (init_state c) (c_ops c).
