(* Executable meaning, on the state of Model/Activation.v, of the CODE FACTS that
   harness/tables/activation_code.py regenerates from mesa/agent.py on every run (Generated/Tables.v:
   act_fn records gen_do_fn, gen_shuffle_do_fn, gen_map_fn, ...), and of the statement orders of
   Model.register_agent / deregister_agent extracted by harness/tables/registry.py (gen_register_order,
   gen_deregister_order, gen_remove_suppresses_keyerror, gen_agent_first_id).  Definitions only;
   Proofs/ActivationBridge.v proves that they are the functions the C04 theorems are about. *)
From Coq Require Import ZArith List Bool.
From Mesa Require Import Common.ListX Generated.Tables Model.Activation.
Import ListNotations.
Open Scope Z_scope.

(* the loop  for ref in order: <agent := ref()>; if guard(live): call(agent)
   `live` = the referent still exists.  Invoking the callable although the referent is gone is
   getattr(None, ...) / method(None, ...): an exception. *)
Fixpoint visit_g (ex : executor) (g : bool -> bool) (sc : script) (order : list Z) (s : st)
  : st * list Z * bool :=
  match order with
  | [] => (s, [], false)
  | r :: rest =>
      let live := alive s r in
      let s1 := sweep (set_cur (if live then Some r else None) s) in
      if g live then
        if live then
          let '(s2, raised) := run_acts ex r (script_of sc r) s1 in
          if raised then (s2, [r], true)
          else let '(s3, log, rz) := visit_g ex g sc rest s2 in (s3, r :: log, rz)
        else (s1, [], true)
      else visit_g ex g sc rest s1
  end.

Definition pick (f : act_fn) (is_str : bool) : act_loop :=
  if af_test f is_str then af_then f else af_else f.

Definition run_loop (ex : executor) (sc : script) (lp : act_loop) (perm snap : list Z) (s : st)
  : option (st * list Z * bool) :=
  match al_src lp with
  | SrcKeyrefs =>
      let '(s1, log, rz) := visit_g ex (al_guard lp) sc snap (push_frame s) in
      Some (sweep (pop_frame s1), log, rz)
  | SrcShuffledKeyrefs =>
      if is_perm perm snap then
        let '(s1, log, rz) := visit_g ex (al_guard lp) sc perm (push_frame s) in
        Some (sweep (pop_frame s1), log, rz)
      else None
  | SrcStrong =>
      let '(s1, log, rz) := visit_g ex (al_guard lp) sc snap (push_frame (hold snap s)) in
      Some (sweep (release (length snap) (pop_frame s1)), log, rz)
  | SrcShuffledStrong =>
      if is_perm perm snap then
        let '(s1, log, rz) := visit_g ex (al_guard lp) sc perm (push_frame (hold snap s)) in
        Some (sweep (release (length snap) (pop_frame s1)), log, rz)
      else None
  | SrcGroups => None
  end.

(* one call of the translated function: is_str = isinstance(method, str) *)
Definition run_fn (ex : executor) (sc : script) (f : act_fn) (is_str : bool) (perm snap : list Z) (s : st)
  : option (st * list Z * bool) :=
  run_loop ex sc (pick f is_str) perm snap s.

(* the facts the model relies on, as a decidable check over all boolean inputs *)
Definition src_ok (k : akind) (x : act_src) : bool :=
  match k, x with
  | KDo, SrcKeyrefs | KMap, SrcKeyrefs | KShuffleDo, SrcShuffledKeyrefs => true
  | _, _ => false
  end.
Definition call_ok (is_str : bool) (c : act_call) : bool :=
  match is_str, c with true, CallByName | false, CallCallable => true | _, _ => false end.
Definition ret_ok (k : akind) (r : act_ret) : bool :=
  match k, r with KDo, RetSelf | KShuffleDo, RetSelf | KMap, RetList => true | _, _ => false end.
Definition loop_ok (k : akind) (is_str : bool) (lp : act_loop) : bool :=
  src_ok k (al_src lp) && Bool.eqb (al_guard lp true) true && Bool.eqb (al_guard lp false) false &&
  call_ok is_str (al_call lp) && al_fwd_args lp && al_fwd_kwargs lp.
Definition fn_ok (k : akind) (f : act_fn) : bool :=
  loop_ok k true (pick f true) && loop_ok k false (pick f false) && ret_ok k (af_ret f).

(* GroupBy.do / map: every group exactly once, in dict order, by name or callable, arguments forwarded *)
Definition gloop_ok (is_str : bool) (lp : act_loop) : bool :=
  match al_src lp with SrcGroups => true | _ => false end && al_guard lp true &&
  call_ok is_str (al_call lp) && al_fwd_args lp && al_fwd_kwargs lp.
Definition gfn_ok (is_map : bool) (f : act_fn) : bool :=
  gloop_ok true (pick f true) && gloop_ok false (pick f false) &&
  match is_map, af_ret f with false, RetSelf | true, RetDict => true | _, _ => false end.

(* --- Model.deregister_agent statement by statement, in the extracted order --- *)
(* AgentSet.remove(agent) on the set stored under key r: KeyError when the key or the member is missing *)
Definition set_remove (r : sref) (a : Z) (s : st) : option st :=
  match lookup r (sets s) with
  | Some m => if memz a m
              then Some (set_sets (upd_sets (fun r' m' => if sref_eqb r' r then remove_z a m' else m') (sets s)) s)
              else None
  | None => None
  end.
Definition dereg_stmt (a : Z) (x : reg_struct) (s : st) : option st :=
  match x with
  | RHard => if memz a (reg s)
             then Some (mkSt (next_id s) (remove_z a (reg s)) (ext s) (cur s) (cls s) (sets s) (nuser s) (nlog s))
             else None
  | RByType => set_remove (SType (class_of s a)) a s
  | RAll => set_remove SAll a s
  end.
(* Agent.remove: with contextlib.suppress(KeyError): the state reached when the KeyError happens stays *)
Fixpoint dereg_run (a : Z) (l : list reg_struct) (s : st) : st :=
  match l with
  | [] => s
  | x :: t => match dereg_stmt a x s with Some s' => dereg_run a t s' | None => s end
  end.

(* --- Model.register_agent statement by statement --- *)
Definition set_add (r : sref) (a : Z) (s : st) : option st :=
  match lookup r (sets s) with
  | Some _ => Some (set_sets (upd_sets (fun r' m' => if sref_eqb r' r then m' ++ [a] else m') (sets s)) s)
  | None => None
  end.
Definition reg_stmt (a c : Z) (x : reg_struct) (s : st) : st :=
  match x with
  | RHard => mkSt (next_id s) (reg s ++ [a]) (ext s) (cur s) (cls s) (sets s) (nuser s) (nlog s)
  | RByType => match set_add (SType c) a s with
               | Some s' => s'
               | None => set_sets (sets s ++ [(SType c, [a])]) s      (* except KeyError: a new AgentSet([agent]) *)
               end
  | RAll => match set_add SAll a s with Some s' => s' | None => s end
  end.
(* Agent.__init__: unique_id = next(_ids[model]); ...; model.register_agent(self); the caller keeps or drops the object *)
Definition create_stmts (order : list reg_struct) (c : Z) (keep : bool) (s : st) : st :=
  let a := next_id s in
  let s0 := mkSt (a + 1) (reg s) (if keep then ext s ++ [a] else ext s) (cur s) ((a, c) :: cls s) (sets s) (nuser s) (nlog s) in
  fold_left (fun st x => reg_stmt a c x st) order s0.

(* --- GroupBy.do / map of the translated code: the group loop --- *)
(* for v in self.groups.values(): <if guard:> gm(v)   where gm is what `method` denotes on a group: for the
   str form the AgentSet method of that name (one of the translated functions), applied to the group's
   living members at that moment; an exception leaves the loop *)
Fixpoint gvisit (call : bool) (gm : list Z -> list Z -> st -> option (st * list Z * bool))
         (gs : list (Z * list Z)) (perms : list (list Z)) (s : st) : option (st * list (Z * list Z) * bool) :=
  match gs with
  | [] => Some (s, [], false)
  | (key, g) :: gs' =>
      if call then
        match gm (hd [] perms) (filter (alive s) g) s with
        | None => None
        | Some (s1, log1, rz1) =>
            if rz1 then Some (s1, [(key, log1)], true) else
            match gvisit call gm gs' (tl perms) s1 with
            | None => None
            | Some (s2, logs, rz) => Some (s2, (key, log1) :: logs, rz)
            end
        end
      else gvisit call gm gs' (tl perms) s
  end.

Definition run_gfn (ex : executor) (sc : script) (gf : act_fn) (is_str : bool)
           (inner : act_fn) (inner_is_str : bool) (gs : list (Z * list Z)) (perms : list (list Z)) (s : st)
  : option (st * list (Z * list Z) * bool) :=
  let lp := pick gf is_str in
  match al_src lp with
  | SrcGroups => gvisit (al_guard lp true) (fun perm snap s' => run_fn ex sc inner inner_is_str perm snap s') gs perms s
  | _ => None
  end.

(* --- GroupBy.count / agg of the translated code --- *)
Definition run_gcomp (c : grp_comp) (f : list Z -> Z) (attr : Z -> Z) (gs : list (Z * list Z)) (s : st) : list (Z * Z) :=
  if gc_over_items c && gc_key_is_name c then
    map (fun kg => (fst kg,
                    match gc_val c with
                    | GVLen => Z.of_nat (length (filter (alive s) (snd kg)))
                    | GVFuncOfAttrs => f (map attr (filter (alive s) (snd kg)))
                    | GVOther => -1
                    end)) gs
  else [].
Definition gcomp_ok (is_agg : bool) (c : grp_comp) : bool :=
  gc_over_items c && gc_key_is_name c &&
  match is_agg, gc_val c with false, GVLen | true, GVFuncOfAttrs => true | _, _ => false end.
