(* Model of mesa/space.py  class ContinuousSpace (legacy), statement by statement, following the
   code as repaired by fixes/C10-1 (place_agent validates before registering), C10-2 (empty
   space), C10-3 (float cache).  Definitions only.

   Python state                                   model
   self._agent_to_index  dict agent -> idx|None   l_a2i : insertion-ordered assoc list
   self._index_to_agent  dict idx -> agent        l_i2a : list (keys are 0..len-1 by construction)
   self._agent_points    None | ndarray (n,2)     l_points : option (list point)
   agent.pos             None | (x, y)            l_pos : assoc list (absent = None)             *)
From Coq Require Import ZArith List Bool.
From Mesa Require Import Common.ListX Model.ContGeom.
Import ListNotations.
Open Scope Z_scope.

Record lcfg := { lc_bounds : bounds; lc_torus : bool }.

Record lstate := {
  l_a2i : list (Z * option nat);
  l_i2a : list Z;
  l_points : option (list point);
  l_pos : list (Z * point);
  l_gone : list Z          (* agents whose Agent.remove() was called: deregistered from the MODEL (not from the space) *)
}.

Definition l_init : lstate := {| l_a2i := []; l_i2a := []; l_points := None; l_pos := []; l_gone := [] |}.

(* torus_adj   space.py:1492-1509 *)
Definition torus_adj (c : lcfg) (p : point) : result point :=
  if negb (oob_half (lc_bounds c) p) then Ok p
  else if negb (lc_torus c) then Err E_OOB
  else Ok (wrap (lc_bounds c) p).

Definition is_member (a : Z) (s : lstate) : bool := mem a (akeys (l_a2i s)).

(* _build_agent_cache   space.py:1350-1357 *)
Fixpoint reindex (i : nat) (l : list (Z * option nat)) : list (Z * option nat) :=
  match l with
  | [] => []
  | (a, _) :: t => (a, Some i) :: reindex (S i) t
  end.
Definition pos_or_none (s : lstate) (a : Z) : point :=
  match aget a (l_pos s) with Some p => p | None => [] end.
Definition build_cache (s : lstate) : lstate :=
  {| l_a2i := reindex 0 (l_a2i s);
     l_i2a := akeys (l_a2i s);
     l_points := Some (map (pos_or_none s) (akeys (l_a2i s)));
     l_pos := l_pos s; l_gone := l_gone s |}.

Inductive lop :=
| LPlace (a : Z) (p : point)
| LMove (a : Z) (p : point)
| LRemove (a : Z)
| LNeighbors (q : point) (r : Z) (ic : bool)
| LDistance (p q : point)
| LHeading (p q : point)
| LAgentRemove (a : Z).     (* agent.remove() of a plain mesa.Agent: model.deregister_agent(agent) - and NOTHING about
                               the legacy space (mesa/agent.py Agent.remove; the docstring tells users to extend it) *)

Definition gone_step (g : list Z) (o : lop) : list Z :=
  match o with
  | LAgentRemove a => if mem a g then g else a :: g      (* a second remove() is swallowed (suppress(KeyError)) *)
  | _ => g
  end.

(* get_neighbors on a state whose cache is built   space.py:1426-1434 *)
Definition neighbors_of (c : lcfg) (i2a : list Z) (rows : list point) (q : point) (r : Z) (ic : bool)
  : list Z :=
  flat_map (fun ar : Z * point =>
              let d := dist2 (lc_torus c) (lc_bounds c) (snd ar) q in
              if (d <=? r * r) && (ic || (d >? 0)) then [fst ar] else [])
           (combine i2a rows).

(* result: state left behind, and Ok payload / Err kind / None = the call was not issued (no-op) *)
Definition lstep (c : lcfg) (s : lstate) (o : lop) : lstate * option (result (list Z)) :=
  match o with
  | LPlace a p =>
      (* an agent that is already placed may be placed again: the decorator only WARNS; the body then runs as for
         a new agent - the existing dictionary key keeps its place, the cache is dropped, pos is overwritten *)
      if negb (dim_ok (lc_bounds c) p)
      then (s, None)
      else
        match torus_adj c p with                                        (* fix C10-1: first *)
        | Err k => (s, Some (Err k))
        | Ok p' =>
            ({| l_a2i := aset a None (l_a2i s);                          (* :1373 *)
                l_i2a := [];                                            (* :1372 invalidate *)
                l_points := None;
                l_pos := aset a p' (l_pos s); l_gone := l_gone s |}, Some (Ok []))   (* :1375 *)
        end
  | LMove a p =>
      if negb (dim_ok (lc_bounds c) p) || negb (is_member a s) then (s, None)
      else
        match torus_adj c p with                                        (* :1384 *)
        | Err k => (s, Some (Err k))
        | Ok p' =>
            let s1 := {| l_a2i := l_a2i s; l_i2a := l_i2a s; l_points := l_points s;
                         l_pos := aset a p' (l_pos s); l_gone := l_gone s |} in    (* :1385 *)
            match l_points s with
            | None => (s1, Some (Ok []))
            | Some rows =>                                              (* :1387-1391 *)
                match aget a (l_a2i s) with
                | Some (Some idx) =>
                    if Nat.ltb idx (length rows)
                    then ({| l_a2i := l_a2i s; l_i2a := l_i2a s;
                             l_points := Some (list_set idx p' rows);
                             l_pos := l_pos s1; l_gone := l_gone s |}, Some (Ok []))
                    else (s1, Some (Err E_INDEX))
                | _ => (s1, Some (Err E_INDEX))
                end
            end
        end
  | LRemove a =>
      if negb (is_member a s) then (s, Some (Err E_NOTIN))               (* :1399-1400 *)
      else ({| l_a2i := adel a (l_a2i s); l_i2a := []; l_points := None;
               l_pos := adel a (l_pos s); l_gone := l_gone s |}, Some (Ok []))  (* :1401-1404 *)
  | LNeighbors q r ic =>
      if negb (dim_ok (lc_bounds c) q) then (s, None)
      else
      match l_a2i s with
      | [] => (s, Some (Ok [0]))                                        (* fix C10-2 *)
      | _ =>
          let s1 := match l_points s with None => build_cache s | Some _ => s end in
          let rows := match l_points s1 with Some rows => rows | None => [] end in
          let res := neighbors_of c (l_i2a s1) rows q r ic in
          (s1, Some (Ok ((if has_dup res then 1 else 0) :: zsort res)))
      end
  | LDistance p q =>
      if negb (dim_ok (lc_bounds c) p && dim_ok (lc_bounds c) q) then (s, None)
      else (s, Some (Ok [dist2 (lc_torus c) (lc_bounds c) p q]))
  | LHeading p q =>
      if negb (dim_ok (lc_bounds c) p && dim_ok (lc_bounds c) q) then (s, None)
      else (s, Some (Ok (diffv (lc_torus c) (lc_bounds c) p q)))
  | LAgentRemove a =>
      ({| l_a2i := l_a2i s; l_i2a := l_i2a s; l_points := l_points s; l_pos := l_pos s;
          l_gone := gone_step (l_gone s) o |}, Some (Ok []))
  end.

(* what the property talks about: space.agents IN ORDER (AgentSet(list(self._agent_to_index)): dict insertion order)
   with agent.pos, and which agents carry a pos *)
Definition l_view (s : lstate) : list Z :=
  Z.of_nat (length (l_a2i s))
  :: obs_rows_in_order (map (fun a => a :: match aget a (l_pos s) with Some p => p | None => [-999999] end)
                   (akeys (l_a2i s)))
  ++ SEP :: zsort (akeys (l_pos s))
  ++ SEP :: zsort (l_gone s).

Definition l_obs (s : lstate) (r : option (result (list Z))) : list Z :=
  match r with
  | None => obs_noop
  | Some (Err k) => obs_err k ++ SEP :: l_view s
  | Some (Ok v) => v ++ SEP :: l_view s
  end.

Fixpoint l_run (c : lcfg) (s : lstate) (ops : list lop) : list (list Z) :=
  match ops with
  | [] => []
  | o :: t => let '(s', r) := lstep c s o in l_obs s' r :: l_run c s' t
  end.

Fixpoint l_final (c : lcfg) (s : lstate) (ops : list lop) : lstate :=
  match ops with
  | [] => s
  | o :: t => l_final c (fst (lstep c s o)) t
  end.
