(* Model of the cell spaces of mesa/discrete_space (C06, cell-space sites of C18), transcribed
   statement by statement from
     cell_agent.py : HasCell.cell setter, FixedCell.cell setter, BasicMovement.move_to /
                     move_relative, CellAgent.remove, FixedAgent.remove, Grid2DMovingAgent.move
     cell.py       : Cell.add_agent, Cell.remove_agent, is_empty, is_full, agents
     discrete_space.py / grid.py : empties, agents, select_random_empty_cell (both strategies)
   AS REPAIRED by fixes/C06-1..4 (a rejected placement / move changes nothing).

   The topology is data: e_conn c d = cell.connections.get(d) of the real space, so orthogonal
   Moore / von Neumann grids of any dimension, hex grids, networks and Voronoi meshes share this
   model.  Capacity is per cell (VoronoiGrid sets it per cell).  Definitions only. *)
From Coq Require Import ZArith List Bool.
From Mesa Require Import Common.ListX Common.CellState Generated.Tables.
Export CS.
Import ListNotations.
Open Scope Z_scope.

Definition init : state :=
  {| content := fun _ => []; flag := fun _ => true; ptr := fun _ => None; reg := fun _ => true |}.

Inductive result :=
| Ok (r : list Z)
| Err (kind : Z)
| NotApplicable       (* the op names an agent / cell that does not exist, or a method the class lacks *)
| Illegal.            (* the recorded random outcome is not a legal one *)

(* ---------------------------------------------------------------- cell.py *)
(* is_empty: len(self.agents) == 0 *)
Definition is_empty (s : state) (c : Z) : bool := is_nil (content s c).
(* is_full: len(self.agents) == self.capacity *)
Definition is_full (e : env) (s : state) (c : Z) : bool :=
  match e_cap e c with Some k => zlen (content s c) =? k | None => false end.

(* the test inside add_agent:  self.capacity and n >= self.capacity *)
Definition rejects (e : env) (s : state) (c : Z) : bool :=
  match e_cap e c with Some k => negb (k =? 0) && (zlen (content s c) >=? k) | None => false end.

(* add_agent: n = len; self.empty = False; raise if full; append *)
Definition add_agent (e : env) (s : state) (c a : Z) : state * option Z :=
  let s1 := set_flag s c false in
  if rejects e s c then (s1, Some E_FULL)
  else (set_content s1 c (content s c ++ [a]), None).

(* remove_agent: self._agents.remove(agent) (ValueError when absent); self.empty = self.is_empty *)
Definition remove_agent (s : state) (c a : Z) : state * option Z :=
  if memz a (content s c) then
    let l := remove_first a (content s c) in
    (set_flag (set_content s c l) c (is_nil l), None)
  else (s, Some E_NOTIN).

(* ---------------------------------------------------------------- cell_agent.py *)
(* HasCell.cell setter (repaired):
     old_cell = self._mesa_cell
     if cell is old_cell: return
     if cell is not None: cell.add_agent(self)
     if old_cell is not None: old_cell.remove_agent(self)
     self._mesa_cell = cell *)
Definition set_cell (e : env) (s : state) (a : Z) (tgt : option Z) : state * result :=
  if opt_eqb (ptr s a) tgt then (s, Ok [])
  else
    let '(s1, r1) := match tgt with Some c => add_agent e s c a | None => (s, None) end in
    match r1 with
    | Some er => (s1, Err er)
    | None =>
        let '(s2, r2) := match ptr s a with Some c0 => remove_agent s1 c0 a | None => (s1, None) end in
        match r2 with
        | Some er => (s2, Err er)
        | None => (set_ptr s2 a tgt, Ok [])
        end
    end.

(* FixedCell.cell setter (repaired):
     if self.cell is not None: raise ValueError
     cell.add_agent(self)         # AttributeError when cell is None
     self._mesa_cell = cell *)
Definition fixed_set (e : env) (s : state) (a : Z) (tgt : option Z) : state * result :=
  match ptr s a with
  | Some _ => (s, Err E_FIXED)
  | None =>
      match tgt with
      | None => (s, Err E_ATTR)
      | Some c =>
          let '(s1, r1) := add_agent e s c a in
          match r1 with
          | Some er => (s1, Err er)
          | None => (set_ptr s1 a (Some c), Ok [])
          end
      end
  end.

(* agent.cell = tgt, by class *)
Definition assign (e : env) (s : state) (a : Z) (tgt : option Z) : state * result :=
  match e_kind e a with
  | KFixed => fixed_set e s a tgt
  | _ => set_cell e s a tgt
  end.

(* BasicMovement.move_relative *)
Definition move_relative (e : env) (s : state) (a : Z) (d : list Z) : state * result :=
  match ptr s a with
  | None => (s, Err E_ATTR)                       (* self.cell.connections with cell None *)
  | Some c0 =>
      match e_conn e c0 d with
      | Some c1 => set_cell e s a (Some c1)
      | None => (s, Err E_NODIR)
      end
  end.

(* the path of Grid2DMovingAgent.move: `distance` times cell.connections.get(move_vector) *)
Fixpoint walk (e : env) (v : list Z) (n : nat) (c : Z) : option Z :=
  match n with
  | O => Some c
  | S n' => match e_conn e c v with Some c' => walk e v n' c' | None => None end
  end.

(* Grid2DMovingAgent.move (repaired): validate the name, walk the whole path, assign once *)
Definition move2d (e : env) (s : state) (a : Z) (name : list Z) (k : Z) : state * result :=
  match lookup_dir (e_dirs e) (lower name) with
  | None => (s, Err E_BADDIR)
  | Some v =>
      if k <=? 0 then set_cell e s a (ptr s a)      (* empty range: self.cell = self.cell *)
      else
        match ptr s a with
        | None => (s, Err E_ATTR)
        | Some c0 =>
            match walk e v (Z.to_nat k) c0 with
            | Some c1 => set_cell e s a (Some c1)
            | None => (s, Err E_NODIR)
            end
        end
  end.

(* CellAgent.remove:  super().remove(); self.cell = None
   FixedAgent.remove (repaired): super().remove(); if self.cell is not None and self in self.cell.agents:
   self.cell.remove_agent(self)   (the pointer is left on its value; a second remove() is a no-op) *)
Definition remove (e : env) (s : state) (a : Z) : state * result :=
  let s0 := set_reg s a false in
  match e_kind e a with
  | KFixed =>
      match ptr s a with
      | None => (s0, Ok [])
      | Some c =>
          if memz a (content s c) then
            let '(s1, r1) := remove_agent s0 c a in
            match r1 with Some er => (s1, Err er) | None => (s1, Ok []) end
          else (s0, Ok [])
      end
  | _ => set_cell e s0 a None
  end.

(* Model.remove_all_agents:  for agent in list(self._agents.keys()): agent.remove()
   (registration order = creation order = agent number; the first exception ends the loop) *)
Fixpoint remove_list (e : env) (s : state) (l : list Z) : state * result :=
  match l with
  | [] => (s, Ok [])
  | a :: t =>
      let '(s1, r) := remove e s a in
      match r with
      | Ok _ => remove_list e s1 t
      | _ => (s1, r)
      end
  end.

(* ---------------------------------------------------------------- discrete_space.py / grid.py *)
Definition in_cells (e : env) (c : Z) : bool := (0 <=? c) && (c <? e_ncells e).
Definition in_agents (e : env) (a : Z) : bool := (1 <=? a) && (a <=? e_nagents e).

(* empties: all_cells.select(lambda cell: cell.is_empty) *)
Definition empties (e : env) (s : state) : list Z := filter (is_empty s) (cells_dom e).
(* all_cells.agents: chain of the cells' agent lists *)
Definition all_agents (e : env) (s : state) : list Z := flat_map (content s) (cells_dom e).
(* space.agents: AgentSet over that chain (a set) *)
Definition space_agents (e : env) (s : state) : list Z := dedup_first Z.eqb (all_agents e s).

(* select_random_empty_cell.  Grid with _try_random: draw cells until one is_empty (loops for ever when
   none is; never run, reported as E_LOOP).  Otherwise random.choice(list(self.empties)) (IndexError when
   there is none).  The drawn cell is an input; it is legal iff it is a cell that is empty now. *)
Definition random_empty (e : env) (s : state) (try_random : bool) (outcome : option Z)
  : option Z * result :=
  match empties e s with
  | [] => (None, Err (if e_grid e && try_random then E_LOOP else E_NOEMPTY))
  | _ =>
      match outcome with
      | Some c => if in_cells e c && is_empty s c then (Some c, Ok [c]) else (None, Illegal)
      | None => (None, Illegal)
      end
  end.

(* ---------------------------------------------------------------- histories *)
Inductive op :=
| SetCell (a : Z) (c : option Z)          (* a.cell = cell / a.cell = None *)
| MoveTo (a c : Z)                        (* a.move_to(cell) *)
| MoveRel (a : Z) (d : list Z)            (* a.move_relative(direction) *)
| Move2D (a : Z) (name : list Z) (k : Z)  (* a.move(name, k) *)
| Remove (a : Z)                          (* a.remove() *)
| RemoveAll                               (* model.remove_all_agents() *)
| RandomEmpty (try_random : bool) (outcome : option Z)            (* space.select_random_empty_cell() *)
| PlaceRandomEmpty (a : Z) (try_random : bool) (outcome : option Z).  (* a.cell = space.select_random_empty_cell() *)

Definition is_fixed (k : akind) : bool := match k with KFixed => true | _ => false end.
Definition is_grid2d (k : akind) : bool := match k with KGrid2D => true | _ => false end.

Definition step (e : env) (s : state) (o : op) : state * result :=
  match o with
  | SetCell a tgt =>
      if in_agents e a && match tgt with Some c => in_cells e c | None => true end
      then assign e s a tgt else (s, NotApplicable)
  | MoveTo a c =>
      if in_agents e a && in_cells e c && negb (is_fixed (e_kind e a))
      then set_cell e s a (Some c) else (s, NotApplicable)
  | MoveRel a d =>
      if in_agents e a && negb (is_fixed (e_kind e a))
      then move_relative e s a d else (s, NotApplicable)
  | Move2D a name k =>
      if in_agents e a && is_grid2d (e_kind e a)
      then move2d e s a name k else (s, NotApplicable)
  | Remove a =>
      if in_agents e a then remove e s a else (s, NotApplicable)
  | RemoveAll => remove_list e s (filter (reg s) (agents_dom e))
  | RandomEmpty tr out => (s, snd (random_empty e s tr out))
  | PlaceRandomEmpty a tr out =>
      if in_agents e a then
        match random_empty e s tr out with
        | (Some c, _) => assign e s a (Some c)
        | (None, r) => (s, r)
        end
      else (s, NotApplicable)
  end.

(* ---------------------------------------------------------------- observation *)
Definition b2z (b : bool) : Z := if b then 1 else 0.
Definition enc_result (r : result) : list Z :=
  match r with
  | Ok l => 0 :: l
  | Err k => [-1; k]
  | NotApplicable => [-2]
  | Illegal => [-3]
  end.

(* everything the property talks about, after every operation *)
Definition view (e : env) (s : state) : list Z :=
  flat_map (fun a => [match ptr s a with Some c => c | None => -1 end; b2z (reg s a)]) (agents_dom e)
  ++ [-4]
  ++ flat_map (fun c => zlen (content s c) :: content s c
                        ++ [b2z (is_empty s c); b2z (is_full e s c)]
                        ++ (if e_grid e then [b2z (flag s c)] else [])) (cells_dom e)
  ++ [-5] ++ empties e s
  ++ [-6] ++ zsort (all_agents e s)
  ++ [-7] ++ zsort (space_agents e s).

Definition obs (e : env) (s : state) (r : result) : list Z := enc_result r ++ view e s.

Fixpoint exec (e : env) (s : state) (ops : list op) : state :=
  match ops with
  | [] => s
  | o :: t => exec e (fst (step e s o)) t
  end.

Fixpoint run_ops (e : env) (s : state) (ops : list op) : list (list Z) :=
  match ops with
  | [] => []
  | o :: t => let '(s', r) := step e s o in obs e s' r :: run_ops e s' t
  end.

(* ---------------------------------------------------------------- cases (data from the real space) *)
Record case := {
  c_ncells : Z;
  c_caps : list (option Z);                 (* cell.capacity, by cell index *)
  c_conn : list (list Z * list Z);          (* direction key -> for every cell the target index, -1 = none *)
  c_grid : bool;
  c_kinds : list akind;                     (* agents 1.. *)
  c_ops : list op
}.

Fixpoint lookup_row (tbl : list (list Z * list Z)) (d : list Z) : option (list Z) :=
  match tbl with
  | [] => None
  | (k, row) :: t => if zlist_eqb k d then Some row else lookup_row t d
  end.

Definition env_of_case (c : case) : env :=
  {| e_ncells := c_ncells c;
     e_nagents := Z.of_nat (length (c_kinds c));
     e_cap := fun i => if (0 <=? i) && (i <? c_ncells c) then nth (Z.to_nat i) (c_caps c) None else None;
     e_conn := fun i d =>
       if (0 <=? i) && (i <? c_ncells c) then
         match lookup_row (c_conn c) d with
         | Some row => let t := nth (Z.to_nat i) row (-1) in if t <? 0 then None else Some t
         | None => None
         end
       else None;
     e_grid := c_grid c;
     e_kind := fun a => nth (Z.to_nat (a - 1)) (c_kinds c) KCell;
     e_dirs := gen_direction_map |}.

Definition run_case (c : case) : list (list Z) := run_ops (env_of_case c) init (c_ops c).
