(* Model of the legacy NetworkGrid of mesa/space.py (placement on graph nodes), statement by statement:
     place_agent   : self.G.nodes[node_id]["agent"].append(agent); agent.pos = node_id       (KeyError for an unknown node)
     remove_agent  : node_id = agent.pos; self.G.nodes[node_id]["agent"].remove(agent); agent.pos = None
     move_agent    : KeyError for an unknown node FIRST (fixes/C08-4); self.remove_agent(agent); self.place_agent(agent, node_id)
     is_cell_empty, get_cell_list_contents / iter_cell_list_contents, get_all_cell_contents, agents
   The graph's edges play no role here (neighbourhoods are C09).  Definitions only. *)
From Coq Require Import ZArith List Bool.
From Mesa Require Import Common.ListX Model.LegacyGrid.
Import ListNotations.
Open Scope Z_scope.

Record nstate := {
  ncell : Z -> list agent;       (* G.nodes[n]["agent"] *)
  npos : agent -> option Z       (* agent.pos *)
}.
Definition ninit : nstate := {| ncell := fun _ => []; npos := fun _ => None |}.

Definition upd_n {A : Type} (f : Z -> A) (n : Z) (v : A) : Z -> A := fun m => if m =? n then v else f m.

Definition E_KEY : Z := 8.     (* KeyError: no such node *)

Definition is_node (nodes : list Z) (n : Z) : bool := zmemb n nodes.

Definition nplace (nodes : list Z) (s : nstate) (a : agent) (n : Z) : nstate * res :=
  if is_node nodes n then
    ({| ncell := upd_n (ncell s) n (ncell s n ++ [a]); npos := upd_a (npos s) a (Some n) |}, Ok [])
  else (s, Err E_KEY).

Definition nremove (nodes : list Z) (s : nstate) (a : agent) : nstate * res :=
  match npos s a with
  | None => (s, Err E_KEY)                                  (* G.nodes[None] *)
  | Some n =>
    if is_node nodes n then
      if zmemb a (ncell s n)
      then ({| ncell := upd_n (ncell s) n (remove_first a (ncell s n)); npos := upd_a (npos s) a None |}, Ok [])
      else (s, Err E_INTERNAL)                              (* list.remove: not in list *)
    else (s, Err E_KEY)
  end.

Definition nbind (x : nstate * res) (f : nstate -> nstate * res) : nstate * res :=
  match x with
  | (s, Ok _) => f s
  | (s, r) => (s, r)
  end.

(* as repaired by fixes/C08-4:  if node_id not in self.G.nodes: raise KeyError(node_id)  comes first *)
Definition nmove (nodes : list Z) (s : nstate) (a : agent) (n : Z) : nstate * res :=
  if is_node nodes n then nbind (nremove nodes s a) (fun s1 => nplace nodes s1 a n)
  else (s, Err E_KEY).

(* iter_cell_list_contents: chain of the agent lists of the non-empty nodes, in the order given *)
Definition ncontents (s : nstate) (l : list Z) : list agent :=
  flat_map (ncell s) (filter (fun n => negb (is_nil (ncell s n))) l).

Inductive nop :=
| NPlace (a : agent) (n : Z)
| NRemove (a : agent)
| NMove (a : agent) (n : Z)
| NIsEmpty (n : Z)
| NCellList (l : list Z)
| NAll                        (* get_all_cell_contents *)
| NAgents.                    (* the agents property *)

Definition nplaced (s : nstate) (a : agent) : bool := match npos s a with None => false | Some _ => true end.

Definition nstep (nodes : list Z) (s : nstate) (o : nop) : nstate * res :=
  match o with
  | NPlace a n => if nplaced s a then (s, Skip) else nplace nodes s a n
  | NRemove a => if nplaced s a then nremove nodes s a else (s, Skip)
  | NMove a n => if nplaced s a then nmove nodes s a n else (s, Skip)
  | NIsEmpty n => if is_node nodes n then (s, Ok [b2z (is_nil (ncell s n))]) else (s, Skip)
  | NCellList l =>
    if forallb (is_node nodes) l
    then let r := ncontents s l in (s, Ok (b2z (has_dup r) :: zsort r)) else (s, Skip)
  | NAll => let r := ncontents s nodes in (s, Ok (b2z (has_dup r) :: zsort r))
  | NAgents => let r := flat_map (ncell s) nodes in (s, Ok (b2z (has_dup r) :: zsort r))
  end.

Definition nobs_state (nodes : list Z) (n : Z) (s : nstate) : list Z :=
  map (fun a => match npos s a with None => -1 | Some m => m end) (zrange 1 n)
  ++ (-7) :: flat_map (fun m => obs_cell (ncell s m)) nodes.

Fixpoint nrun (nodes : list Z) (s : nstate) (ops : list nop) : nstate :=
  match ops with
  | [] => s
  | o :: t => nrun nodes (fst (nstep nodes s o)) t
  end.

Fixpoint nrun_obs (nodes : list Z) (n : Z) (s : nstate) (ops : list nop) : list (list Z) :=
  match ops with
  | [] => []
  | o :: t =>
    let '(s', r) := nstep nodes s o in
    (obs_res r ++ (-8) :: nobs_state nodes n s') :: nrun_obs nodes n s' t
  end.

Record ncase := { nk_nodes : list Z; nk_n : Z; nk_ops : list nop }.
Definition run_ncase (k : ncase) : list (list Z) := nrun_obs (nk_nodes k) (nk_n k) ninit (nk_ops k).

(* one entry point for the correspondence check: a history is either a grid history or a network history *)
Inductive anycase := GridCase (k : case) | NetCase (k : ncase).
Definition run_any (k : anycase) : list (list Z) :=
  match k with GridCase g => run_case g | NetCase n => run_ncase n end.
