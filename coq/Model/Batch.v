(* Model of mesa/batchrunner.py as repaired by fixes/C13-1..3:
     _make_model_kwargs   (strings / non-iterables are single values, empty list|tuple|set rejected, cartesian
                           product in dict order, last parameter varying fastest)
     batch_run            (run ids 0.. over iterations x combinations; results of the runs concatenated)
     _model_run_func      (while running and steps < max_steps: step(); report every period-th collected step
                           and the last collection)
     _collect_data        (model vars and agent records of the LAST collection made at the reported step)
   The model class batch-run is harness/props/batch_models.py:BM, a parameterised script over the world and
   collector of Model/DataCollector.v.  Definitions only. *)
From Coq Require Import ZArith List Bool.
From Mesa Require Import Common.ListX Model.DataCollector.
Import ListNotations.
Open Scope Z_scope.

(* ---- the design ---- *)
Definition kw := list (Z * Z).                      (* keyword arguments: name code -> value code *)
Inductive pspec :=
| PSingle (v : Z)          (* a string or a non-iterable: one value *)
| PMany (vs : list Z)      (* list / tuple / range / ...: its elements (a range may be empty) *)
| PEmptySeq.               (* list, tuple or set of length 0: ValueError *)

Fixpoint all_values (ps : list (Z * pspec)) : option (list (Z * list Z)) :=
  match ps with
  | [] => Some []
  | (n, s) :: t =>
      match s with
      | PEmptySeq => None
      | PSingle v => match all_values t with Some r => Some ((n, [v]) :: r) | None => None end
      | PMany vs => match all_values t with Some r => Some ((n, vs) :: r) | None => None end
      end
  end.

(* itertools.product over parameter_list, each turned into a dict *)
Fixpoint product (ps : list (Z * list Z)) : list kw :=
  match ps with
  | [] => [[]]
  | (n, vs) :: t => flat_map (fun v => map (fun k => (n, v) :: k) (product t)) vs
  end.

Definition zseq (n : Z) : list Z := map Z.of_nat (seq 0 (Z.to_nat n)).   (* range(n) *)

Definition run := (Z * Z * kw)%type.                 (* (run_id, iteration, kwargs) *)
Fixpoint number_from (i : Z) (l : list (Z * kw)) : list run :=
  match l with
  | [] => []
  | (it, k) :: t => (i, it, k) :: number_from (i + 1) t
  end.
Definition runs_list (iterations : Z) (prod : list kw) : list run :=
  number_from 0 (flat_map (fun it => map (fun k => (it, k)) prod) (zseq iterations)).

(* ---- the model class BM ---- *)
(* p_ic / p_sc: how many times the model collects at construction / inside every step; between two
   collects made at the same model.steps it changes a model-level value and every agent *)
Record params := { p_n : Z; p_stop : option Z; p_ic : nat; p_sc : nat; p_ar : bool; p_churn : bool; p_k : Z; p_mc : Z; p_pat : option Z; p_mr : bool }.
(* p_mr: model reporters on / off (a collector with agent reporters only) *)
(* p_pat: an explicit collection pattern overriding p_ic / p_sc: base-4 digit s of the number = how many times the model
   collects at step s (digit 0: at construction); steps beyond the digits are not collected - gaps and duplicates at will *)
(* p_mc: agent churn BETWEEN two collects of one step: 1 = every agent is removed, 2 = an agent is created,
   3 = the first agent is removed, 4 = every agent is removed when the model has just stopped (final step) *)
Definition kwget (k : kw) (name def : Z) : Z := match aget name k with Some v => v | None => def end.
Definition params_of (k : kw) : params :=
  {| p_n := kwget k 0 2;
     p_stop := match aget 1 k with Some v => if v =? -1 then None else Some v | None => None end;
     p_ic := Z.to_nat (kwget k 2 0); p_sc := Z.to_nat (kwget k 3 1); p_ar := negb (kwget k 4 1 =? 0);
     p_churn := negb (kwget k 5 0 =? 0); p_k := kwget k 6 0; p_mc := kwget k 9 0;
     p_pat := match aget 10 k with Some v => if v <=? -1000 then Some (- v - 1000) else None | None => None end;
     p_mr := negb (kwget k 11 1 =? 0) |}.
(* (the pattern q travels as the value code -(1000 + q): non-negative codes from 1000 on name pass-through objects) *)

Definition bm_cfg (p : params) : config :=
  {| c_mreps := if p_mr p then [(0, MRFun false FSteps); (1, MRMethod (FSum 0)); (2, MRAttr 1); (3, MRAttr 2)] else [];
     c_areps := if p_ar p then [(0, ARFun (AStepsAttr 0)); (1, ARAttr 0)] else [];
     c_treps := []; c_tables := [] |}.

(* b_trace is a ghost field (never observed): the worlds at which the script called collect, in order *)
Record bm := { b_w : world; b_d : dc; b_running : bool; b_trace : list world }.

Fixpoint iter {A : Type} (n : nat) (f : A -> A) (x : A) : A :=
  match n with O => x | S k => iter k f (f x) end.
Definition wstep (w : world) (o : op) : world := fst (world_step w o).
Definition bm_collect (p : params) (m : bm) : bm :=
  {| b_w := b_w m; b_d := fst (collect (bm_cfg p) (b_w m) (b_d m)); b_running := b_running m;
     b_trace := b_trace m ++ [b_w m] |}.

Definition inc_vals (w : world) : world :=       (* every agent: val += 1 *)
  with_agents w (map (fun a => {| a_id := a_id a; a_cls := a_cls a;
                                  a_attrs := aset 0 (attr0 a 0 + 1) (a_attrs a) |}) (w_agents w)).

(* between two collects at the same model.steps: self.t += self.steps + 1; every agent's val += 1; then agents
   come and go as p_mc says *)
Definition attr_t (w : world) : Z := match aget 2 (w_attrs w) with Some (MInt z) => z | _ => 0 end.
Definition mutate_agents (p : params) (running : bool) (w : world) : world :=
  if p_mc p =? 1 then with_agents w []
  else if p_mc p =? 2 then wstep w (Create 0 [(0, p_k p)])
  else if p_mc p =? 3 then match w_agents w with a :: _ => wstep w (Remove (a_id a)) | [] => w end
  else if (p_mc p =? 4) && negb running then with_agents w []
  else w.
Definition bm_mutate (p : params) (m : bm) : bm :=
  {| b_w := mutate_agents p (b_running m)
              (inc_vals (wstep (b_w m) (SetAttr 2 (attr_t (b_w m) + w_steps (b_w m) + 1))));
     b_d := b_d m; b_running := b_running m; b_trace := b_trace m |}.
(* for j in range(c): (mutate if j > 0); collect *)
Fixpoint bm_collects (p : params) (c : nat) (m : bm) : bm :=
  match c with
  | O => m
  | S j => let m1 := bm_collects p j m in
           bm_collect p (match j with O => m1 | S _ => bm_mutate p m1 end)
  end.

Definition collect_count (p : params) (default : nat) (step : Z) : nat :=
  match p_pat p with
  | Some q => Z.to_nat ((q / 4 ^ step) mod 4)
  | None => default
  end.

Definition bm_init (p : params) : bm :=
  let w0 := wstep (wstep world_init (SetAttr 1 (p_k p))) (SetAttr 2 0) in
  let w2 := iter (Z.to_nat (p_n p)) (fun w => wstep w (Create 0 [(0, p_k p)])) w0 in
  bm_collects p (collect_count p (p_ic p) 0) {| b_w := w2; b_d := dc_init (bm_cfg p); b_running := true; b_trace := [] |}.

Definition bm_step (p : params) (m : bm) : bm :=   (* model.step(): the wrapper increments steps first *)
  let w1 := wstep (b_w m) Step in
  let w2 := inc_vals w1 in                        (* self.agents.do("step") *)
  let w3 := if p_churn p && (w_steps w2 mod 2 =? 1) then wstep w2 (Create 0 [(0, p_k p)]) else w2 in
  let w4 := if p_churn p && (w_steps w3 mod 3 =? 0)
            then match w_agents w3 with a :: _ => wstep w3 (Remove (a_id a)) | [] => w3 end
            else w3 in
  let r := match p_stop p with
           | Some s => if s <=? w_steps w4 then false else b_running m
           | None => b_running m
           end in
  bm_collects p (collect_count p (p_sc p) (w_steps w4)) {| b_w := w4; b_d := b_d m; b_running := r; b_trace := b_trace m |}.

(* while model.running and model.steps < max_steps: model.step() *)
Fixpoint run_loop (fuel : nat) (p : params) (max_steps : Z) (m : bm) : bm :=
  match fuel with
  | O => m
  | S f => if b_running m && (w_steps (b_w m) <? max_steps) then run_loop f p max_steps (bm_step p m) else m
  end.
Definition run_model (k : kw) (max_steps : Z) : bm :=
  run_loop (Z.to_nat max_steps) (params_of k) max_steps (bm_init (params_of k)).

(* ---- rows ---- *)
Record brow := { r_run : Z; r_iter : Z; r_step : Z; r_kw : kw;
                 r_model : list (Z * snap); r_agent : option (Z * list (Z * snap)) }.

Fixpoint last_opt {A : Type} (l : list A) : option A :=
  match l with [] => None | [x] => Some x | _ :: t => last_opt t end.

(* collected = list(dict.fromkeys(dc._collection_steps)); every period-th of them, and the last one *)
Definition report_steps (period : Z) (d : dc) : list Z :=
  let c := dedup_first Z.eqb (d_csteps d) in
  let sel := filter (fun s => (0 <? period) && (s mod period =? 0)) c in
  match last_opt c with
  | None => sel
  | Some l => match last_opt sel with
              | Some l' => if l' =? l then sel else sel ++ [l]
              | None => sel ++ [l]
              end
  end.

(* positions[-1]: index of the last collection made at this step *)
Fixpoint last_pos (step : Z) (cs : list Z) : option nat :=
  match cs with
  | [] => None
  | s :: t => match last_pos step t with
              | Some i => Some (S i)
              | None => if s =? step then Some O else None
              end
  end.
Definition model_data (d : dc) (step : Z) : list (Z * snap) :=
  match last_pos step (d_csteps d) with
  | Some i => map (fun p => (fst p, nth i (snd p) SNone)) (d_mvars d)
  | None => []
  end.
Definition agent_data (cfg : config) (d : dc) (step : Z) : list (Z * list (Z * snap)) :=
  map (fun r : row => (snd (fst r), combine (map fst (c_areps cfg)) (snd r)))
      (match aget step (d_arecs d) with Some rows => rows | None => [] end).

Definition step_rows (cfg : config) (d : dc) (id it : Z) (k : kw) (step : Z) : list brow :=
  let md := model_data d step in
  match agent_data cfg d step with
  | [] => [{| r_run := id; r_iter := it; r_step := step; r_kw := k; r_model := md; r_agent := None |}]
  | ads => map (fun ad => {| r_run := id; r_iter := it; r_step := step; r_kw := k; r_model := md;
                             r_agent := Some ad |}) ads
  end.

(* the rows built from a finished model (everything after the while loop of _model_run_func) *)
Definition rows_of (period : Z) (r : run) (m : bm) : list brow :=
  let '(id, it, k) := r in
  flat_map (step_rows (bm_cfg (params_of k)) (b_d m) id it k) (report_steps period (b_d m)).
Definition run_rows (max_steps period : Z) (r : run) : list brow :=
  rows_of period r (run_model (snd r) max_steps).

(* batch_run: the rows of the runs, concatenated in completion order (serial: list order) *)
Definition batch_rows (max_steps period : Z) (runs : list run) : list brow :=
  flat_map (run_rows max_steps period) runs.

(* ---- observations: the multiset of rows, canonically sorted ---- *)
Definition enc_brow (r : brow) : list Z :=
  r_run r :: r_iter r :: r_step r :: Z.of_nat (length (r_kw r)) :: flat_map (fun p => [fst p; snd p]) (r_kw r)
  ++ enc_list (fun p => enc_snap (snd p)) (r_model r)
  ++ match r_agent r with
     | None => [0]
     | Some (id, vs) => 1 :: id :: enc_list (fun p => enc_snap (snd p)) vs
     end.

Fixpoint lex_leb (a b : list Z) : bool :=
  match a, b with
  | [], _ => true
  | _ :: _, [] => false
  | x :: a', y :: b' => if x <? y then true else if y <? x then false else lex_leb a' b'
  end.
Fixpoint linsert (x : list Z) (l : list (list Z)) : list (list Z) :=
  match l with
  | [] => [x]
  | y :: t => if lex_leb x y then x :: y :: t else y :: linsert x t
  end.
Definition lexsort (l : list (list Z)) : list (list Z) := fold_right linsert [] l.

Inductive bop := Batch (ps : list (Z * pspec)) (iterations max_steps period : Z).

Definition batch (o : bop) : result (list brow) :=
  match o with
  | Batch ps iterations max_steps period =>
      match all_values ps with
      | None => Err E_VALUE
      | Some vals => Ok (batch_rows max_steps period (runs_list iterations (product vals)))
      end
  end.

Definition obs_batch (o : bop) : list Z :=
  match batch o with
  | Err k => [-1; k]
  | Ok rows => 0 :: Z.of_nat (length rows) :: concat (lexsort (map enc_brow rows))
  end.

Record case := { b_ops : list bop }.
Definition run_case (c : case) : list (list Z) := map obs_batch (b_ops c).
