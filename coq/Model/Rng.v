(* C01 - which generator every derived collection carries, and what the random choices are functions of.

   Transcribed from
     mesa/model.py      Model.__init__ (self._all_agents = AgentSet([], random=self.random)), register_agent,
                        deregister_agent
     mesa/agent.py      Agent.__init__ / remove / create_agents, AgentSet.__init__ (random=None -> UserWarning and a
                        fresh Random()), select, shuffle, sort, groupby, copy.copy
     mesa/discrete_space/discrete_space.py   DiscreteSpace.__init__ (same fall-back), agents, all_cells, empties,
                        select_random_empty_cell
     mesa/discrete_space/cell.py             Cell.get_neighborhood (random=self.random), radius 1
     mesa/discrete_space/cell_collection.py  CellCollection.__init__ (same fall-back), select
     mesa/space.py      _Grid.agents (rng = agents[0].random, None when the space is empty), SingleGrid.place_agent /
                        remove_agent, _Grid.move_to_empty (both branches)

   Generators are identities: MODEL_GEN is model.random, OTHER_GEN stands for any generator that is not the
   model's (every unseeded fall-back makes a fresh one).  Random outcomes are inputs (DESIGN 2.2): the index
   permutation a shuffle produced, the index `choice` drew, the tape of coordinates the rejection loop drew, and
   the order in which the hash-ordered set `_empties` happened to be iterated.  Definitions only. *)
From Coq Require Import ZArith List Bool.
From Mesa Require Import Common.ListX Generated.Tables.
Import ListNotations.
Open Scope Z_scope.

Definition genid := Z.
Definition MODEL_GEN : genid := 0.
Definition OTHER_GEN : genid := 1.

Inductive result (A : Type) := Ok (a : A) | Err (kind : Z).
Arguments Ok {A}. Arguments Err {A}.
Definition E_NOSUCH : Z := 2.      (* refers to something that does not exist (any more): no-op, observation [-2] *)
Definition E_ILLEGAL : Z := 3.     (* the recorded outcome is not a legal outcome in this state: observation [-3] *)
Definition E_NOEMPTY : Z := 1.     (* Exception("ERROR: No empty cells") : observation [-1; 1] *)
Definition E_EMPTYSEQ : Z := 4.    (* IndexError: choice from an empty sequence : observation [-1; 2] *)

Record agent := { a_id : Z; a_cls : Z; a_key : Z }.
Record coll := { members : list Z; gen : genid }.

Definition coord := (Z * Z)%type.
Definition coord_eqb (a b : coord) : bool := (fst a =? fst b) && (snd a =? snd b).
(* tuple comparison of Python: lexicographic *)
Definition coord_leb (a b : coord) : bool :=
  (fst a <? fst b) || ((fst a =? fst b) && (snd a <=? snd b)).

(* further spaces of the model: legacy MultiGrid / HexSingleGrid / HexMultiGrid / NetworkGrid / ContinuousSpace (no
   generator of their own: `.agents` takes agents[0].random, the documented unseeded fall-back when the space is
   empty) and the experimental ContinuousSpace (carries the generator it was built with) *)
Record xspace := {
  xs_legacy : bool;              (* true: first-agent fall-back ; false: AgentSet(self.active_agents, random=self.random) *)
  xs_keyed : bool;               (* `.agents` walks the cells / nodes in index order (grids, network); false: insertion order *)
  xs_single : bool;              (* at most one agent per cell (HexSingleGrid) *)
  xs_gen : genid;                (* the generator the space carries (meaningful when not legacy) *)
  xs_items : list (Z * Z)        (* (cell / node index, agent id) in the order the agents were put there *)
}.

Record world := {
  w_agents : list agent;            (* model._agents = model._all_agents : registration order *)
  w_next : Z;                       (* next(Agent._ids[model]) *)
  w_sgen : genid;                   (* space.random of the cell space (all its cells carry the same object) *)
  w_cells : list (Z * list Z);      (* space._cells in creation order : cell id -> cell._agents *)
  w_conn : list (Z * list Z);       (* cell id -> cell.connections.values(), in connection order *)
  w_lw : Z; w_lh : Z;               (* the legacy SingleGrid *)
  w_lgrid : list (coord * Z);       (* its occupied cells : coordinate -> agent id *)
  w_cutoff : Z;                     (* floor(grid.cutoff_empties) *)
  w_xspaces : list xspace
}.

(* ------------------------------------------------------------------ small list helpers *)
Fixpoint find_agent (i : Z) (l : list agent) : option agent :=
  match l with
  | [] => None
  | a :: t => if a_id a =? i then Some a else find_agent i t
  end.

Definition key_of (w : world) (i : Z) : Z :=
  match find_agent i (w_agents w) with Some a => a_key a | None => 0 end.
Definition cls_of (w : world) (i : Z) : Z :=
  match find_agent i (w_agents w) with Some a => a_cls a | None => 0 end.

Fixpoint zassoc {B : Type} (k : Z) (l : list (Z * B)) : option B :=
  match l with
  | [] => None
  | (k', v) :: t => if k =? k' then Some v else zassoc k t
  end.

Definition zmem (x : Z) (l : list Z) : bool := existsb (Z.eqb x) l.

(* sorted(..., key=key, reverse=not ascending): stable in both directions *)
Fixpoint ins_by (before : Z -> Z -> bool) (x : Z) (l : list Z) : list Z :=
  match l with
  | [] => [x]
  | y :: t => if before x y then x :: l else y :: ins_by before x t
  end.
Definition sort_by (before : Z -> Z -> bool) (l : list Z) : list Z := fold_right (ins_by before) [] l.

(* sorted(set of coordinate tuples) *)
Fixpoint cins (x : coord) (l : list coord) : list coord :=
  match l with
  | [] => [x]
  | y :: t => if coord_leb x y then x :: l else y :: cins x t
  end.
Definition csort (l : list coord) : list coord := fold_right cins [] l.

Fixpoint nth_opt {A : Type} (l : list A) (n : nat) : option A :=
  match l, n with
  | [], _ => None
  | x :: _, O => Some x
  | _ :: t, S n' => nth_opt t n'
  end.
Definition znth {A : Type} (l : list A) (k : Z) : option A :=
  if k <? 0 then None else nth_opt l (Z.to_nat k).

(* is idxs a permutation of 0 .. n-1 ? *)
Definition is_index_perm (n : nat) (idxs : list Z) : bool :=
  Nat.eqb (length idxs) n &&
  forallb (fun i => zmem (Z.of_nat i) idxs) (seq 0 n).

Definition pick_all {A : Type} (l : list A) (idxs : list Z) : list A :=
  flat_map (fun i => match znth l i with Some x => [x] | None => [] end) idxs.

(* random.shuffle on a list: the result is determined by the list (in its order) and by the index permutation the
   generator produced *)
Definition shuffle_apply {A : Type} (l : list A) (idxs : list Z) : result (list A) :=
  if is_index_perm (length l) idxs then Ok (pick_all l idxs) else Err E_ILLEGAL.

(* random.choice(seq): IndexError on an empty sequence, else seq[k] for the index k the generator drew *)
Definition choice_from {A : Type} (l : list A) (k : Z) : result A :=
  match l with
  | [] => Err E_EMPTYSEQ
  | _ => match znth l k with Some x => Ok x | None => Err E_ILLEGAL end
  end.

(* ------------------------------------------------------------------ AgentSet derivations *)
Inductive term :=
| TAgents                                   (* model.agents *)
| TByType (c : Z)                           (* model.agents_by_type[c] *)
| TSelect (d : term) (kmin : Z) (at_most : option Z)
                                            (* d.select(lambda a: a.key >= kmin, at_most=n) *)
| TSelectAll (d : term)                     (* d.select()  = copy.copy(d) *)
| TShuffle (d : term) (idxs : list Z)       (* d.shuffle() *)
| TSort (d : term) (asc : bool)             (* d.sort("key", ascending=asc) *)
| TGroup (d : term) (k : Z)                 (* d.groupby("key").groups[k] *)
| TCopy (d : term)                          (* copy.copy(d) *)
| TNew (d : term) (seeded : bool)           (* AgentSet(list(d), random = model.random | None) *)
| TSpaceAgents                              (* cell space .agents *)
| TLegacyAgents                             (* legacy grid .agents *)
| TXAgents (s : Z).                         (* .agents of the s-th further space (MultiGrid, hex, network, continuous) *)

Definition all_ids (w : world) : list Z := map a_id (w_agents w).

(* ---- further spaces *)
Fixpoint xkey_of (a : Z) (l : list (Z * Z)) : Z :=
  match l with
  | [] => 0
  | (k, b) :: t => if a =? b then k else xkey_of a t
  end.

(* what `.agents` collects, in its order: for entry in <cells / nodes in index order>: for agent in entry (placement
   order) - a stable sort by index;  the continuous spaces keep an insertion-ordered list / dict *)
Definition xs_members (x : xspace) : list Z :=
  let ids := map snd (xs_items x) in
  if xs_keyed x then sort_by (fun a b => xkey_of a (xs_items x) <=? xkey_of b (xs_items x)) ids else ids.

(* rng = agents[0].random (= its model's generator)   except IndexError: rng = None  -> the unseeded fall-back *)
Definition legacy_fallback (members : list Z) : genid :=
  match members with [] => OTHER_GEN | _ => MODEL_GEN end.

Definition xs_agents_gen (x : xspace) : genid :=
  if xs_legacy x then legacy_fallback (xs_members x) else xs_gen x.

Definition xs_has (a : Z) (x : xspace) : bool := existsb (fun e => snd e =? a) (xs_items x).
Definition xs_key_used (k : Z) (x : xspace) : bool := existsb (fun e => fst e =? k) (xs_items x).
Definition xs_set_items (x : xspace) (l : list (Z * Z)) : xspace :=
  {| xs_legacy := xs_legacy x; xs_keyed := xs_keyed x; xs_single := xs_single x; xs_gen := xs_gen x; xs_items := l |}.
Definition xs_remove (a : Z) (x : xspace) : xspace :=
  xs_set_items x (filter (fun e => negb (snd e =? a)) (xs_items x)).
Definition in_any_xspace (xs : list xspace) (a : Z) : bool := existsb (xs_has a) xs.

Fixpoint xs_update (xs : list xspace) (n : nat) (f : xspace -> xspace) : list xspace :=
  match xs, n with
  | [], _ => []
  | x :: t, O => f x :: t
  | x :: t, S n' => x :: xs_update t n' f
  end.

Definition legacy_cells (w : world) : list coord :=
  flat_map (fun x => map (fun y => (x, y)) (zrange 0 (w_lh w - 1))) (zrange 0 (w_lw w - 1)).

Fixpoint lassoc (p : coord) (l : list (coord * Z)) : option Z :=
  match l with
  | [] => None
  | (q, a) :: t => if coord_eqb p q then Some a else lassoc p t
  end.

(* for entry in self (coord_iter order: x outer, y inner): occupants *)
Definition legacy_agents (w : world) : list Z :=
  flat_map (fun p => match lassoc p (w_lgrid w) with Some a => [a] | None => [] end) (legacy_cells w).

Definition take_opt (n : option Z) (l : list Z) : list Z :=
  match n with None => l | Some k => firstn (Z.to_nat k) l end.

Fixpoint eval (w : world) (d : term) : result coll :=
  match d with
  | TAgents => Ok {| members := all_ids w; gen := MODEL_GEN |}
  | TByType c =>
      let l := filter (fun i => cls_of w i =? c) (all_ids w) in
      match l with
      | [] => Err E_NOSUCH                                     (* KeyError *)
      | _ => Ok {| members := l; gen := MODEL_GEN |}           (* AgentSet([agent], random=self.random) + add *)
      end
  | TSelect d kmin n =>
      match eval w d with
      | Ok c => Ok {| members := take_opt n (filter (fun i => key_of w i >=? kmin) (members c));
                      gen := gen c |}                          (* AgentSet(agents, self.random) *)
      | Err e => Err e
      end
  | TSelectAll d | TCopy d => eval w d                         (* shallow copy: same .random object *)
  | TShuffle d idxs =>
      match eval w d with
      | Ok c => match shuffle_apply (members c) idxs with
                | Ok l => Ok {| members := l; gen := gen c |}  (* AgentSet(..., self.random) *)
                | Err e => Err e
                end
      | Err e => Err e
      end
  | TSort d asc =>
      match eval w d with
      | Ok c =>
          let before := if asc then (fun x y => key_of w x <=? key_of w y)
                        else (fun x y => key_of w x >=? key_of w y) in
          Ok {| members := sort_by before (members c); gen := gen c |}
      | Err e => Err e
      end
  | TGroup d k =>
      match eval w d with
      | Ok c =>
          match filter (fun i => key_of w i =? k) (members c) with
          | [] => Err E_NOSUCH
          | l => Ok {| members := l; gen := gen c |}           (* AgentSet(v, random=self.random) *)
          end
      | Err e => Err e
      end
  | TNew d seeded =>
      match eval w d with
      | Ok c => Ok {| members := members c; gen := if seeded then MODEL_GEN else OTHER_GEN |}
      | Err e => Err e
      end
  | TSpaceAgents =>                                            (* AgentSet(self.all_cells.agents, random=self.random) *)
      Ok {| members := flat_map snd (w_cells w); gen := w_sgen w |}
  | TLegacyAgents =>
      match legacy_agents w with
      | [] => Ok {| members := []; gen := OTHER_GEN |}         (* rng = None -> the unseeded fall-back *)
      | l => Ok {| members := l; gen := MODEL_GEN |}           (* rng = agents[0].random = agents[0].model.random *)
      end
  | TXAgents s =>
      match znth (w_xspaces w) s with
      | None => Err E_NOSUCH
      | Some x => Ok {| members := xs_members x; gen := xs_agents_gen x |}
      end
  end.

(* ------------------------------------------------------------------ CellCollection derivations *)
Inductive cterm :=
| CAll                                      (* space.all_cells *)
| CEmpties                                  (* space.empties *)
| CNbhd (cell : Z) (ic : bool)              (* space[cell].get_neighborhood(1, include_center=ic) *)
| CSelect (d : cterm) (only_empty : bool) (at_most : option Z)
                                            (* d.select(lambda c: c.is_empty  | None, at_most) *)
| CNew (d : cterm) (seeded : bool).         (* CellCollection(list(d), random = model.random | None) *)

Definition cell_empty (w : world) (c : Z) : bool :=
  match zassoc c (w_cells w) with Some [] => true | Some _ => false | None => false end.

Definition dedup_z (l : list Z) : list Z := dedup_first Z.eqb l.

Fixpoint ceval (w : world) (d : cterm) : result coll :=
  match d with
  | CAll => Ok {| members := map fst (w_cells w); gen := w_sgen w |}
  | CEmpties => Ok {| members := filter (cell_empty w) (map fst (w_cells w)); gen := w_sgen w |}
  | CNbhd c ic =>
      match zassoc c (w_conn w) with
      | None => Err E_NOSUCH
      | Some ns =>       (* dict {neighbor: ...} in first-insertion order; then (as repaired by "apply include_center
                            uniformly"): if include_center: neighborhood[self] = ... else: neighborhood.pop(self, None) *)
          Ok {| members := if ic then dedup_z (ns ++ [c]) else remove_key Z.eqb c (dedup_z ns); gen := w_sgen w |}
      end
  | CSelect d only_empty n =>
      match ceval w d with
      | Ok c =>
          match only_empty, n with
          | false, None => Ok c                                (* return self *)
          | _, _ => Ok {| members := take_opt n (if only_empty then filter (cell_empty w) (members c) else members c);
                          gen := gen c |}
          end
      | Err e => Err e
      end
  | CNew d seeded =>
      match ceval w d with
      | Ok c => Ok {| members := members c; gen := if seeded then MODEL_GEN else OTHER_GEN |}
      | Err e => Err e
      end
  end.

(* ------------------------------------------------------------------ legacy grid: empties and move_to_empty *)
Definition l_is_empty (w : world) (p : coord) : bool :=
  match lassoc p (w_lgrid w) with Some _ => false | None => true end.
Definition l_in_grid (w : world) (p : coord) : bool :=
  (0 <=? fst p) && (fst p <? w_lw w) && (0 <=? snd p) && (snd p <? w_lh w).

(* the SET grid.empties; its iteration order is not a function of the state (hash table history) *)
Definition l_empties (w : world) : list coord := filter (l_is_empty w) (legacy_cells w).

Fixpoint lpos_of (a : Z) (l : list (coord * Z)) : option coord :=
  match l with
  | [] => None
  | (p, b) :: t => if a =? b then Some p else lpos_of a t
  end.
Definition l_remove (a : Z) (l : list (coord * Z)) : list (coord * Z) :=
  filter (fun e => negb (snd e =? a)) l.

Definition set_lgrid (w : world) (g : list (coord * Z)) : world :=
  {| w_agents := w_agents w; w_next := w_next w; w_sgen := w_sgen w; w_cells := w_cells w; w_conn := w_conn w;
     w_lw := w_lw w; w_lh := w_lh w; w_lgrid := g; w_cutoff := w_cutoff w; w_xspaces := w_xspaces w |}.

Fixpoint celem (p : coord) (l : list coord) : bool :=
  match l with [] => false | q :: t => coord_eqb p q || celem p t end.
Fixpoint clist_eqb (a b : list coord) : bool :=
  match a, b with
  | [], [] => true
  | x :: a', y :: b' => coord_eqb x y && clist_eqb a' b'
  | _, _ => false
  end.

(* pi is a legal iteration order of the set of empties: same elements, each once *)
Definition legal_order (w : world) (pi : list coord) : bool := clist_eqb (csort pi) (csort (l_empties w)).

(* while True: new_pos = (randrange(w), randrange(h)); if is_cell_empty(new_pos): break
   - the tape holds the coordinates drawn; legal iff every entry is in range, all but the last are occupied
     and the last one is empty *)
Fixpoint reject_loop (w : world) (tape : list coord) : result coord :=
  match tape with
  | [] => Err E_ILLEGAL
  | p :: t =>
      if negb (l_in_grid w p) then Err E_ILLEGAL
      else if l_is_empty w p then (match t with [] => Ok p | _ => Err E_ILLEGAL end)
      else reject_loop w t
  end.

(* the argument handed to agent.random.choice: `sorted(self.empties)` in the source, as re-read by T1 *)
Definition choice_arg (sorted_in_source : bool) (pi : list coord) : list coord :=
  if sorted_in_source then csort pi else pi.

Definition choose_empty (srt : bool) (w : world) (pi : list coord) (k : Z) (tape : list coord) : result coord :=
  let n := Z.of_nat (length (l_empties w)) in
  if n =? 0 then Err E_NOEMPTY
  else if n >? w_cutoff w then reject_loop w tape
  else if negb (legal_order w pi) then Err E_ILLEGAL
  else match znth (choice_arg srt pi) k with Some p => Ok p | None => Err E_ILLEGAL end.

(* Grid.select_random_empty_cell with _try_random: while True: cell = all_cells.select_random_cell(); if cell.is_empty: return *)
Fixpoint try_random (w : world) (tape : list Z) : result Z :=
  match tape with
  | [] => Err E_ILLEGAL
  | c :: t =>
      if negb (zmem c (map fst (w_cells w))) then Err E_ILLEGAL
      else if cell_empty w c then (match t with [] => Ok c | _ => Err E_ILLEGAL end)
      else try_random w t
  end.

Definition cell_agents (w : world) (c : Z) : list Z :=
  match zassoc c (w_cells w) with Some l => l | None => [] end.

(* _Grid.move_agent_to_one_of on a non-torus grid *)
Definition dist2 (p q : coord) : Z :=
  (fst p - fst q) * (fst p - fst q) + (snd p - snd q) * (snd p - snd q).

(* for p in pos: distance < min -> clear, append ; == min -> append     (min_distance = inf is `None`) *)
Fixpoint closest_scan (cur : coord) (ps : list coord) (best : option Z) (acc : list coord) : list coord :=
  match ps with
  | [] => acc
  | p :: t =>
      let d := dist2 p cur in
      match best with
      | None => closest_scan cur t (Some d) [p]
      | Some m =>
          if d <? m then closest_scan cur t (Some d) [p]
          else if d =? m then closest_scan cur t best (acc ++ [p])
          else closest_scan cur t best acc
      end
  end.

(* selection == "random": choice(pos);  "closest": shuffle(pos), scan, choice(closest_pos) *)
Definition one_of_choice (cur : coord) (ps : list coord) (closest : bool) (idxs : list Z) (k : Z) : result coord :=
  match (if closest
         then match shuffle_apply ps idxs with Ok l => Ok (closest_scan cur l None []) | Err e => Err e end
         else Ok ps) with
  | Err e => Err e
  | Ok cs => match znth cs k with Some p => Ok p | None => Err E_ILLEGAL end
  end.

(* ------------------------------------------------------------------ operations *)
Inductive op :=
| Derive (d : term)
| DeriveC (d : cterm)
| Create (c : Z) (keys : list Z)    (* Cls.create_agents(model, n, key=[..]) *)
| Remove (a : Z)                    (* a.remove(): deregister (the harness also takes it off cell / grid) *)
| SelectRandomEmpty (k : Z)         (* DiscreteSpace.select_random_empty_cell(): choice(list(self.empties)) *)
| LPlace (a : Z) (p : coord)        (* SingleGrid.place_agent of an unplaced registered agent on an empty cell *)
| LRemove (a : Z)                   (* SingleGrid.remove_agent *)
| MoveToEmpty (a : Z) (pi : list coord) (k : Z) (tape : list coord)
| ShuffleDo (d : term) (idxs : list Z)     (* d.shuffle_do(f): the activation order *)
| RandomCell (d : cterm) (k : Z)           (* d.select_random_cell() *)
| RandomAgent (d : cterm) (k : Z)          (* d.select_random_agent() *)
| TryRandomEmpty (tape : list Z)           (* Grid.select_random_empty_cell(), _try_random = True *)
| MoveOneOf (a : Z) (ps : list coord) (closest : bool) (idxs : list Z) (k : Z)
| Reset                                    (* model.reset_randomizer([seed]) *)
| XPlace (s a k : Z)                       (* legacy further space s: place_agent(a, <cell / node k>) of an agent that is in no space *)
| XRemove (s a : Z)                        (* legacy further space s: remove_agent(a) *)
| XCreate (s k : Z).                       (* experimental ContinuousSpace s: ContinuousSpaceAgent(space, model), key attribute k *)
                                           (* grid.move_agent_to_one_of(a, ps, selection) ; ps free cells or a's own *)

Definition obs_err (k : Z) : list Z :=
  if k =? E_NOEMPTY then [-1; 1] else if k =? E_EMPTYSEQ then [-1; 2] else [- k].
Definition obs_coll (c : coll) : list Z := gen c :: members c.
Definition obs_res (r : result coll) : list Z :=
  match r with Ok c => obs_coll c | Err k => obs_err k end.

Definition lgrid_view (w : world) : list Z :=
  flat_map (fun p => match lassoc p (w_lgrid w) with Some a => [fst p; snd p; a] | None => [] end) (legacy_cells w).

Fixpoint mk_agents (c : Z) (next : Z) (keys : list Z) : list agent :=
  match keys with
  | [] => []
  | k :: t => {| a_id := next; a_cls := c; a_key := k |} :: mk_agents c (next + 1) t
  end.

Definition set_agents (w : world) (l : list agent) (next : Z) (cells : list (Z * list Z)) (g : list (coord * Z))
           (xs : list xspace) : world :=
  {| w_agents := l; w_next := next; w_sgen := w_sgen w; w_cells := cells; w_conn := w_conn w;
     w_lw := w_lw w; w_lh := w_lh w; w_lgrid := g; w_cutoff := w_cutoff w; w_xspaces := xs |}.

Definition step (srt : bool) (w : world) (o : op) : world * list Z :=
  match o with
  | Derive d => (w, obs_res (eval w d))
  | DeriveC d => (w, obs_res (ceval w d))
  | Create c keys =>
      let new := mk_agents c (w_next w) keys in
      (set_agents w (w_agents w ++ new) (w_next w + Z.of_nat (length keys)) (w_cells w) (w_lgrid w) (w_xspaces w),
       obs_coll {| members := map a_id new; gen := MODEL_GEN |})   (* AgentSet(agents, random=model.random) *)
  | Remove a =>
      match find_agent a (w_agents w) with
      | None => (w, obs_err E_NOSUCH)
      | Some _ =>
          let w' := set_agents w (filter (fun b => negb (a_id b =? a)) (w_agents w)) (w_next w)
                      (map (fun e => (fst e, filter (fun b => negb (b =? a)) (snd e))) (w_cells w))
                      (l_remove a (w_lgrid w)) (map (xs_remove a) (w_xspaces w)) in
          (w', 0 :: all_ids w')
      end
  | SelectRandomEmpty k =>
      match znth (filter (cell_empty w) (map fst (w_cells w))) k with
      | Some c => (w, [w_sgen w; c])            (* drawn from space.random *)
      | None => (w, obs_err E_ILLEGAL)
      end
  | LPlace a p =>
      match find_agent a (w_agents w), lpos_of a (w_lgrid w) with
      | Some _, None =>
          if l_in_grid w p && l_is_empty w p && negb (in_any_xspace (w_xspaces w) a) then
            let w' := set_lgrid w (w_lgrid w ++ [(p, a)]) in (w', 0 :: lgrid_view w')
          else (w, obs_err E_NOSUCH)
      | _, _ => (w, obs_err E_NOSUCH)
      end
  | LRemove a =>
      match lpos_of a (w_lgrid w) with
      | None => (w, obs_err E_NOSUCH)
      | Some _ => let w' := set_lgrid w (l_remove a (w_lgrid w)) in (w', 0 :: lgrid_view w')
      end
  | MoveToEmpty a pi k tape =>
      match (if in_any_xspace (w_xspaces w) a then None else find_agent a (w_agents w)) with
      | None => (w, obs_err E_NOSUCH)
      | Some _ =>
          match choose_empty srt w pi k tape with
          | Err e => (w, obs_err e)
          | Ok p =>
              (* self.remove_agent(agent); self.place_agent(agent, new_pos) *)
              let w' := set_lgrid w (l_remove a (w_lgrid w) ++ [(p, a)]) in
              (w', 0 :: fst p :: snd p :: lgrid_view w')
          end
      end
  | ShuffleDo d idxs =>
      match eval w d with
      | Ok c => match shuffle_apply (members c) idxs with
                | Ok l => (w, gen c :: l)               (* self.random.shuffle(weakrefs); call each in that order *)
                | Err e => (w, obs_err e)
                end
      | Err e => (w, obs_err e)
      end
  | RandomCell d k =>
      match ceval w d with
      | Ok c => match choice_from (members c) k with       (* self.random.choice(self.cells) *)
                | Ok x => (w, [gen c; x])
                | Err e => (w, obs_err e)
                end
      | Err e => (w, obs_err e)
      end
  | RandomAgent d k =>
      match ceval w d with
      | Ok c => match choice_from (flat_map (cell_agents w) (members c)) k with   (* choice(list(self.agents)) *)
                | Ok x => (w, [gen c; x])
                | Err e => (w, obs_err e)
                end
      | Err e => (w, obs_err e)
      end
  | TryRandomEmpty tape =>
      match try_random w tape with
      | Ok c => (w, [w_sgen w; c])
      | Err e => (w, obs_err e)
      end
  | XPlace s a k =>
      match find_agent a (w_agents w), znth (w_xspaces w) s with
      | Some _, Some x =>
          if xs_legacy x && negb (in_any_xspace (w_xspaces w) a)
             && (match lpos_of a (w_lgrid w) with None => true | Some _ => false end)
             && negb (xs_single x && xs_key_used k x)
          then let x' := xs_set_items x (xs_items x ++ [(k, a)]) in
               (set_agents w (w_agents w) (w_next w) (w_cells w) (w_lgrid w)
                           (xs_update (w_xspaces w) (Z.to_nat s) (fun _ => x')),
                xs_agents_gen x' :: xs_members x')
          else (w, obs_err E_NOSUCH)
      | _, _ => (w, obs_err E_NOSUCH)
      end
  | XRemove s a =>
      match znth (w_xspaces w) s with
      | Some x =>
          if xs_legacy x && xs_has a x
          then let x' := xs_remove a x in
               (set_agents w (w_agents w) (w_next w) (w_cells w) (w_lgrid w)
                           (xs_update (w_xspaces w) (Z.to_nat s) (fun _ => x')),
                0 :: xs_members x')
          else (w, obs_err E_NOSUCH)
      | None => (w, obs_err E_NOSUCH)
      end
  | XCreate s k =>
      match znth (w_xspaces w) s with
      | Some x =>
          if negb (xs_legacy x)
          then let a := w_next w in
               let x' := xs_set_items x (xs_items x ++ [(0, a)]) in
               (set_agents w (w_agents w ++ [{| a_id := a; a_cls := 2; a_key := k |}]) (w_next w + 1) (w_cells w) (w_lgrid w)
                           (xs_update (w_xspaces w) (Z.to_nat s) (fun _ => x')),
                xs_agents_gen x' :: xs_members x')
          else (w, obs_err E_NOSUCH)
      | None => (w, obs_err E_NOSUCH)
      end
  | Reset =>
      (* self.random.seed(seed): the generator OBJECT is re-seeded in place, so model.agents, the by-type sets, the space,
         its cells and every collection derived earlier still carry it; observed: generator of model.agents, of the space *)
      (w, [MODEL_GEN; w_sgen w])
  | MoveOneOf a ps closest idxs k =>
      match lpos_of a (w_lgrid w) with
      | None => (w, obs_err E_NOSUCH)
      | Some cur =>
          (* the caller offers the free cells (or the agent's own) among ps, like [p for p in ps if is_cell_empty(p)] *)
          match filter (fun p => l_in_grid w p && (l_is_empty w p || coord_eqb p cur)) ps with
          | [] => (w, 0 :: lgrid_view w)            (* `if pos:` is false, handle_empty=None *)
          | ps' =>
              match one_of_choice cur ps' closest idxs k with
              | Err e => (w, obs_err e)
              | Ok p =>                              (* self.move_agent(agent, chosen_pos) *)
                  let w' := set_lgrid w (l_remove a (w_lgrid w) ++ [(p, a)]) in
                  (w', 0 :: fst p :: snd p :: lgrid_view w')
              end
          end
      end
  end.

Fixpoint run_ops (srt : bool) (w : world) (ops : list op) : list (list Z) :=
  match ops with
  | [] => []
  | o :: t => let '(w', ob) := step srt w o in ob :: run_ops srt w' t
  end.

Fixpoint final (srt : bool) (w : world) (ops : list op) : world :=
  match ops with
  | [] => w
  | o :: t => final srt (fst (step srt w o)) t
  end.

Record case := { c_world : world; c_ops : list op }.
Definition run_case (c : case) : list (list Z) := run_ops gen_mte_choice_sorted (c_world c) (c_ops c).
