(* Model of mesa/experimental/continuous_space/continuous_space.py (ContinuousSpace) and
   continuous_space_agents.py (ContinuousSpaceAgent), statement by statement, following the code
   as repaired by fixes/C10-4 (growth of at least one row), C10-5 (argpartition kth = k-1),
   C10-6 (agent_positions exists before the first agent).  Definitions only.

   Python state                                        model
   self._agent_positions  ndarray (capacity, ndims)    e_store : list point (uninitialised row = [])
   self._n_agents                                      e_n
   self.agent_positions   = _agent_positions[0:n]      firstn e_n e_store (re-assigned by every add/remove)
   self.active_agents     list                         e_active
   self._agent_to_index   dict                         e_a2i
   self._index_to_agent   dict, written, never read    not modelled
   model.agents (model._agents, insertion ordered)     e_model : the agents registered with the Model

   Also: the sum type `case` and `run_case` the correspondence check evaluates (legacy | experimental). *)
From Coq Require Import ZArith List Bool.
From Mesa Require Import Common.ListX Model.ContGeom Model.ContLegacy.
Import ListNotations.
Open Scope Z_scope.

Record ecfg := { ec_bounds : bounds; ec_torus : bool; ec_cap : nat }.

Record estate := {
  e_store : list point;
  e_n : nat;
  e_active : list Z;
  e_a2i : list (Z * nat);
  e_model : list Z
}.

Definition garbage : point := [].

Definition e_init (c : ecfg) : estate :=
  {| e_store := repeat garbage (ec_cap c); e_n := 0; e_active := []; e_a2i := []; e_model := [] |}.

Definition e_rows (s : estate) : list point := firstn (e_n s) (e_store s).   (* agent_positions *)

(* int(round(0.2 * n)): no half-way case exists for an integer n; fix C10-4: at least 1 *)
Definition growth (n : nat) : nat := Nat.max ((2 * n + 5) / 10) 1.

(* _add_agent   continuous_space.py:107-138 *)
Definition add_agent (s : estate) (a : Z) : estate :=
  let index := e_n s in
  let n' := S index in
  let store' := if Nat.leb (length (e_store s)) index
                then e_store s ++ repeat garbage (growth n') else e_store s in
  {| e_store := store'; e_n := n'; e_active := e_active s ++ [a]; e_a2i := aset a index (e_a2i s);
     e_model := e_model s |}.

(* the loop of _remove_agent re-indexing every agent behind the removed one   :152-155 *)
Definition dec_index (m : list (Z * nat)) (b : Z) : list (Z * nat) :=
  match aget b m with Some i => aset b (Nat.pred i) m | None => m end.

(* _remove_agent   continuous_space.py:140-162 *)
Definition remove_agent (s : estate) (a : Z) : result estate :=
  match aget a (e_a2i s) with
  | None => Err E_INDEX
  | Some index =>
      let active' := remove_nth index (e_active s) in
      let a2i' := fold_left dec_index (skipn index active') (adel a (e_a2i s)) in
      let n := e_n s in
      let store' := firstn index (e_store s)
                    ++ firstn (n - 1 - index) (skipn (S index) (e_store s))
                    ++ skipn (n - 1) (e_store s) in
      Ok {| e_store := store'; e_n := n - 1; e_active := active'; e_a2i := a2i'; e_model := e_model s |}
  end.

(* position setter   continuous_space_agents.py:36-44 *)
Definition set_position (c : ecfg) (s : estate) (a : Z) (p : point) : estate * result unit :=
  let check :=
    if in_closed (ec_bounds c) p then Ok p
    else if ec_torus c then Ok (wrap (ec_bounds c) p) else Err E_OOB in
  match check with
  | Err k => (s, Err k)
  | Ok p' =>
      match aget a (e_a2i s) with
      | None => (s, Err E_INDEX)
      | Some idx =>
          if Nat.ltb idx (length (e_rows s))
          then ({| e_store := list_set idx p' (e_store s); e_n := e_n s;
                   e_active := e_active s; e_a2i := e_a2i s; e_model := e_model s |}, Ok tt)
          else (s, Err E_INDEX)
      end
  end.

(* position getter   continuous_space_agents.py:31-34 *)
Definition get_position (s : estate) (a : Z) : option point :=
  match aget a (e_a2i s) with
  | None => None
  | Some idx => nth_error (e_rows s) idx
  end.

(* legality of an argpartition outcome: k distinct agents of the space, none farther than one left out *)
Definition dist_of (ds : list (Z * Z)) (a : Z) : Z :=
  match aget a ds with Some d => d | None => -1 end.
Definition knn_legal (ds : list (Z * Z)) (k : nat) (out : list Z) : bool :=
  Nat.eqb (length out) k
  && negb (has_dup out)
  && forallb (fun a => mem a (akeys ds)) out
  && forallb (fun a => forallb (fun bd : Z * Z => mem (fst bd) out || (dist_of ds a <=? snd bd)) ds) out.

Definition pair_rows (l : list (Z * Z)) : list (list Z) := map (fun ad : Z * Z => [fst ad; snd ad]) l.

Inductive eop :=
| EAdd (a : Z) (p : point)                       (* ContinuousSpaceAgent(space, model); a.position = p *)
| ESet (a : Z) (p : point)                       (* a.position = p *)
| ERemove (a : Z)                                (* a.remove() *)
| EDistances (q : point)                         (* space.calculate_distances(q) *)
| ERadius (q : point) (r : Z)                    (* space.get_agents_in_radius(q, r) *)
| EKNearest (q : point) (k : nat) (out : list Z) (* space.get_k_nearest_agents(q, k) -> out *)
| EDiffs (q : point)                             (* space.calculate_difference_vector(q) *)
| ENbrRadius (a : Z) (r : Z)                     (* a.get_neighbors_in_radius(r) *)
| ENearestNbrs (a : Z) (k : nat) (raw : list Z)  (* a.get_nearest_neighbors(k); raw = what get_k_nearest_agents(k+1) chose *)
| EPair (a b : Z)                                (* calculate_distances(a.position, [b]) and (b.position, [a]) *)
| EDistancesOf (q : point) (l : list Z)          (* space.calculate_distances(q, agents=l) *)
| EDiffsOf (q : point) (l : list Z)              (* space.calculate_difference_vector(q, agents=l) *)
| EClear.                                        (* model.remove_all_agents(): agent.remove() for every agent of the model *)

(* self._agent_positions[[self._agent_to_index[a] for a in agents]] : the rows of the listed agents, in order *)
Fixpoint positions_of (g : Z -> option point) (l : list Z) : option (list point) :=
  match l with
  | [] => Some []
  | a :: t => match g a, positions_of g t with
              | Some p, Some r => Some (p :: r)
              | _, _ => None
              end
  end.

(* ---- queries.  Every query reads the rows through  zip(active_agents, agent_positions)  and an
   agent's own position through the position getter; `equery` is written over those two readings
   (m, getpos) and the agent count n so that the abstract specification can reuse it verbatim. ---- *)
Section Queries.
  Variable c : ecfg.
  Variable m : list (Z * point).          (* zip(active_agents, agent_positions) *)
  Variable getpos : Z -> option point.    (* agent.position of an agent of the space (through the view) *)
  Variable getrow : Z -> option point.    (* _agent_positions[_agent_to_index[agent]] (the agents= path) *)
  Variable n : nat.                       (* _n_agents *)

  (* calculate_distances(point)   :197-230 : (agent, squared distance) in active order *)
  Definition distances (q : point) : list (Z * Z) :=
    map (fun ar : Z * point => (fst ar, dist2 (ec_torus c) (ec_bounds c) (snd ar) q)) m.

  (* get_agents_in_radius   :232-242   distances <= radius *)
  Definition in_radius (q : point) (r : Z) : list (Z * Z) :=
    filter (fun ad : Z * Z => (0 <=? r) && (snd ad <=? r * r)) (distances q).

  Definition equery (o : eop) : option (result (list Z)) :=
    let bs := ec_bounds c in
    match o with
    | EAdd _ _ | ESet _ _ | ERemove _ | EClear => None
    | EDistances q =>
        if negb (dim_ok bs q) then None
        else Some (Ok (obs_rows (pair_rows (distances q))))
    | ERadius q r =>
        if negb (dim_ok bs q) then None
        else Some (Ok (obs_rows (pair_rows (in_radius q r))))
    | EKNearest q k out =>
        if negb (dim_ok bs q) || Nat.eqb k 0 || Nat.ltb n k then None
        else
          let ds := distances q in
          if knn_legal ds k out
          then Some (Ok (obs_rows (map (fun a => [a; dist_of ds a]) out)))
          else Some (Ok obs_illegal)
    | EDiffs q =>
        if negb (dim_ok bs q) then None
        else Some (Ok (obs_rows (map (fun ar : Z * point =>
                                        fst ar :: diffv (ec_torus c) bs q (snd ar)) m)))
    | ENbrRadius a r =>
        (* get_agents_in_radius(self.position, r), then every entry that `is self` dropped.  r < 0: the answer is
           empty and the wrapper indexes with an empty float mask (IndexError) - outside the quantifier, not issued *)
        match (if r <? 0 then None else getpos a) with
        | None => None
        | Some pa =>
            Some (Ok (obs_rows (pair_rows
                   (filter (fun ad : Z * Z => negb (fst ad =? a)) (in_radius pa r)))))
        end
    | ENearestNbrs a k raw =>
        (* agents, dists = get_k_nearest_agents(self.position, k + 1); every entry that `is self` dropped.
           raw is argpartition's choice of k+1 agents (legality-checked); NOTHING else is assumed: when at least k+1
           other agents sit exactly on self, self may be missing from raw and k+1 agents are returned *)
        match getpos a with
        | None => None
        | Some pa =>
            let ds := distances pa in
            if Nat.eqb k 0 || Nat.ltb n (S k) then None
            else
              if knn_legal ds (S k) raw
              then Some (Ok (obs_rows (map (fun b => [b; dist_of ds b])
                                           (filter (fun b => negb (b =? a)) raw))))
              else Some (Ok obs_illegal)
        end
    | EPair a b =>
        match getpos a, getpos b with
        | Some pa, Some pb =>
            Some (Ok [dist2 (ec_torus c) bs pb pa; dist2 (ec_torus c) bs pa pb])
        | _, _ => None
        end
    | EDistancesOf q l =>
        if negb (dim_ok bs q) then None
        else match positions_of getrow l with
             | None => None
             | Some rows =>
                 Some (Ok (concat (map (fun ar : Z * point =>
                                          [fst ar; dist2 (ec_torus c) bs (snd ar) q]) (combine l rows))))
             end
    | EDiffsOf q l =>
        if negb (dim_ok bs q) then None
        else match positions_of getrow l with
             | None => None
             | Some rows =>
                 Some (Ok (concat (map (fun ar : Z * point =>
                                          fst ar :: diffv (ec_torus c) bs q (snd ar)) (combine l rows))))
             end
    end.
End Queries.

Definition e_getpos (s : estate) (a : Z) : option point :=
  if mem a (e_active s) then get_position s a else None.

Definition e_getrow (s : estate) (a : Z) : option point :=
  if mem a (e_active s)
  then match aget a (e_a2i s) with Some idx => nth_error (e_store s) idx | None => None end
  else None.

(* Agent.__init__ -> model.register_agent: model._agents[agent] = None (a new key: appended) *)
Definition register (s : estate) (a : Z) : estate :=
  {| e_store := e_store s; e_n := e_n s; e_active := e_active s; e_a2i := e_a2i s; e_model := e_model s ++ [a] |}.
(* Agent.remove -> model.deregister_agent: del model._agents[agent] *)
Definition deregister (s : estate) (a : Z) : estate :=
  {| e_store := e_store s; e_n := e_n s; e_active := e_active s; e_a2i := e_a2i s;
     e_model := filter (fun b => negb (b =? a)) (e_model s) |}.

(* ContinuousSpaceAgent.remove   continuous_space_agents.py:69-74 : super().remove() first, then space._remove_agent *)
Definition agent_remove (s : estate) (a : Z) : estate * result unit :=
  let s0 := deregister s a in
  match remove_agent s0 a with
  | Ok s' => (s', Ok tt)
  | Err k => (s0, Err k)
  end.

(* Model.remove_all_agents: for agent in list(self._agents.keys()): agent.remove() *)
Fixpoint remove_all (s : estate) (l : list Z) : estate * result unit :=
  match l with
  | [] => (s, Ok tt)
  | a :: t => match agent_remove s a with
              | (s', Ok _) => remove_all s' t
              | (s', Err k) => (s', Err k)
              end
  end.

Definition estep (c : ecfg) (s : estate) (o : eop) : estate * option (result (list Z)) :=
  let bs := ec_bounds c in
  match o with
  | EAdd a p =>
      if negb (dim_ok bs p) || mem a (e_active s)
         || (negb (ec_torus c) && negb (in_closed bs p))   (* would leave an uninitialised row: not issued *)
      then (s, None)
      else
        let s1 := add_agent (register s a) a in       (* Agent.__init__ registers with the model, then _add_agent *)
        match set_position c s1 a p with
        | (s2, Ok _) => (s2, Some (Ok []))
        | (s2, Err k) => (s2, Some (Err k))
        end
  | ESet a p =>
      if negb (dim_ok bs p) || negb (mem a (e_active s)) then (s, None)
      else
        match set_position c s a p with
        | (s2, Ok _) => (s2, Some (Ok []))
        | (s2, Err k) => (s2, Some (Err k))
        end
  | ERemove a =>
      if negb (mem a (e_active s)) then (s, None)
      else
        match agent_remove s a with
        | (s', Ok _) => (s', Some (Ok []))
        | (s', Err k) => (s', Some (Err k))
        end
  | EClear =>
      match remove_all s (e_model s) with
      | (s', Ok _) => (s', Some (Ok []))
      | (s', Err k) => (s', Some (Err k))
      end
  | _ => (s, equery c (combine (e_active s) (e_rows s)) (e_getpos s) (e_getrow s) (e_n s) o)
  end.

(* what the property talks about: space.agents IN ORDER (AgentSet(self.active_agents)) with every agent's reported
   position, and model.agents in order *)
Definition e_view (s : estate) : list Z :=
  Z.of_nat (length (e_active s))
  :: Z.of_nat (length (e_rows s))
  :: obs_rows_in_order (map (fun a => a :: match get_position s a with Some p => p | None => [-999999] end)
                            (e_active s))
  ++ SEP :: e_model s.

Definition e_obs (s : estate) (r : option (result (list Z))) : list Z :=
  match r with
  | None => obs_noop
  | Some (Err k) => obs_err k ++ SEP :: e_view s
  | Some (Ok v) => v ++ SEP :: e_view s
  end.

Fixpoint e_run (c : ecfg) (s : estate) (ops : list eop) : list (list Z) :=
  match ops with
  | [] => []
  | o :: t => let '(s', r) := estep c s o in e_obs s' r :: e_run c s' t
  end.

Fixpoint e_final (c : ecfg) (s : estate) (ops : list eop) : estate :=
  match ops with
  | [] => s
  | o :: t => e_final c (fst (estep c s o)) t
  end.

(* ---- the histories the correspondence check evaluates ---- *)
Inductive case :=
| CLegacy (c : lcfg) (ops : list lop)
| CExp (c : ecfg) (ops : list eop).

Definition run_case (c : case) : list (list Z) :=
  match c with
  | CLegacy cfg ops => l_run cfg l_init ops
  | CExp cfg ops => e_run cfg (e_init cfg) ops
  end.
