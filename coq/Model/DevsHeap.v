(* The same simulators as Model/Devs.v, but with the event list kept as the heapq ARRAY (Model/Heap.v:
   heappush / heappop transcribed from CPython) instead of the list ordered by the key.  Used only
   (a) by the optional heapq tie of the harness (VERIF_HEAPQ_TIE=1: the correspondence then also compares the
   order of EventList._events after every operation), and (b) by the refinement theorem
   C14_heap_simulator_refines (Proofs/DevsHeapSimProofs.v): its observations are those of Model/Devs.v.
   Every function below is the function of the same name (without the h_ prefix) in Devs.v with
   ev_insert replaced by heappush and the head of the list by heappop.  Definitions only. *)
From Coq Require Import ZArith List Bool.
From Mesa Require Import Generated.Tables Model.Devs Model.Heap.
Import ListNotations.
Open Scope Z_scope.

Definition hpush (h : list event) (e : event) : list event := heappush event ev_ltb h e.
Definition hpop (h : list event) : option (event * list event) := heappop event ev_ltb h.

(* EventList.pop_event:  while self._events: event = heappop(self._events); if not event.CANCELED: return event
   fuel = number of elements + 1; None = IndexError (the array is then empty) *)
Fixpoint hpop_loop (fuel : nat) (h : list event) : option (event * list event) :=
  match fuel with
  | O => None
  | S f =>
      match hpop h with
      | None => None
      | Some (e, h') => if e_cancelled e then hpop_loop f h' else Some (e, h')
      end
  end.
Definition hpop_event (h : list event) : option (event * list event) := hpop_loop (S (length h)) h.

(* sorted(self._events) of the repaired peak_ahead: insertion sort by __lt__ *)
Definition hsorted (h : list event) : list event := fold_right ev_insert [] h.
Definition h_peak_ahead (n : nat) (h : list event) : list event := firstn n (live (hsorted h)).

Definition h_schedule (cfg : config) (st : state) (t : Z) (p : prio_name) (tag holder : Z) (stp : bool)
           (body : list act) : state * Z :=
  let e := mk_event t p (s_uid st) tag holder stp body in
  let st1 := set_uid st (s_uid st + 1) in
  if unit_ok (c_abm cfg) t then (set_events st1 (hpush (s_events st1) e), R_OK)
  else (st1, R_UNIT).

Definition h_schedule_relative (cfg : config) (st : state) (d : Z) (p : prio_name) (tag holder : Z)
           (stp : bool) (body : list act) : state * Z :=
  if d <? 0 then (st, R_PAST) else h_schedule cfg st (s_time st + d) p tag holder stp body.

Definition h_do_sched (cfg : config) (st : state) (k : skind) (t : Z) (p : prio_name) (tag holder : Z)
           (body : list act) : state * Z :=
  if memz holder (s_dead st) then (st, R_SKIP) else
  match k with
  | KAbs => if s_time st >? t then (st, R_PAST) else h_schedule cfg st t p tag holder false body
  | KRel => h_schedule_relative cfg st t p tag holder false body
  | KNow => h_schedule_relative cfg st 0 p tag holder false body
  | KTick => if c_abm cfg then h_schedule_relative cfg st SCALE p tag holder false body else (st, R_SKIP)
  end.

Definition h_do_act (cfg : config) (st : state) (a : act) : state * list logitem :=
  match a with
  | ASched k t p tag h body =>
      let '(st1, rc) := h_do_sched cfg st k t p tag h body in
      (st1, [LSched rc tag (if rc =? R_OK then sched_time st k t else 0)])
  | ACancel tag => (do_cancel st tag, [LCancel tag])
  | ADrop h => (do_drop st h, [LDrop h])
  | ARaise => (st, [LRaise])
  end.

Fixpoint h_do_acts (cfg : config) (st : state) (acts : list act) : state * list logitem :=
  match acts with
  | [] => (st, [])
  | a :: r =>
      let '(st1, l1) := h_do_act cfg st a in
      if has_raise l1 then (st1, l1) else
      let '(st2, l2) := h_do_acts cfg st1 r in
      (st2, l1 ++ l2)
  end.

Definition h_execute (cfg : config) (st : state) (e : event) : state * list logitem :=
  if e_cancelled e then (st, [])
  else if e_step e then
    let st1 := set_steps st (s_steps st + 1) in
    let '(st2, l) := h_do_acts cfg st1 (script_for (s_steps st1) (c_script cfg)) in
    (st2, LStep (s_steps st1) (s_time st1) :: l)
  else if memz (e_holder e) (s_dead st) then (st, [])
  else
    let '(st2, l) := h_do_acts cfg st (e_body e) in
    (st2, LExec e (s_time st) :: l).

Definition h_exec_event (cfg : config) (st : state) (e : event) : state * list logitem :=
  let st0 := set_time st (e_time e) in
  let st1 := if c_abm cfg && e_step e
             then fst (h_schedule_relative cfg st0 SCALE gen_step_prio (-1) (-1) true [])
             else st0 in
  h_execute cfg st1 e.

Fixpoint h_run_loop (cfg : config) (fuel : nat) (endt : Z) (st : state) : state * list logitem * bool :=
  match fuel with
  | O => (st, [], false)
  | S n =>
      match hpop_event (s_events st) with
      | None => (set_time (set_events st []) endt, [], true)
      | Some (e, rest) =>
          if e_time e <=? endt then
            let '(st1, l1) := h_exec_event cfg (set_events st rest) e in
            if has_raise l1 then (st1, l1, false) else
            let '(st2, l2, ok) := h_run_loop cfg n endt st1 in
            (st2, l1 ++ l2, ok)
          else (set_events (set_time (set_events st rest) endt) (hpush rest e), [], true)
      end
  end.

Definition h_run_next (cfg : config) (st : state) : state * list logitem :=
  match hpop_event (s_events st) with
  | None => (set_events st [], [])
  | Some (e, rest) => h_exec_event cfg (set_events st rest) e
  end.

(* the observation of Devs.view, computed from the array: the live events in pop order *)
Definition h_view (st : state) (log : list logitem) : list Z :=
  let lv := live (hsorted (s_events st)) in
  [s_time st; s_steps st; Z.of_nat (length lv)] ++ flat_map enc_ev lv ++ flat_map enc_log log.

(* the array itself, in array order: tag of each element; a cancelled event has lost its arguments (-8) *)
Definition enc_slot (e : event) : Z := if e_cancelled e then -8 else e_tag e.
Definition h_array (st : state) : list Z := map enc_slot (s_events st).

Definition h_step_op (cfg : config) (fuel : nat) (st : state) (o : op) : state * list Z :=
  match o with
  | OSched k t p tag h body =>
      let '(st1, rc) := h_do_sched cfg st k t p tag h body in
      let hd := if rc =? R_OK then [0] else if rc =? R_SKIP then [-2] else [-1; rc] in
      (st1, hd ++ h_view st1 [])
  | OCancel tag => let st1 := do_cancel st tag in (st1, 0 :: h_view st1 [])
  | ODrop h => let st1 := do_drop st h in (st1, 0 :: h_view st1 [])
  | ORunUntil t =>
      let '(st1, l, ok) := h_run_loop cfg fuel t st in
      (st1, run_head l ok ++ h_view st1 l)
  | ORunFor d =>
      let '(st1, l, ok) := h_run_loop cfg fuel (s_time st + d) st in
      (st1, run_head l ok ++ h_view st1 l)
  | ORunNext => let '(st1, l) := h_run_next cfg st in (st1, run_head l true ++ h_view st1 l)
  | OPeek n =>
      match s_events st with
      | [] => (st, [-1; E_EMPTY])
      | _ => let pk := h_peak_ahead (Z.to_nat n) (s_events st) in
             (st, 0 :: Z.of_nat (length pk) :: flat_map enc_ev pk)
      end
  end.

(* per operation: (the observation of Devs.run_ops, the heap array after the operation) *)
Fixpoint h_run_ops (cfg : config) (fuel : nat) (st : state) (ops : list op) : list (list Z * list Z) :=
  match ops with
  | [] => []
  | o :: r => let '(st1, ob) := h_step_op cfg fuel st o in (ob, h_array st1) :: h_run_ops cfg fuel st1 r
  end.

Definition h_init (cfg : config) : state :=
  if c_abm cfg then fst (h_schedule_relative cfg fresh SCALE gen_step_prio (-1) (-1) true []) else fresh.

Definition h_step_op_unset (cfg : config) (fuel : nat) (st : state) (o : op) : state * list Z :=
  if is_run o then (st, [-1; E_NOSETUP]) else h_step_op cfg fuel st o.
Fixpoint h_run_ops_unset (cfg : config) (fuel : nat) (st : state) (ops : list op) : list (list Z * list Z) :=
  match ops with
  | [] => []
  | o :: r => let '(st1, ob) := h_step_op_unset cfg fuel st o in (ob, h_array st1) :: h_run_ops_unset cfg fuel st1 r
  end.

Definition h_run_case (c : case) : list (list Z * list Z) :=
  if c_setup c then h_run_ops (c_cfg c) (c_fuel c) (h_init (c_cfg c)) (c_ops c)
  else h_run_ops_unset (c_cfg c) (c_fuel c) fresh (c_ops c).

(* what the optional tie compares: observation, separator -7, array *)
Definition run_case_heap (c : case) : list (list Z) :=
  map (fun oa => fst oa ++ (-7) :: snd oa) (h_run_case c).
