(* State, environment and list primitives of the cell-space model (Model/CellSpace.v), in a file of their own so
   that the code regenerated from the source on every run (Generated/Tables.v, harness/tables/cellspace_code.py)
   can be written with them.  Everything lives in module CS; Model/CellSpace.v re-exports it. *)
From Coq Require Import ZArith List Bool.
From Mesa Require Import Common.ListX.
Import ListNotations.
Open Scope Z_scope.

Module CS.
(* ---------------------------------------------------------------- environment (static) *)
Inductive akind := KCell | KFixed | KGrid2D.   (* CellAgent | FixedAgent | Grid2DMovingAgent *)

Record env := {
  e_ncells : Z;                              (* cells are 0 .. ncells-1, in space._cells order *)
  e_nagents : Z;                             (* agents are 1 .. nagents, created up front *)
  e_cap : Z -> option Z;                     (* cell.capacity *)
  e_conn : Z -> list Z -> option Z;          (* cell.connections.get(direction) *)
  e_grid : bool;                             (* Grid subclass: 'empty' property layer, _try_random *)
  e_kind : Z -> akind;
  e_dirs : list (list Z * list Z)            (* Grid2DMovingAgent.DIRECTION_MAP: name codes -> vector *)
}.

(* ---------------------------------------------------------------- state *)
Record state := {
  content : Z -> list Z;      (* cell._agents, in list order *)
  flag : Z -> bool;           (* cell.empty  (the grid's 'empty' layer at the cell's coordinate) *)
  ptr : Z -> option Z;        (* agent._mesa_cell *)
  reg : Z -> bool             (* agent is registered with the model *)
}.

Definition upd {A : Type} (f : Z -> A) (k : Z) (v : A) : Z -> A :=
  fun x => if x =? k then v else f x.

Definition set_content (s : state) (c : Z) (l : list Z) : state :=
  {| content := upd (content s) c l; flag := flag s; ptr := ptr s; reg := reg s |}.
Definition set_flag (s : state) (c : Z) (b : bool) : state :=
  {| content := content s; flag := upd (flag s) c b; ptr := ptr s; reg := reg s |}.
Definition set_ptr (s : state) (a : Z) (p : option Z) : state :=
  {| content := content s; flag := flag s; ptr := upd (ptr s) a p; reg := reg s |}.
Definition set_reg (s : state) (a : Z) (b : bool) : state :=
  {| content := content s; flag := flag s; ptr := ptr s; reg := upd (reg s) a b |}.

(* ---------------------------------------------------------------- errors / results *)
Definition E_FULL : Z := 1.      (* Exception("ERROR: Cell is full") *)
Definition E_FIXED : Z := 2.     (* ValueError("Cannot move agent in FixedCell") *)
Definition E_NODIR : Z := 3.     (* ValueError("No cell in direction ...") *)
Definition E_BADDIR : Z := 4.    (* ValueError("Invalid direction: ...") *)
Definition E_ATTR : Z := 5.      (* AttributeError: 'NoneType' object has no attribute ... *)
Definition E_NOTIN : Z := 6.     (* ValueError: list.remove(x): x not in list *)
Definition E_NOEMPTY : Z := 7.   (* IndexError: random.choice of an empty list *)
Definition E_LOOP : Z := 8.      (* rejection sampling on a space without an empty cell: never run *)

Fixpoint memz (a : Z) (l : list Z) : bool :=
  match l with [] => false | x :: t => (x =? a) || memz a t end.

(* list.remove(a): first occurrence *)
Fixpoint remove_first (a : Z) (l : list Z) : list Z :=
  match l with [] => [] | x :: t => if x =? a then t else x :: remove_first a t end.

Definition is_nil (l : list Z) : bool := match l with [] => true | _ => false end.

Definition zlen (l : list Z) : Z := Z.of_nat (length l).

Definition opt_eqb (x y : option Z) : bool :=
  match x, y with
  | None, None => true
  | Some a, Some b => a =? b
  | _, _ => false
  end.

(* str.lower on ASCII *)
Definition lower (name : list Z) : list Z :=
  map (fun ch => if (65 <=? ch) && (ch <=? 90) then ch + 32 else ch) name.

Fixpoint zlist_eqb (a b : list Z) : bool :=
  match a, b with
  | [], [] => true
  | x :: a', y :: b' => (x =? y) && zlist_eqb a' b'
  | _, _ => false
  end.

Fixpoint lookup_dir (tbl : list (list Z * list Z)) (name : list Z) : option (list Z) :=
  match tbl with
  | [] => None
  | (k, v) :: t => if zlist_eqb k name then Some v else lookup_dir t name
  end.

Definition cells_dom (e : env) : list Z := zrange 0 (e_ncells e - 1).
Definition agents_dom (e : env) : list Z := zrange 1 (e_nagents e).

(* ---- helpers of the generated code ---- *)
(* truth value of an Optional[int] (`self.capacity and ...`) and its value where it is one *)
Definition opt_truthy (c : option Z) : bool := match c with Some k => negb (k =? 0) | None => false end.
Definition opt_val (c : option Z) : Z := match c with Some k => k | None => 0 end.
Definition is_some (c : option Z) : bool := match c with Some _ => true | None => false end.
(* `name in DIRECTION_MAP`, `DIRECTION_MAP[name]` *)
Definition dir_mem (tbl : list (list Z * list Z)) (name : list Z) : bool :=
  match lookup_dir tbl name with Some _ => true | None => false end.
Definition dir_get (tbl : list (list Z * list Z)) (name : list Z) : list Z :=
  match lookup_dir tbl name with Some v => v | None => [] end.
(* `for _ in range(n): <body re-binding one name, possibly raising>`: inl = value after the loop, inr = raised *)
Fixpoint loop_n {A : Type} (n : nat) (body : A -> A + Z) (x : A) : A + Z :=
  match n with
  | O => inl x
  | S n' => match body x with inl y => loop_n n' body y | inr k => inr k end
  end.
End CS.
