(* Level-wise expansion ("r-hop ball") over an arbitrary adjacency function, written as the
   loops in mesa/space.py:_HexGrid.get_neighborhood do it (a frontier queue and a growing
   `coordinates` set), and the proof that it computes exactly the nodes reachable by a path of
   1..r adjacency steps. *)
From Coq Require Import List Bool Arith Lia.
From Mesa Require Import Common.ListX.
Import ListNotations.

Section Reach.
  Context {A : Type} (eqb : A -> A -> bool).
  Hypothesis eqb_spec : forall a b, eqb a b = true <-> a = b.
  Variable adj : A -> list A.

  (* path of exactly k adjacency steps, last step explicit *)
  Fixpoint hop (k : nat) (a b : A) : Prop :=
    match k with
    | O => a = b
    | S k' => exists m, hop k' a m /\ In b (adj m)
    end.
  Definition within (r : nat) (a b : A) : Prop := exists k, 1 <= k <= r /\ hop k a b.

  (* one level: every queued node is expanded; neighbours not yet in `seen` are added to the set
     and to the next frontier *)
  Fixpoint expand (frontier seen : list A) : list A * list A :=
    match frontier with
    | [] => ([], seen)
    | x :: t =>
        let new := filter (fun c => negb (memb eqb c seen)) (adj x) in
        let '(f', s') := expand t (new ++ seen) in
        (new ++ f', s')
    end.

  Fixpoint levels (r : nat) (frontier seen : list A) : list A :=
    match r with
    | O => seen
    | S r' => let '(f, s) := expand frontier seen in levels r' f s
    end.

  Definition ball (r : nat) (start : A) : list A := levels r [start] [].

  Lemma expand_spec frontier : forall seen f' s',
    expand frontier seen = (f', s') ->
    (forall c, In c seen -> In c s') /\
    (forall x c, In x frontier -> In c (adj x) -> In c s') /\
    (forall c, In c s' -> In c seen \/ (In c f' /\ exists x, In x frontier /\ In c (adj x))) /\
    (forall c, In c f' -> In c s' /\ exists x, In x frontier /\ In c (adj x)).
  Proof.
    induction frontier as [|x t IH]; intros seen f' s' H; simpl in H.
    - inversion H; subst. split; [auto|]. split; [intros x c []|]. split; [auto|]. intros c [].
    - set (new := filter (fun c => negb (memb eqb c seen)) (adj x)) in *.
      destruct (expand t (new ++ seen)) as [f1 s1] eqn:E. inversion H; subst. clear H.
      destruct (IH _ _ _ E) as [H1 [H2 [H3 H4]]].
      assert (forall c, In c new <-> In c (adj x) /\ ~ In c seen) as Hnew.
      { intros c. unfold new. rewrite filter_In, negb_true_iff.
        rewrite <- (memb_In eqb eqb_spec c seen). split; intros [Ha Hb]; (split; [exact Ha|]).
        - congruence.
        - destruct (memb eqb c seen); [exfalso; apply Hb; reflexivity|reflexivity]. }
      split; [|split; [|split]].
      + intros c Hc. apply H1. apply in_or_app. right. exact Hc.
      + intros y c [<-|Hy] Hc.
        * destruct (memb eqb c seen) eqn:Em.
          -- apply H1. apply in_or_app. right. apply (memb_In eqb eqb_spec). exact Em.
          -- apply H1. apply in_or_app. left. apply Hnew. split; [exact Hc|].
             rewrite <- (memb_In eqb eqb_spec). congruence.
        * apply (H2 y c Hy Hc).
      + intros c Hc. destruct (H3 c Hc) as [Hs|[Hf [y [Hy Hcy]]]].
        * apply in_app_or in Hs. destruct Hs as [Hn|Hs]; [|left; exact Hs].
          right. split; [apply in_or_app; left; exact Hn|].
          exists x. split; [left; reflexivity|]. apply Hnew in Hn. tauto.
        * right. split; [apply in_or_app; right; exact Hf|]. exists y. split; [right; exact Hy|exact Hcy].
      + intros c H. apply in_app_or in H. destruct H as [Hn|Hf].
        * split; [apply H1; apply in_or_app; left; exact Hn|].
          exists x. split; [left; reflexivity|]. apply Hnew in Hn. tauto.
        * destruct (H4 c Hf) as [Hs' [y [Hy Hc]]]. split; [exact Hs'|].
          exists y. split; [right; exact Hy|exact Hc].
  Qed.

  Record inv (start : A) (k : nat) (F S : list A) : Prop := {
    inv_sound : forall c, In c S -> exists j, 1 <= j <= k /\ hop j start c;
    inv_front : forall c, In c F -> hop k start c;
    inv_expanded : forall m, In m S \/ m = start -> In m F \/ (forall c, In c (adj m) -> In c S);
    inv_complete : forall j c, 1 <= j <= k -> hop j start c -> In c S
  }.

  Lemma inv_init start : inv start 0 [start] [].
  Proof.
    constructor.
    - intros c [].
    - intros c [<-|[]]. reflexivity.
    - intros m [Hm|Hm]; [destruct Hm|subst m]. left. left. reflexivity.
    - intros j c Hj. lia.
  Qed.

  Lemma inv_step start k F S F' S' :
    inv start k F S -> expand F S = (F', S') -> inv start (Datatypes.S k) F' S'.
  Proof.
    intros [Hs Hf He Hc] E. destruct (expand_spec F S F' S' E) as [H1 [H2 [H3 H4]]].
    constructor.
    - intros c Hin. destruct (H3 c Hin) as [Hold|[_ [x [Hx Hcx]]]].
      + destruct (Hs c Hold) as [j [Hj Hh]]. exists j. split; [lia|exact Hh].
      + exists (Datatypes.S k). split; [lia|]. simpl. exists x. split; [apply Hf; exact Hx|exact Hcx].
    - intros c Hin. destruct (H4 c Hin) as [_ [x [Hx Hcx]]]. simpl. exists x. split; [apply Hf; exact Hx|exact Hcx].
    - intros m Hm.
      assert (In m S \/ m = start \/ (~ In m S /\ In m S')) as Hcase.
      { destruct Hm as [Hm|Hm]; [|tauto]. destruct (H3 m Hm) as [Ho|_]; [tauto|].
        destruct (memb eqb m S) eqn:Em.
        - left. apply (memb_In eqb eqb_spec). exact Em.
        - right. right. split; [|exact Hm]. rewrite <- (memb_In eqb eqb_spec). congruence. }
      destruct Hcase as [Ho|[Ho|[Hn Hin]]].
      + destruct (He m (or_introl Ho)) as [HF|Hall].
        * right. intros c Hcm. apply (H2 m c HF Hcm).
        * right. intros c Hcm. apply H1. apply Hall. exact Hcm.
      + destruct (He m (or_intror Ho)) as [HF|Hall].
        * right. intros c Hcm. apply (H2 m c HF Hcm).
        * right. intros c Hcm. apply H1. apply Hall. exact Hcm.
      + destruct (H3 m Hin) as [Ho|[HF _]]; [contradiction|]. left. exact HF.
    - intros j c Hj Hh.
      destruct (Nat.eq_dec j (Datatypes.S k)) as [->|Hne].
      + simpl in Hh. destruct Hh as [m [Hm Hcm]].
        assert (In m S \/ m = start) as Hms.
        { destruct k as [|k']; [right; simpl in Hm; congruence|].
          left. apply (Hc (Datatypes.S k') m); [lia|exact Hm]. }
        destruct (He m Hms) as [HF|Hall].
        * apply (H2 m c HF Hcm).
        * apply H1. apply Hall. exact Hcm.
      + apply H1. apply (Hc j c); [lia|exact Hh].
  Qed.

  Lemma levels_inv start r : forall k F S,
    inv start k F S -> exists F', inv start (k + r) F' (levels r F S).
  Proof.
    induction r as [|r IH]; intros k F S Hi; simpl.
    - exists F. replace (k + 0) with k by lia. exact Hi.
    - destruct (expand F S) as [F1 S1] eqn:E.
      destruct (IH (Datatypes.S k) F1 S1 (inv_step _ _ _ _ _ _ Hi E)) as [F' HF'].
      exists F'. replace (k + Datatypes.S r) with (Datatypes.S k + r) by lia. exact HF'.
  Qed.

  (* the growing set is exactly the nodes reachable in 1..r steps *)
  Theorem ball_spec r start c : In c (ball r start) <-> within r start c.
  Proof.
    unfold ball. destruct (levels_inv start r 0 [start] [] (inv_init start)) as [F' [Hs _ _ Hc]].
    simpl in *. split.
    - intros H. destruct (Hs c H) as [j [Hj Hh]]. exists j. split; [lia|exact Hh].
    - intros [j [Hj Hh]]. apply (Hc j c); [lia|exact Hh].
  Qed.
End Reach.
