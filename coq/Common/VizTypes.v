(* Types and small helpers shared by Model/Viz.v and by the code that harness/tables/viz_code.py
   GENERATES from mesa/visualization (Generated/Tables.v imports this file, Model/Viz.v re-exports it):
   coordinates, NumPy-style mask selection, agents, portrayal dicts, columns / markers / scatter groups,
   Altair rows, layers, constructor signatures, model_params values.  Definitions only. *)
From Coq Require Import ZArith List Bool.
From Mesa Require Import Common.ListX.
Import ListNotations.
Open Scope Z_scope.

Definition coord := (Z * Z)%type.
Definition coord_eqb (a b : coord) : bool := (fst a =? fst b) && (snd a =? snd b).

(* ------------------------------------------------------------------ small list helpers *)
(* numpy boolean-mask indexing  v[mask] *)
Fixpoint select {A : Type} (mask : list bool) (l : list A) : list A :=
  match mask, l with
  | b :: m, x :: t => if b then x :: select m t else select m t
  | _, _ => []
  end.

Fixpoint map2 {A B C : Type} (f : A -> B -> C) (la : list A) (lb : list B) : list C :=
  match la, lb with
  | a :: ta, b :: tb => f a b :: map2 f ta tb
  | _, _ => []
  end.

Definition memz (n : Z) (l : list Z) : bool := existsb (Z.eqb n) l.

Definition nthz {A : Type} (i : Z) (l : list A) (d : A) : A := nth (Z.to_nat i) l d.

Record agent := { a_id : Z; a_kind : Z; a_pos : option coord; a_cell : option coord }.

(* what agent_portrayal(agent) returns: the four keys of the statement, each optional *)
Record pdict := { pd_size : option Z; pd_color : option Z; pd_marker : option Z; pd_zorder : option Z }.
Definition pd_empty : pdict := {| pd_size := None; pd_color := None; pd_marker := None; pd_zorder := None |}.

Definition get {A : Type} (o : option A) (d : A) : A := match o with Some x => x | None => d end.

(* the dict of columns built by collect_agent_data *)
Record cols := {
  cl_loc : list coord; cl_s : list (Z * Z); cl_c : list Z; cl_m : list Z; cl_z : list Z }.
Definition cols_empty : cols := {| cl_loc := []; cl_s := []; cl_c := []; cl_m := []; cl_z := [] |}.

(* one marker as it reaches Matplotlib *)
Record mark := { m_loc : coord; m_s : Z * Z; m_c : Z; m_m : Z; m_z : Z }.

(* one ax.scatter call of _scatter *)
Record group := {
  g_marker : Z; g_zorder : Z;
  g_x : list Z; g_y : list Z; g_s : list (Z * Z); g_c : list Z }.

Fixpoint zip_marks (mk z : Z) (xs ys : list Z) (ss : list (Z * Z)) (cs : list Z) : list mark :=
  match xs, ys, ss, cs with
  | x :: xs', y :: ys', s :: ss', c :: cs' =>
      {| m_loc := (x, y); m_s := s; m_c := c; m_m := mk; m_z := z |} :: zip_marks mk z xs' ys' ss' cs'
  | _, _, _, _ => []
  end.
Definition group_marks (g : group) : list mark :=
  zip_marks (g_marker g) (g_zorder g) (g_x g) (g_y g) (g_s g) (g_c g).

(* one dict of chart.data.values: the portrayal's own keys plus x, y *)
Record arow := { ar_loc : coord; ar_d : pdict }.

Definition layer := list (list Z).                       (* data[x][y], shape (width, height) *)
Definition dget (d : layer) (x y : Z) : Z := nthz y (nthz x d []) 0.
(* data.T : rows of the image, row y = [data[0][y], data[1][y], ...] *)
Definition transpose (w h : Z) (d : layer) : list (list Z) :=
  map (fun y => map (fun x => dget d x y) (zrange 0 (w - 1))) (zrange 0 (h - 1)).
Definition ravel (rows : list (list Z)) : list Z := concat rows.

Inductive pkind := PosOnly | PosOrKw | VarPos | KwOnly | VarKw.
Definition pkind_eqb (a b : pkind) : bool :=
  match a, b with
  | PosOnly, PosOnly | PosOrKw, PosOrKw | VarPos, VarPos | KwOnly, KwOnly | VarKw, VarKw => true
  | _, _ => false
  end.
(* one entry of inspect.signature(init_func).parameters: name, kind, has a default *)
Record param := { pn : Z; pk : pkind; pdef : bool }.
Definition is_kind (k : pkind) (p : param) : bool := pkind_eqb (pk p) k.
Definition SELF : Z := 0.                     (* the name "self" *)

Definition E_VARARGS : Z := 1.
Definition E_MISSING : Z := 2.
Definition E_INVALID : Z := 3.
Definition E_POSONLY : Z := 4.

(* model_parameters.get(name): a dict lookup by name *)
Definition lookup_param (s : list param) (n : Z) : option param := find (fun p => pn p =? n) s.
Definition kw_passable (p : param) : bool := is_kind PosOrKw p || is_kind KwOnly p.

Fixpoint first_nonzero (l : list Z) : Z :=
  match l with [] => 0 | x :: t => if x =? 0 then first_nonzero t else x end.

(* a value of the model_params dict: fixed value, Slider object, dict with / without "type";
   the integer is the payload (what must not get lost) *)
Inductive pvalue := VFixed (v : Z) | VSlider (v : Z) | VDictType (v : Z) | VDictNoType (v : Z).

Definition truthy (o : option bool) : bool := match o with Some true => true | _ => false end.

(* --- vocabulary of the generated code --- *)
(* portray.pop(key, default) for the four keys; sizes are in quarter units (see Model/Viz.v) *)
Definition reduce (q : Z * Z) : Z * Z :=
  let g := Z.gcd (fst q) (snd q) in if g =? 0 then q else (fst q / g, snd q / g).
Definition pop_size (d : pdict) (dflt : Z * Z) : Z * Z :=
  match pd_size d with Some s => reduce (s, 4) | None => dflt end.
Definition pop_color (d : pdict) (dflt : Z) : Z := get (pd_color d) dflt.
Definition pop_marker (d : pdict) (dflt : Z) : Z := get (pd_marker d) dflt.
Definition pop_zorder (d : pdict) (dflt : Z) : Z := get (pd_zorder d) dflt.
(* isinstance(param, Slider), isinstance(param, dict), "type" in param *)
Definition is_slider (v : pvalue) : bool := match v with VSlider _ => true | _ => false end.
Definition is_dict (v : pvalue) : bool := match v with VDictType _ | VDictNoType _ => true | _ => false end.
Definition has_type (v : pvalue) : bool := match v with VDictType _ => true | _ => false end.
Definition b2z (b : bool) : Z := if b then 1 else 0.
(* the keys of several portrayal dicts together: d.setdefault(key, value) over all rows, first value seen kept *)
Definition oflag {A : Type} (o : option A) : Z := match o with Some _ => 1 | None => 0 end.
Definition osetdefault {A : Type} (acc new : option A) : option A := match acc with Some x => Some x | None => new end.
Definition pd_union (acc d : pdict) : pdict :=
  {| pd_size := osetdefault (pd_size acc) (pd_size d); pd_color := osetdefault (pd_color acc) (pd_color d);
     pd_marker := osetdefault (pd_marker acc) (pd_marker d); pd_zorder := osetdefault (pd_zorder acc) (pd_zorder d) |}.
Definition rows_union (rows : list arow) : pdict := fold_left pd_union (map ar_d rows) pd_empty.
Definition rows_first (rows : list arow) : pdict := match rows with r :: _ => ar_d r | [] => pd_empty end.
(* for x in xs: body(x) raising with code body(x) <> 0 : the code of the first raise, 0 if none *)
Definition first_raise {A : Type} (body : A -> Z) (xs : list A) : Z := first_nonzero (map body xs).
