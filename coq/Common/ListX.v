(* Small list utilities shared by the models: Python-dict-like insertion-ordered keys,
   association lists, integer ranges. Definitions and their basic lemmas. *)
From Coq Require Import ZArith List Bool Lia Permutation.
Import ListNotations.

Section Dedup.
  Context {A : Type} (eqb : A -> A -> bool).
  Hypothesis eqb_spec : forall a b, eqb a b = true <-> a = b.

  Definition memb (x : A) (l : list A) : bool := existsb (eqb x) l.

  Lemma memb_In x l : memb x l = true <-> In x l.
  Proof.
    unfold memb. rewrite existsb_exists. split.
    - intros [y [Hy He]]. apply eqb_spec in He. subst. exact Hy.
    - intros H. exists x. split; [exact H|]. apply eqb_spec. reflexivity.
  Qed.

  (* keys of a dict filled by successive  d[k] = True : first insertion position is kept *)
  Fixpoint dedup_acc (seen l : list A) : list A :=
    match l with
    | [] => []
    | x :: t => if memb x seen then dedup_acc seen t else x :: dedup_acc (x :: seen) t
    end.
  Definition dedup_first (l : list A) : list A := dedup_acc [] l.

  Lemma dedup_acc_In seen l x :
    In x (dedup_acc seen l) <-> In x l /\ ~ In x seen.
  Proof.
    revert seen. induction l as [|y t IH]; intros seen; simpl.
    - tauto.
    - destruct (memb y seen) eqn:E.
      + apply memb_In in E. rewrite IH. split.
        * intros [H1 H2]. tauto.
        * intros [[H1|H1] H2]; [subst; tauto|tauto].
      + assert (~ In y seen) as Hn by (rewrite <- memb_In; congruence).
        simpl. rewrite IH. simpl. split.
        * intros [H|[H1 H2]]; [subst; tauto|]. tauto.
        * intros [[H1|H1] H2]; [tauto|].
          destruct (eqb y x) eqn:Eyx.
          -- apply eqb_spec in Eyx. tauto.
          -- right. split; [exact H1|]. intros [H|H]; [|tauto].
             subst. assert (eqb x x = true) by (apply eqb_spec; reflexivity). congruence.
  Qed.

  Lemma dedup_first_In l x : In x (dedup_first l) <-> In x l.
  Proof. unfold dedup_first. rewrite dedup_acc_In. simpl. tauto. Qed.

  Lemma dedup_acc_NoDup seen l : NoDup (dedup_acc seen l).
  Proof.
    revert seen. induction l as [|y t IH]; intros seen; simpl.
    - constructor.
    - destruct (memb y seen) eqn:E; [apply IH|].
      constructor; [|apply IH].
      rewrite dedup_acc_In. simpl. tauto.
  Qed.

  Lemma dedup_first_NoDup l : NoDup (dedup_first l).
  Proof. apply dedup_acc_NoDup. Qed.

  (* dict.pop(k, None) on a list of distinct keys *)
  Definition remove_key (x : A) (l : list A) : list A := filter (fun y => negb (eqb x y)) l.

  Lemma remove_key_In x l y : In y (remove_key x l) <-> In y l /\ y <> x.
  Proof.
    unfold remove_key. rewrite filter_In. split.
    - intros [H1 H2]. split; [exact H1|]. intros ->.
      assert (eqb x x = true) by (apply eqb_spec; reflexivity).
      rewrite H in H2. discriminate.
    - intros [H1 H2]. split; [exact H1|].
      destruct (eqb x y) eqn:E; [|reflexivity].
      apply eqb_spec in E. congruence.
  Qed.

  Lemma remove_key_NoDup x l : NoDup l -> NoDup (remove_key x l).
  Proof. intros H. unfold remove_key. apply NoDup_filter. exact H. Qed.
End Dedup.

(* range(lo, hi + 1) *)
Definition zrange (lo hi : Z) : list Z :=
  map (fun i => (lo + Z.of_nat i)%Z) (seq 0 (Z.to_nat (hi - lo + 1))).

Lemma zrange_In lo hi z : In z (zrange lo hi) <-> (lo <= z <= hi)%Z.
Proof.
  unfold zrange. rewrite in_map_iff. split.
  - intros [i [Hi Hin]]. apply in_seq in Hin. lia.
  - intros H. exists (Z.to_nat (z - lo)). split; [lia|]. apply in_seq. lia.
Qed.

(* insertion sort on Z, used by observation canonicalisation (sets compared as sorted lists) *)
Fixpoint zinsert (x : Z) (l : list Z) : list Z :=
  match l with
  | [] => [x]
  | y :: t => if (x <=? y)%Z then x :: l else y :: zinsert x t
  end.
Definition zsort (l : list Z) : list Z := fold_right zinsert [] l.

Lemma zinsert_perm x l : Permutation (x :: l) (zinsert x l).
Proof.
  induction l as [|y t IH]; simpl; [reflexivity|].
  destruct (x <=? y)%Z; [reflexivity|].
  rewrite perm_swap. constructor. exact IH.
Qed.

Lemma zsort_perm l : Permutation l (zsort l).
Proof.
  induction l as [|x t IH]; simpl; [constructor|].
  rewrite <- zinsert_perm. constructor. exact IH.
Qed.

Definition has_dup (l : list Z) : bool :=
  (fix go (l : list Z) : bool :=
     match l with
     | [] => false
     | x :: t => existsb (Z.eqb x) t || go t
     end) l.
