(* Observation hash used ONLY by the scratch Cases files of the correspondence check (T2).
   No file under Model/, Proofs/ or Properties/ imports this file, so the primitive Uint63
   never appears under Print Assumptions of a property theorem.
   The same three lines live in harness/obshash.py; setup_cmd cross-checks fixed vectors. *)
From Coq Require Import ZArith List Bool Uint63.
Import ListNotations.

Definition hstep (acc : int) (z : Z) : int := (acc * 1000003 + of_Z z + 1)%uint63.
Definition hash_obs (l : list Z) : int := fold_left hstep l 7%uint63.

Fixpoint ints_eqb (a b : list int) : bool :=
  match a, b with
  | [], [] => true
  | x :: a', y :: b' => Uint63.eqb x y && ints_eqb a' b'
  | _, _ => false
  end.

(* index of the first operation whose observation hash differs (or the shorter length) *)
Fixpoint first_diff (i : Z) (a b : list int) : option Z :=
  match a, b with
  | [], [] => None
  | x :: a', y :: b' => if Uint63.eqb x y then first_diff (i + 1)%Z a' b' else Some i
  | _, _ => Some i
  end.

(* cases: (case number, (input, expected hashes)); result: (case number, first differing op) *)
Definition disagreements {A : Type} (run : A -> list (list Z))
           (cases : list (Z * (A * list int))) : list (Z * Z) :=
  flat_map (fun c =>
    match first_diff 0%Z (map hash_obs (run (fst (snd c)))) (snd (snd c)) with
    | None => []
    | Some i => [(fst c, i)]
    end) cases.
