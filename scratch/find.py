import sys, random, json
sys.path.insert(0, 'harness')
from props import C17
key = sys.argv[1]
cases = C17.gen_cases(random.Random(0), 'quick') + list(C17.enumerate_cases('quick'))
best=None
for c in cases:
    r = C17.run_impl(c)
    if any(f['key']==key for f in r['failures']):
        if best is None or len(json.dumps(c))<len(json.dumps(best)): best=c
print(json.dumps(best))
r=C17.run_impl(best)
for o,ob in zip(best['ops'],r['obs']): print(o,ob)
for f in r['failures']: print(f)
