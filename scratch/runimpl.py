import sys, random, collections, json
sys.path.insert(0, 'harness')
from props import C17
tier = sys.argv[1] if len(sys.argv) > 1 else 'quick'
cases = C17.gen_cases(random.Random(int(sys.argv[2]) if len(sys.argv) > 2 else 0), tier)
if len(sys.argv) > 3: cases += list(C17.enumerate_cases(tier))
keys = collections.Counter()
ex = {}
import time; t=time.time()
for c in cases:
    r = C17.run_impl(c)
    assert len(r['obs']) == len(c['ops'])
    for f in r['failures']:
        keys[f['key']] += 1
        ex.setdefault(f['key'], (c, f))
print(len(cases), 'cases', time.time()-t, 's')
for k, v in keys.items():
    print(v, k)
    print('   ', ex[k][1]['what'][:300])
    if len(ex[k][0]['ops'])<8: print('   ', json.dumps(ex[k][0]))
