import sys, random, collections, importlib, json, time
sys.path.insert(0, "/tmp/vw/g19/harness")
C19 = importlib.import_module("props.C19")
tier = sys.argv[1] if len(sys.argv) > 1 else "quick"
seed = int(sys.argv[2]) if len(sys.argv) > 2 else 0
rng = random.Random(seed)
cases = C19.gen_cases(rng, tier)
if len(sys.argv) > 3: cases = list(C19.enumerate_cases("quick"))
keys = collections.Counter(); ex = {}
t=time.time()
nt = 0
for c in cases:
    r = C19.run_impl(c)
    c["_obs"] = r["obs"]
    nt += C19.nontrivial(c)
    for f in r["failures"]:
        keys[f["key"]] += 1
        ex.setdefault(f["key"], (c, f))
print(len(cases), "cases", "nontrivial", nt, "time", round(time.time()-t,1))
for k, n in sorted(keys.items()):
    c, f = ex[k]
    print(n, k, "|", f["what"][:230], "| stype", c["stype"], c.get("dims"))
