import copy, pickle, random, warnings, sys, traceback
warnings.simplefilter("ignore")
import mesa
from mesa.discrete_space import *
import networkx as nx
print(sys.version)
exec(open("/tmp/vw/g19/scratch/probe1.py").read().split("for kind in")[0].split("import networkx as nx")[1])
for kind in ["moore","hex","net","vor"]:
    for mech in ("deepcopy","pickle", "deepcopy-model", "pickle-model"):
        m, s = mk(kind)
        m.grid = s
        cells = list(s._cells.values())
        for i in range(3):
            a = CellAgent(m); a.cell = cells[i % len(cells)]
        if mech=="deepcopy": s2 = copy.deepcopy(s)
        elif mech == "pickle": s2 = pickle.loads(pickle.dumps(s))
        elif mech == "deepcopy-model": s2 = copy.deepcopy(m).grid
        else: s2 = pickle.loads(pickle.dumps(m)).grid
        bad = 0; n=0
        for k, c in s2._cells.items():
            for a in c._agents:
                n += 1
                if a.cell is not c: bad += 1; 
        ags = list(s2.agents)
        bad2 = sum(1 for a in ags if a.model.grid is not s2)
        print(kind, mech, "agents", n, "agent.cell is not its cell:", bad, "model.grid is not copy:", bad2, "nconn of agent.cell", [len(a.cell.connections) for a in ags], [len(s2._cells[k].connections) for k in list(s2._cells)[:3]])
