"""Grid-based cell space implementations with different connection patterns.

Provides several grid types for organizing cells:
- OrthogonalMooreGrid: 8 neighbors in 2D, (3^n)-1 in nD
- OrthogonalVonNeumannGrid: 4 neighbors in 2D, 2n in nD
- HexGrid: 6 neighbors in hexagonal pattern (2D only)

Each grid type supports optional wrapping (torus) and cell capacity limits.
Choose based on how movement and connectivity should work in your model -
Moore for unrestricted movement, Von Neumann for orthogonal-only movement,
or Hex for more uniform distances.
"""

from __future__ import annotations

import copyreg
from collections.abc import Sequence
from itertools import product
from random import Random
from typing import Any, Generic, TypeVar

from mesa.discrete_space import Cell, DiscreteSpace
from mesa.discrete_space.property_layer import (
    HasPropertyLayers,
    PropertyDescriptor,
)

T = TypeVar("T", bound=Cell)


def pickle_gridcell(obj):
    """Helper function for pickling GridCell instances."""
    # we have the base class and the state via __getstate__. The state is not passed as an
    # argument of unpickle_gridcell: it refers back to the cell via the agents in it, so the new cell has
    # to exist (and be memoized by pickle and deepcopy) before its state is copied. __getstate__ returns
    # a tuple with dict and slots, but slots contains the dict and we do not carry it over.
    _, slots = obj.__getstate__()
    slots = {k: v for k, v in slots.items() if k != "__dict__"}
    return unpickle_gridcell, (obj.__class__.__bases__[0],), (None, slots)


def unpickle_gridcell(parent):
    """Helper function for unpickling GridCell instances."""
    # since the class is dynamically created, we recreate it here
    cell_klass = type(
        "GridCell",
        (parent,),
        {"_mesa_properties": set()},
    )
    # the fields are set from the state afterwards
    return cell_klass.__new__(cell_klass)


class Grid(DiscreteSpace[T], Generic[T], HasPropertyLayers):
    """Base class for all grid classes.

    Attributes:
        dimensions (Sequence[int]): the dimensions of the grid
        torus (bool): whether the grid is a torus
        capacity (int): the capacity of a grid cell
        random (Random): the random number generator
        _try_random (bool): whether to get empty cell be repeatedly trying random cell

    Notes:
        width and height are accessible via properties, higher dimensions can be retrieved via dimensions

    """

    @property
    def width(self) -> int:
        """Convenience access to the width of the grid."""
        return self.dimensions[0]

    @property
    def height(self) -> int:
        """Convenience access to the height of the grid."""
        return self.dimensions[1]

    def __init__(
        self,
        dimensions: Sequence[int],
        torus: bool = False,
        capacity: float | None = None,
        random: Random | None = None,
        cell_klass: type[T] = Cell,
    ) -> None:
        """Initialise the grid class.

        Args:
            dimensions: the dimensions of the space
            torus: whether the space wraps
            capacity: capacity of the grid cell
            random: a random number generator
            cell_klass: the base class to use for the cells
        """
        super().__init__(capacity=capacity, random=random, cell_klass=cell_klass)
        self.torus = torus
        self.dimensions = dimensions
        self._try_random = True
        self._ndims = len(dimensions)
        self._validate_parameters()
        self.cell_klass = type(
            "GridCell",
            (self.cell_klass,),
            {"_mesa_properties": set()},
        )

        # we register the pickle_gridcell helper function
        copyreg.pickle(self.cell_klass, pickle_gridcell)

        coordinates = product(*(range(dim) for dim in self.dimensions))

        self._cells = {
            coord: self.cell_klass(coord, capacity, random=self.random)
            for coord in coordinates
        }
        self._connect_cells()
        self.create_property_layer("empty", default_value=True, dtype=bool)

    def _connect_cells(self) -> None:
        if self._ndims == 2:
            self._connect_cells_2d()
        else:
            self._connect_cells_nd()

    def _connect_cells_2d(self) -> None: ...

    def _connect_cells_nd(self) -> None: ...

    def _validate_parameters(self):
        if not all(isinstance(dim, int) and dim > 0 for dim in self.dimensions):
            raise ValueError("Dimensions must be a list of positive integers.")
        if not isinstance(self.torus, bool):
            raise ValueError("Torus must be a boolean.")
        if self.capacity is not None and not isinstance(self.capacity, float | int):
            raise ValueError("Capacity must be a number or None.")

    def select_random_empty_cell(self) -> T:  # noqa
        # FIXME:: currently just a simple boolean to control behavior
        # FIXME:: basically if grid is close to 99% full, creating empty list can be faster
        # FIXME:: note however that the old results don't apply because in this implementation
        # FIXME:: because empties list needs to be rebuild each time
        # This method is based on Agents.jl's random_empty() implementation. See
        # https://github.com/JuliaDynamics/Agents.jl/pull/541. For the discussion, see
        # https://github.com/projectmesa/mesa/issues/1052 and
        # https://github.com/projectmesa/mesa/pull/1565. The cutoff value provided
        # is the break-even comparison with the time taken in the else branching point.
        if self._try_random:
            while True:
                cell = self.all_cells.select_random_cell()
                if cell.is_empty:
                    return cell
        else:
            return super().select_random_empty_cell()

    def _connect_single_cell_nd(self, cell: T, offsets: list[tuple[int, ...]]) -> None:
        coord = cell.coordinate

        for d_coord in offsets:
            n_coord = tuple(c + dc for c, dc in zip(coord, d_coord))
            if self.torus:
                n_coord = tuple(nc % d for nc, d in zip(n_coord, self.dimensions))
            if all(0 <= nc < d for nc, d in zip(n_coord, self.dimensions)):
                cell.connect(self._cells[n_coord], d_coord)

    def _connect_single_cell_2d(self, cell: T, offsets: list[tuple[int, int]]) -> None:
        i, j = cell.coordinate
        height, width = self.dimensions

        for di, dj in offsets:
            ni, nj = (i + di, j + dj)
            if self.torus:
                ni, nj = ni % height, nj % width
            if 0 <= ni < height and 0 <= nj < width:
                cell.connect(self._cells[ni, nj], (di, dj))

    def __getstate__(self) -> dict[str, Any]:
        """Custom __getstate__ for handling dynamic GridCell class and PropertyDescriptors."""
        state = super().__getstate__()
        state = {k: v for k, v in state.items() if k != "cell_klass"}
        return state

    def __setstate__(self, state: dict[str, Any]) -> None:
        """Custom __setstate__ for handling dynamic GridCell class and PropertyDescriptors."""
        self.__dict__ = state
        self._connect_cells()  # using super fails for this for some reason, so we repeat ourselves

        # unpickle_gridcell gives every cell a class of its own. All cells of a grid have
        # to share one class, which carries the descriptors for this grid's own layers
        self.cell_klass = type(next(iter(self._cells.values())))
        copyreg.pickle(self.cell_klass, pickle_gridcell)
        for cell in self._cells.values():
            cell.__class__ = self.cell_klass
        for layer in self._mesa_property_layers.values():
            setattr(self.cell_klass, layer.name, PropertyDescriptor(layer))
            self.cell_klass._mesa_properties.add(layer.name)


class OrthogonalMooreGrid(Grid[T]):
    """Grid where cells are connected to their 8 neighbors.

    Example for two dimensions:
    directions = [
        (-1, -1), (-1, 0), (-1, 1),
        ( 0, -1),          ( 0, 1),
        ( 1, -1), ( 1, 0), ( 1, 1),
    ]
    """

    def _connect_cells_2d(self) -> None:
        # fmt: off
        offsets = [
            (-1, -1), (-1, 0), (-1, 1),
            ( 0, -1),          ( 0, 1),
            ( 1, -1), ( 1, 0), ( 1, 1),
        ]
        # fmt: on

        for cell in self.all_cells:
            self._connect_single_cell_2d(cell, offsets)

    def _connect_cells_nd(self) -> None:
        offsets = list(product([-1, 0, 1], repeat=len(self.dimensions)))
        offsets.remove((0,) * len(self.dimensions))  # Remove the central cell

        for cell in self.all_cells:
            self._connect_single_cell_nd(cell, offsets)


class OrthogonalVonNeumannGrid(Grid[T]):
    """Grid where cells are connected to their 4 neighbors.

    Example for two dimensions:
    directions = [
                (0, -1),
        (-1, 0),         ( 1, 0),
                (0,  1),
    ]
    """

    def _connect_cells_2d(self) -> None:
        # fmt: off
        offsets = [
                    (-1, 0),
            (0, -1),         (0, 1),
                    ( 1, 0),
        ]
        # fmt: on

        for cell in self.all_cells:
            self._connect_single_cell_2d(cell, offsets)

    def _connect_cells_nd(self) -> None:
        offsets: list[tuple[int, ...]] = []
        dimensions = len(self.dimensions)
        for dim in range(dimensions):
            for delta in [
                -1,
                1,
            ]:  # Move one step in each direction for the current dimension
                offset = [0] * dimensions
                offset[dim] = delta
                offsets.append(tuple(offset))

        for cell in self.all_cells:
            self._connect_single_cell_nd(cell, offsets)


class HexGrid(Grid[T]):
    """A Grid with hexagonal tilling of the space."""

    def _connect_cells_2d(self) -> None:
        # fmt: off
        even_offsets = [
                        (-1, -1), (0, -1),
                    ( -1, 0),        ( 1, 0),
                        ( -1, 1), (0, 1),
                ]
        odd_offsets = [
                        (0, -1), (1, -1),
                    ( -1, 0),       ( 1, 0),
                        ( 0, 1), ( 1, 1),
                ]
        # fmt: on

        for cell in self.all_cells:
            i = cell.coordinate[1]
            offsets = even_offsets if i % 2 else odd_offsets
            self._connect_single_cell_2d(cell, offsets=offsets)

    def _connect_cells_nd(self) -> None:
        raise NotImplementedError("HexGrids are only defined for 2 dimensions")

    def _validate_parameters(self):
        super()._validate_parameters()
        if len(self.dimensions) != 2:
            raise ValueError("HexGrid must have exactly 2 dimensions.")
