import copy, pickle, random, warnings, sys, traceback
warnings.simplefilter("ignore")
import mesa
from mesa.discrete_space import *
import networkx as nx

def mk(kind):
    m = mesa.Model(seed=1)
    if kind == "moore": s = OrthogonalMooreGrid((3,3), torus=False, capacity=2, random=m.random)
    elif kind == "vn": s = OrthogonalVonNeumannGrid((3,3), torus=True, capacity=None, random=m.random)
    elif kind == "hex": s = HexGrid((2,2), torus=False, capacity=1, random=m.random)
    elif kind == "net": s = Network(nx.path_graph(4), capacity=2, random=m.random)
    elif kind == "vor": s = VoronoiGrid([[0,0],[1,0],[0,1],[1,1],[0.5,0.5]], capacity=2, random=m.random)
    elif kind == "moore1d": s = OrthogonalMooreGrid((4,), torus=False, random=m.random)
    elif kind == "moore3d": s = OrthogonalMooreGrid((2,2,2), torus=False, random=m.random)
    return m, s

for kind in ["moore","vn","hex","net","vor","moore1d","moore3d"]:
    for withagents in (False, True):
        for mech in ("deepcopy","pickle"):
            m, s = mk(kind)
            if withagents:
                cells = list(s._cells.values())
                for i in range(3):
                    a = CellAgent(m); a.cell = cells[i % len(cells)]
            try:
                s2 = copy.deepcopy(s) if mech=="deepcopy" else pickle.loads(pickle.dumps(s))
                classes = {type(c) for c in s2._cells.values()}
                print(kind, withagents, mech, "OK classes:", len(classes), "cells", len(s2._cells))
            except BaseException as e:
                print(kind, withagents, mech, "EXC", type(e).__name__, str(e)[:100])
