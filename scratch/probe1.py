import gc, weakref
from mesa.experimental.mesa_signals.mesa_signal import Observable, Computable, Computed, HasObservables
import mesa.experimental.mesa_signals.mesa_signal as ms

class O(HasObservables):
    x = Observable(); y = Observable(); z = Observable()
    a = Computable(); b = Computable(); c = Computable()
    def __init__(self):
        super().__init__()

cnt = {}
def mk(name, f):
    def g():
        cnt[name] = cnt.get(name, 0) + 1
        return f()
    return Computed(g)

# defect A: stale parents entries
o = O(); o.x = 1; o.y = 10
o.b = mk('b', lambda: o.y + 1)
o.a = mk('a', lambda: o.b if o.x else 0)
print('A0', o.a, cnt)
o.x = 0
print('A1', o.a, cnt)   # a re-run, no longer reads b
o.y = 20                # b changes; a should not care
print('A2', o.a, cnt)
o.x = 0                 # same value: a dirty
print('A3', o.a, cnt, ' <- a re-run? (spurious if a count increased)')

# defect B: comparison loop registers on outer
cnt.clear()
o = O(); o.x = 1; o.y = 10
o.c = mk('c', lambda: 5 if o.x > 0 else 5)
o.a = mk('a', lambda: o.y + o.c)
print('B0', o.a, cnt)
o.y = 11; o.x = 2
print('B1', o.a, cnt)
o.x = 3
print('B2', o.a, cnt, ' <- a re-run? spurious if a count increased')

# GC
cnt.clear()
class P(HasObservables):
    x = Observable()
    def __init__(self): super().__init__()
p = P(); p.x = 7
wr = weakref.ref(p)
o = O()
o.a = mk('a', lambda: (wr().x if wr() is not None else 0))
print('G0', o.a, cnt)
del p; gc.collect()
print('G1', o.a, cnt, wr())
o.x = 99  # clears PROCESSING_SIGNALS
gc.collect()
print('G2', o.a, cnt, wr())
o.a  # again
print('G3', o.a, cnt, wr())
