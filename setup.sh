#!/bin/sh
# MANIFEST.setup_cmd - offline, from files on disk only
DIR="$(cd "$(dirname "$0")" && pwd)"
export PYTHONPATH="${VERIF_REPO:-/repo}:$DIR/harness" PYTHONHASHSEED=0 PYTHONDONTWRITEBYTECODE=1
exec /venv/bin/python "$DIR/harness/setup.py"
