#!/bin/sh
# usage: harness/seedtest.sh <seeded-dir-name> [tier]
# applies /verif/seeded/<name>/patch.diff to /repo, runs the check of the property it breaks, undoes the patch.
# prints CAUGHT / MISSED.  /repo must be clean before.
set -u
DIR="$(cd "$(dirname "$0")/.." && pwd)"
S="$DIR/seeded/$1"
TIER="${2:-quick}"
PROP=$(python3 -c "import json,sys;print(json.load(open('$S/meta.json'))['property'])")
if [ -n "$(git -C /repo status --porcelain)" ]; then echo "/repo not clean"; exit 2; fi
git -C /repo apply "$S/patch.diff" || { echo "patch does not apply"; exit 2; }
"$DIR/check" "$PROP" --tier "$TIER" > "$S/last_run.txt" 2>&1
rc=$?
git -C /repo checkout -- . 
git -C /repo clean -fdq
if [ $rc -ne 0 ] && grep -q "^VIOLATION property=$PROP" "$S/last_run.txt"; then echo "CAUGHT $1 ($PROP, $TIER): $(grep -c '^VIOLATION' "$S/last_run.txt") violation line(s)"; else echo "MISSED $1 ($PROP, $TIER) rc=$rc"; fi
