#!/bin/sh
# usage: harness/seedtest.sh <seeded-dir-name> [tier]
# applies /verif/seeded/<name>/patch.diff to a scratch worktree of /repo's HEAD, runs the check of the property it
# breaks against that tree (VERIF_REPO), removes the worktree.  prints CAUGHT / MISSED.
# (equivalent to `git -C /repo apply` ... `git -C /repo checkout -- .`, but does not disturb other runs that use /repo)
set -u
DIR="$(cd "$(dirname "$0")/.." && pwd)"
S="$DIR/seeded/$1"
TIER="${2:-quick}"
PROP=$(python3 -c "import json,sys;print(json.load(open('$S/meta.json'))['property'])")
WT=/tmp/seedtest_$$
git -C /repo worktree add -q --detach $WT HEAD || exit 2
git -C $WT apply "$S/patch.diff" || { echo "patch does not apply"; git -C /repo worktree remove --force $WT; exit 2; }
cp "$DIR/evidence/$PROP.json" /tmp/seedtest_ev_$$.json 2>/dev/null
VERIF_REPO=$WT "$DIR/check" "$PROP" --tier "$TIER" > "$S/last_run.txt" 2>&1
rc=$?
# the evidence file must describe the unchanged tree: keep this run's copy beside the seeded change, restore the old one
cp "$DIR/evidence/$PROP.json" "$S/evidence_of_this_run.json" 2>/dev/null
[ -f /tmp/seedtest_ev_$$.json ] && mv /tmp/seedtest_ev_$$.json "$DIR/evidence/$PROP.json"
git -C /repo worktree remove --force $WT
if [ $rc -ne 0 ] && grep -q "^VIOLATION property=$PROP" "$S/last_run.txt"; then echo "CAUGHT $1 ($PROP, $TIER): $(grep -c '^VIOLATION' "$S/last_run.txt") violation line(s)"; else echo "MISSED $1 ($PROP, $TIER) rc=$rc"; fi
