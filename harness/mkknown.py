"""Rebuilds the 'fixed' entries of known_findings.json from fixes/*.msg and /repo's git log (by commit subject);
'known' entries are kept as they are.  Run by hand after fix: commits."""
import glob
import json
import os
import subprocess

VERIF = os.path.dirname(os.path.dirname(os.path.abspath(__file__)))
p = os.path.join(VERIF, "known_findings.json")
cur = json.load(open(p))
known = [f for f in cur["findings"] if f.get("status") == "known"]
log = subprocess.run(["git", "-C", "/repo", "log", "--format=%h\t%s"], capture_output=True, text=True).stdout.splitlines()
subj2commit = {l.split("\t", 1)[1]: l.split("\t", 1)[0] for l in log if "\t" in l}
fixed = []
for msg in sorted(glob.glob(os.path.join(VERIF, "fixes", "*.msg"))):
    base = os.path.basename(msg)[:-4]
    subject = open(msg).readline().strip()
    if subject in subj2commit:
        keysf = os.path.join(VERIF, "fixes", base + ".keys")
        keys = open(keysf).read().split() if os.path.exists(keysf) else []
        fixed.append({"property": base.split("-")[0], "status": "fixed", "commit": subj2commit[subject],
                      "fix": base, "what": subject[len("fix: "):], "keys": keys,
                      "line": f"fixed: property={base.split('-')[0]} {subj2commit[subject]} {subject[len('fix: '):]}"})
json.dump({"findings": known + fixed}, open(p, "w"), indent=1)
print(len(known), "known,", len(fixed), "fixed")
