"""Normalised-AST fingerprints of the source functions that were transcribed by hand into the
Gallina models.  A changed fingerprint is NOT a verdict (a harmless rewrite changes it too): it
only ESCALATES the search - the check then runs its thorough generators and the targeted
enumerator even in the quick tier, because the code the model was written from has moved."""
import ast
import hashlib
import json
import os

HERE = os.path.dirname(os.path.abspath(__file__))
BASELINE = os.path.join(HERE, "fingerprints.json")


def _strip_docstrings(node):
    for n in ast.walk(node):
        if isinstance(n, (ast.FunctionDef, ast.AsyncFunctionDef, ast.ClassDef, ast.Module)):
            if n.body and isinstance(n.body[0], ast.Expr) and isinstance(getattr(n.body[0], "value", None), ast.Constant) \
                    and isinstance(n.body[0].value.value, str):
                n.body = n.body[1:] or [ast.Pass()]
    return node


def _find(tree, qualname):
    node = tree
    for part in qualname.split("."):
        nxt = None
        for n in node.body:
            if isinstance(n, (ast.FunctionDef, ast.AsyncFunctionDef, ast.ClassDef)) and n.name == part:
                nxt = n
        if nxt is None:
            return None
        node = nxt
    return node


def fingerprint(repo, rel, qualname):
    try:
        tree = ast.parse(open(os.path.join(repo, rel)).read())
    except Exception:  # noqa: BLE001
        return "unparsable"
    node = tree if qualname in ("", "*") else _find(tree, qualname)
    if node is None:
        return "missing"
    return hashlib.sha1(ast.dump(_strip_docstrings(node), include_attributes=False).encode()).hexdigest()[:16]


def current(repo, funcs):
    return {f"{rel}::{q}": fingerprint(repo, rel, q) for rel, q in funcs}


def changed(repo, prop_id, funcs):
    """list of 'file::qualname' whose fingerprint differs from the committed baseline"""
    base = {}
    if os.path.exists(BASELINE):
        base = json.load(open(BASELINE)).get(prop_id, {})
    cur = current(repo, funcs)
    return [k for k, v in cur.items() if base.get(k) != v]


if __name__ == "__main__":
    # regenerate the baseline from the CURRENT /repo for every property module (run by hand after fix: commits)
    import importlib
    import sys

    sys.path.insert(0, HERE)
    repo = os.environ.get("VERIF_REPO", "/repo")
    out = {}
    for fn in sorted(os.listdir(os.path.join(HERE, "props"))):
        if fn.startswith("C") and fn.endswith(".py"):
            m = importlib.import_module("props." + fn[:-3])
            funcs = getattr(m, "SOURCE_FUNCS", [])
            if funcs:
                out[m.ID] = current(repo, funcs)
    json.dump(out, open(BASELINE, "w"), indent=1, sort_keys=True)
    print({k: len(v) for k, v in out.items()})
