"""Normalised-AST fingerprints of the source functions that were transcribed by hand into the
Gallina models.  A changed fingerprint is NOT a verdict (a harmless rewrite changes it too): it
only ESCALATES the search - the check then runs its thorough generators and the targeted
enumerator even in the quick tier, because the code the model was written from has moved."""
import ast
import hashlib
import json
import os

HERE = os.path.dirname(os.path.abspath(__file__))
BASELINE = os.path.join(HERE, "fingerprints.json")


DS = "mesa/discrete_space/"
SIG = "mesa/experimental/mesa_signals/"
DEVS = "mesa/experimental/devs/"
CS = "mesa/experimental/continuous_space/"
VIZ = "mesa/visualization/"
# used when a property module does not list SOURCE_FUNCS itself ("*" = whole file)
DEFAULTS = {
    "C01": [("mesa/model.py", "*"), ("mesa/agent.py", "*"), ("mesa/space.py", "_Grid"), (DS + "cell_collection.py", "*"),
            (DS + "discrete_space.py", "*"), (DS + "cell.py", "*"), (DS + "grid.py", "*"), (CS + "continuous_space.py", "*"),
            ("mesa/batchrunner.py", "*")],
    "C02": [("mesa/model.py", "Model"), ("mesa/agent.py", "Agent")],
    "C03": [("mesa/agent.py", "AgentSet"), ("mesa/agent.py", "GroupBy")],
    "C04": [("mesa/agent.py", "AgentSet"), ("mesa/agent.py", "GroupBy"), ("mesa/model.py", "Model")],
    "C05": [("mesa/model.py", "Model")],
    "C06": [(DS + "cell_agent.py", "*"), (DS + "cell.py", "*"), (DS + "discrete_space.py", "*"), (DS + "grid.py", "*"),
            (DS + "cell_collection.py", "*")],
    "C07": [(DS + "cell.py", "*"), (DS + "grid.py", "*"), (DS + "network.py", "*"), (DS + "voronoi.py", "*")],
    "C08": [("mesa/space.py", "_Grid"), ("mesa/space.py", "_PropertyGrid"), ("mesa/space.py", "SingleGrid"),
            ("mesa/space.py", "MultiGrid")],
    "C10": [("mesa/space.py", "ContinuousSpace"), (CS + "continuous_space.py", "*"), (CS + "continuous_space_agents.py", "*")],
    "C11": [(DS + "property_layer.py", "*"), ("mesa/space.py", "PropertyLayer"), ("mesa/space.py", "_PropertyGrid")],
    "C12": [("mesa/datacollection.py", "*")],
    "C13": [("mesa/batchrunner.py", "*"), ("mesa/datacollection.py", "*")],
    "C14": [(DEVS + "eventlist.py", "*"), (DEVS + "simulator.py", "*")],
    "C15": [(DEVS + "eventlist.py", "*"), (DEVS + "simulator.py", "*")],
    "C16": [(SIG + "mesa_signal.py", "*"), (SIG + "observable_collections.py", "*"), (SIG + "signals_util.py", "*")],
    "C17": [(SIG + "mesa_signal.py", "*"), (SIG + "signals_util.py", "*")],
    "C18": [(DS + "cell_agent.py", "*"), (DS + "cell.py", "*"), (DS + "property_layer.py", "*"), ("mesa/space.py", "*"),
            (CS + "continuous_space_agents.py", "*"), ("mesa/datacollection.py", "*"), (DEVS + "simulator.py", "*"),
            (SIG + "mesa_signal.py", "*")],
    "C19": [(DS + "grid.py", "*"), (DS + "cell.py", "*"), (DS + "discrete_space.py", "*"), (DS + "property_layer.py", "*"),
            ("mesa/agent.py", "AgentSet")],
    "C20": [(VIZ + "mpl_space_drawing.py", "*"), (VIZ + "components/altair_components.py", "*"),
            (VIZ + "components/matplotlib_components.py", "*"), (VIZ + "solara_viz.py", "*"), (VIZ + "user_param.py", "*")],
}


def funcs_of(prop):
    return getattr(prop, "SOURCE_FUNCS", None) or DEFAULTS.get(prop.ID, [])


def _strip_docstrings(node):
    for n in ast.walk(node):
        if isinstance(n, (ast.FunctionDef, ast.AsyncFunctionDef, ast.ClassDef, ast.Module)):
            if n.body and isinstance(n.body[0], ast.Expr) and isinstance(getattr(n.body[0], "value", None), ast.Constant) \
                    and isinstance(n.body[0].value.value, str):
                n.body = n.body[1:] or [ast.Pass()]
    return node


def _find(tree, qualname):
    node = tree
    for part in qualname.split("."):
        nxt = None
        for n in node.body:
            if isinstance(n, (ast.FunctionDef, ast.AsyncFunctionDef, ast.ClassDef)) and n.name == part:
                nxt = n
        if nxt is None:
            return None
        node = nxt
    return node


def fingerprint(repo, rel, qualname):
    try:
        tree = ast.parse(open(os.path.join(repo, rel)).read())
    except Exception:  # noqa: BLE001
        return "unparsable"
    node = tree if qualname in ("", "*") else _find(tree, qualname)
    if node is None:
        return "missing"
    return hashlib.sha1(ast.dump(_strip_docstrings(node), include_attributes=False).encode()).hexdigest()[:16]


def current(repo, funcs):
    return {f"{rel}::{q}": fingerprint(repo, rel, q) for rel, q in funcs}


def changed(repo, prop_id, funcs):
    """list of 'file::qualname' whose fingerprint differs from the committed baseline"""
    base = {}
    if os.path.exists(BASELINE):
        base = json.load(open(BASELINE)).get(prop_id, {})
    cur = current(repo, funcs)
    return [k for k, v in cur.items() if base.get(k) != v]


if __name__ == "__main__":
    # regenerate the baseline from the CURRENT /repo for every property module (run by hand after fix: commits)
    import importlib
    import sys

    sys.path.insert(0, HERE)
    repo = os.environ.get("VERIF_REPO", "/repo")
    out = {}
    for fn in sorted(os.listdir(os.path.join(HERE, "props"))):
        if fn.startswith("C") and fn.endswith(".py"):
            m = importlib.import_module("props." + fn[:-3])
            funcs = funcs_of(m)
            if funcs:
                out[m.ID] = current(repo, funcs)
    json.dump(out, open(BASELINE, "w"), indent=1, sort_keys=True)
    print({k: len(v) for k, v in out.items()})
