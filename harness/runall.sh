#!/bin/sh
# usage: harness/runall.sh [quick|thorough]   - runs every claimed check, prints verdict lines
cd "$(dirname "$0")/.."
TIER="${1:-quick}"
for p in $(python3 -c "import json;print(' '.join(c['property_id'] for c in json.load(open('MANIFEST.json'))['checks']))"); do
  ./check $p --tier $TIER 2>&1 | grep -E "^VIOLATION|^KNOWN-F|tier=" | cut -c1-200
done
