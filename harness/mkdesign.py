"""Refreshes the generated tables of DESIGN.md section 11 in place (between the GENERATED markers)."""
import os
import subprocess
import sys

HERE = os.path.dirname(os.path.abspath(__file__))
VERIF = os.path.dirname(HERE)
env = dict(os.environ, PYTHONPATH=HERE + ":/repo")
t = subprocess.run([sys.executable, os.path.join(HERE, "mkdesigntables.py")], capture_output=True, text=True, env=env).stdout
findings, seeded = t.split("\n\n| seeded change", 1)
seeded = "| seeded change" + seeded
props = subprocess.run([sys.executable, os.path.join(HERE, "mkdesignprops.py")], capture_output=True, text=True, env=env).stdout
p = os.path.join(VERIF, "DESIGN.md")
s = open(p).read()
for tag, body in (("FINDINGS", findings), ("PROPS", props), ("SEEDED", seeded)):
    a = s.index(f"<!-- GENERATED:{tag}:BEGIN -->") + len(f"<!-- GENERATED:{tag}:BEGIN -->")
    b = s.index(f"<!-- GENERATED:{tag}:END -->")
    s = s[:a] + "\n" + body.strip() + "\n" + s[b:]
open(p, "w").write(s)
print("DESIGN.md tables refreshed")
