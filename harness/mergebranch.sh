#!/bin/sh
# merge a builder branch, always keeping ours for generated/evidence files
cd /verif
if [ -n "$(git status --porcelain --untracked-files=no)" ]; then echo "REFUSING: /verif has uncommitted changes"; exit 1; fi
git merge -q --no-edit "$1" >/dev/null 2>&1 || {
  git rm -q --cached coq/Generated/Tables.v 2>/dev/null
  for f in $(git diff --name-only --diff-filter=U); do case "$f" in evidence/*|MANIFEST.json|known_findings.json|harness/fingerprints.json) git checkout --ours "$f"; git add "$f";; esac; done
  if git diff --name-only --diff-filter=U | grep -q .; then echo "UNRESOLVED in $1:"; git diff --name-only --diff-filter=U; exit 1; fi
  git commit -q --no-edit; }
echo "merged $1"
