#!/bin/sh
# usage: harness/seedverify.sh <dir with patch.diff demo.py meta.json> <name>
# confirms in a scratch worktree: demo passes without the patch, fails with it, suite passes with it;
# then copies into /verif/seeded/<name>/
set -u
SRC="$1"; NAME="$2"
WT=/tmp/seedverify_$$
git -C /repo worktree add -q --detach $WT HEAD || exit 2
cd $WT
PYTHONPATH=$WT /venv/bin/python $SRC/demo.py >/dev/null 2>&1; a=$?
git apply $SRC/patch.diff || { echo "patch does not apply"; git -C /repo worktree remove --force $WT; exit 2; }
PYTHONPATH=$WT /venv/bin/python $SRC/demo.py >/dev/null 2>&1; b=$?
PYTHONPATH=$WT /venv/bin/python -m pytest -q -p no:cacheprovider --timeout=900 -x > /tmp/seedverify_$$.txt 2>&1; c=$?
t="rc=$c $(grep -E 'passed|failed' /tmp/seedverify_$$.txt | tail -1)"; rm -f /tmp/seedverify_$$.txt
cd /; git -C /repo worktree remove --force $WT
echo "demo without patch rc=$a (want 0); with patch rc=$b (want !=0); suite: $t"
if [ $a -eq 0 ] && [ $b -ne 0 ] && [ $c -eq 0 ]; then
  mkdir -p /verif/seeded/$NAME && cp $SRC/patch.diff $SRC/demo.py $SRC/meta.json /verif/seeded/$NAME/ && echo "KEPT as seeded/$NAME"
else echo "REJECTED"; fi
