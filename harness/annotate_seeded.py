"""Writes a `verification` block into every seeded/<name>/meta.json from its last_run.txt."""
import glob
import json
import os
import re

VERIF = os.path.dirname(os.path.dirname(os.path.abspath(__file__)))
FIRST_MISSED = {
    "C01j": "missed at first; caught after data collectors with shared module-level reporter functions that draw random numbers (prior history and measured run)",
    "C02j": "missed at first; caught after the registry histories used the library's own agent families (CellAgent, FixedAgent, ...), placed and unplaced",
    "C03j": "missed at first; caught after writes to unique_id / pos followed by every membership-sensitive query",
    "C04j": "missed at first; caught after activations whose agents live in a space with warm caches and are removed from space and model by a hunter",
    "C05j": "missed at first; caught after models were stepped through AgentSet.do / shuffle_do / map('step')",
    "C07j": "missed at first; caught after the original's connections were re-read after every copy / pickle / copy.copy",
    "C08j": "missed at first; caught after agents of several models (equal classes and ids) shared one grid, compared by identity",
    "C09j": "missed at first; caught after property layers named like grid attributes (torus, width, height) were attached to the queried grids",
    "C11j": "missed at first; caught after legacy multi grids with empties built before the last agent leaves a cell, emptiness from the real contents",
    "C12j": "missed at first; caught after user code mutating copies of model.agents between collects (registration from the history's ledger)",
    "C13j": "missed at first; caught after seeds of every form with number_processes 1 vs 2 and the hash salt not inherited by the workers",
    "C17j": "missed at first; caught after ObservableLists as Computed inputs changed by += / o.l = o.l / equal copies",
    "C19j": "missed at first; caught after lazily cached things (random selection, neighbourhoods) were warmed on the original before the copy",
    "C20j": "missed at first; caught after drawing histories continued on a deep copy / pickle of the model",
    "C17h": "missed at first (the changed function is in C16's T1, not C17's); caught after the scale stream (one observable read by 257+ Computeds)",
    "C01i": "missed at first; caught after the user-code stream ran seeded models under forced collector regimes (agents in reference cycles)",
    "C08i": "missed at first; caught after agents whose pos is a notifying property with raising / re-entering listeners",
    "C09i": "missed at first; caught after the driver used iterable and sequence-like agent subclasses",
    "C11i": "missed at first; caught after every public entry point to a layer (grid.<name>, handle, registry, cell attribute) was used interchangeably across remove + re-add",
    "C17i": "missed at first; caught after Computed subclasses with value-based __eq__/__hash__ (equal but distinct instances)",
    "C20g": "missed at first; caught after constant layers included +inf / -inf (degenerate scale with a NaN span)",
    "C13a": "missed at first; caught after the batch models learned to collect several times per step",
    "C17a": "missed at first; caught after Computed functions could return None",
    "C20a": "missed at first; caught after sizes/z-orders were generated in quarter units",
    "C01a": "missed at first; caught after the Reset op / draws through collections derived before a reset",
    "C01b": "missed at first; caught after same-class prior histories with non-default constructor arguments",
    "C14b": "missed at first; caught after the non-dyadic float stream (oracle only)",
    "C01c": "missed at first; caught after prior models were given the very same externally built objects",
    "C13c": "missed at first by C13 (C12 caught it); caught after agent churn between two collects of one step",
    "C01e": "missed at first; caught after nearly-full-grid relocation scripts measured after address-shifting prior histories (+ T1 scan for unordered iteration sites)",
    "C09e": "missed at first; caught after the driver used agents whose truth value is False",
    "C12e": "missed at first; caught after frame cells were required to be the very same value and type (Decimal, Fraction, big ints, ...)",
    "C16e": "missed at first; caught after hierarchies with observables on mixins placed after HasObservables in the MRO",
    "C05f": "missed at first; caught after models were pickled / deep-copied mid-history and stepping continued on the restored instance",
    "C06f": "missed at first by C06 (C11 caught it); caught after read-only property-layer queries were interleaved in the cell-space histories",
    "C08f": "missed at first by C08 (C11 caught it); caught after read-only select_cells / mask queries were interleaved in the layered legacy-grid histories",
    "C09f": "missed at first; caught after NetworkGrid cell lists were passed as one-shot iterables (generator, iter, map)",
    "C19f": "missed at first; caught after random draws on both sides of a copy with the generator states of every side compared",
    "C20f": "missed at first; caught after ax-less draws were repeated with figures left open",
    "C20e": "missed at first; caught after redraws reused the same portrayal dict objects across layer writes",
}
for d in sorted(glob.glob(os.path.join(VERIF, "seeded", "*", ""))):
    n = os.path.basename(d.rstrip("/"))
    mp = d + "meta.json"
    if not os.path.exists(mp):
        continue
    m = json.load(open(mp))
    run = open(d + "last_run.txt").read() if os.path.exists(d + "last_run.txt") else ""
    viol = re.findall(r"^VIOLATION.*$", run, re.M)
    dis = re.findall(r"disagreements=(\d+)", run)
    pb = re.findall(r"proof_broken=(\d+) translator_broken=(\d+)", run)
    m["verification"] = {
        "confirmed_by": "harness/seedverify.sh: in a scratch worktree of /repo's HEAD the demo exits 0 without the patch, non-zero with it, and the full 256-test suite passes with it",
        "run_by": f"harness/seedtest.sh {n}  (patch applied to a scratch worktree of /repo's HEAD, ./check {m['property']} --tier quick against it via VERIF_REPO; output in last_run.txt)",
        "result": "caught in the quick tier" if viol else "MISSED",
        "violation_lines": len(viol),
        "with_failing_input": any("no-failing-input-found" not in v for v in viol),
        "model_impl_disagreements": int(dis[-1]) if dis else None,
        "proof_or_translator_obligations_broken": [int(x) for x in pb[-1]] if pb else None,
        "history": FIRST_MISSED.get(n, "caught at the first run"),
    }
    json.dump(m, open(mp, "w"), indent=1)
print("annotated")
