"""Prints the per-property as-built table for DESIGN.md 11.3 from the property modules and evidence files."""
import importlib
import json
import os
import re
import sys

HERE = os.path.dirname(os.path.abspath(__file__))
VERIF = os.path.dirname(HERE)
sys.path.insert(0, HERE)
print("| property | model / proof files | property theorems | T1 constructs regenerated from source | quick tier (histories, ops, wall) |\n|---|---|---|---|---|")
for pid in [json.loads(l)["id"] for l in open(os.path.join(VERIF, "properties.jsonl"))]:
    try:
        m = importlib.import_module("props." + pid)
    except ImportError:
        continue
    txt = open(os.path.join(VERIF, "coq", m.COQ_PROPERTY_FILE)).read()
    thms = re.findall(r"^\s*Theorem\s+([A-Za-z0-9_']+)", txt, re.M)
    models = [d.split("/")[1][:-2] for d in m.COQ_DEPS if d.startswith("Model/")]
    proofs = [d.split("/")[1][:-2] for d in m.COQ_DEPS if d.startswith("Proofs/")]
    ev = {}
    try:
        ev = json.load(open(os.path.join(VERIF, "evidence", pid + ".json")))
    except Exception:
        pass
    cov = ev.get("coverage", {})
    if pid == "C18":
        models, proofs = ["(the models of C06 C08 C10 C11 C12 C14 C16)"], ["(their proof files)"]
    print(f"| {pid} | {', '.join(models)} / {', '.join(proofs)} | {len(thms)}: {', '.join(thms[:6])}{', ...' if len(thms) > 6 else ''} | "
          f"{len(getattr(m, 'TABLE_CONSTRUCTS', []))} | {cov.get('histories', '?')} histories, {cov.get('evaluations', '?')} ops, {ev.get('wall_s', '?')} s |")
