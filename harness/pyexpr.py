"""A small FAIL-CLOSED translator from a restricted Python subset (as `ast`) to Gallina text.

It is used by the T1 table modules to regenerate, from the working tree, executable Gallina
definitions of *pure helper functions and loop nests* of the modelled code (bounds tests, torus
wrapping, distance formulas, the offset loops of the neighbourhood functions).  The proofs then
contain *bridge lemmas* `generated = hand-written model function`; an edit of the source changes
the generated definition and the bridge lemma (or what depends on it) stops checking.

Supported
  expressions : int / bool constants, names, `self.attr` (-> a parameter), + - * // % and ** 2,
                unary -, not, and / or, comparison chains, abs / min / max / len-free calls,
                tuples, `name[0]`, `name[1]`, conditional expressions
  statements  : tuple unpacking of a tuple-valued name, (augmented) assignment, if / elif / else,
                return, raise (-> None of an option), and - in "collector" mode - for-loops over
                range(...) whose bodies `continue`, assign, and insert keys with `d[key] = True`
Anything else raises `Unsupported` (the table module turns that into translator-broken).

Typing: Python ints are Z, bools are Coq bool.  The translator needs to know which *names* are
boolean (parameters such as `moore`, `torus`); everything else is Z."""
import ast


class Unsupported(Exception):
    pass


def _z(n):
    return f"({n})" if n < 0 else str(n)


class Tr:
    def __init__(self, bool_names=(), attr_map=None, call_map=None, tuple_names=(), list_names=None):
        self.list_names = dict(list_names or {})   # name -> 'Z' | 'tuple' : lists the code iterates over (parameters)
        self.bool_names = set(bool_names)
        self.attr_map = attr_map or {}      # "width" -> "w"  (self.width)
        self.call_map = call_map or {}      # "self.out_of_bounds" -> lambda args: "..."  (returns (text, is_bool))
        self.tuple_names = set(tuple_names)

    # ---------------------------------------------------------------- expressions
    def expr(self, e):
        """returns (gallina_text, kind) with kind in {'Z','bool','tuple'}"""
        if isinstance(e, ast.Constant):
            if isinstance(e.value, bool):
                return ("true" if e.value else "false"), "bool"
            if isinstance(e.value, int):
                return _z(e.value), "Z"
            raise Unsupported(f"constant {e.value!r}")
        if isinstance(e, ast.Name):
            if e.id in self.bool_names:
                return e.id, "bool"
            if e.id in self.tuple_names:
                return e.id, "tuple"
            return e.id, "Z"
        if isinstance(e, ast.Attribute) and isinstance(e.value, ast.Name) and e.value.id == "self":
            if e.attr not in self.attr_map:
                raise Unsupported(f"self.{e.attr}")
            n = self.attr_map[e.attr]
            return n, ("bool" if n in self.bool_names else "Z")
        if isinstance(e, ast.UnaryOp):
            t, k = self.expr(e.operand)
            if isinstance(e.op, ast.USub) and k == "Z":
                return f"(- {t})", "Z"
            if isinstance(e.op, ast.Not) and k == "bool":
                return f"(negb {t})", "bool"
            raise Unsupported("unary operator")
        if isinstance(e, ast.BinOp):
            a, ka = self.expr(e.left)
            b, kb = self.expr(e.right)
            if ka != "Z" or kb != "Z":
                raise Unsupported("arithmetic on non-integers")
            if isinstance(e.op, ast.Add):
                return f"({a} + {b})", "Z"
            if isinstance(e.op, ast.Sub):
                return f"({a} - {b})", "Z"
            if isinstance(e.op, ast.Mult):
                return f"({a} * {b})", "Z"
            if isinstance(e.op, ast.FloorDiv):
                return f"({a} / {b})", "Z"
            if isinstance(e.op, ast.Mod):
                return f"({a} mod {b})", "Z"
            if isinstance(e.op, ast.Pow) and isinstance(e.right, ast.Constant) and e.right.value == 2:
                return f"({a} * {a})", "Z"
            raise Unsupported("binary operator")
        if isinstance(e, ast.BoolOp):
            parts = [self.expr(v) for v in e.values]
            if any(k != "bool" for _, k in parts):
                raise Unsupported("and/or on non-booleans")
            op = " && " if isinstance(e.op, ast.And) else " || "
            out = parts[0][0]
            for t, _ in parts[1:]:
                out = f"({out}{op}{t})"
            return out, "bool"
        if isinstance(e, ast.Compare):
            ops = {ast.Lt: "<?", ast.LtE: "<=?", ast.Gt: ">?", ast.GtE: ">=?", ast.Eq: "=?"}
            terms = [e.left] + list(e.comparators)
            outs = []
            for (l, r, op) in zip(terms, terms[1:], e.ops):
                a, ka = self.expr(l)
                b, kb = self.expr(r)
                if ka != "Z" or kb != "Z":
                    raise Unsupported("comparison of non-integers")
                if type(op) is ast.NotEq:
                    outs.append(f"(negb ({a} =? {b}))")
                elif type(op) in ops:
                    outs.append(f"({a} {ops[type(op)]} {b})")
                else:
                    raise Unsupported("comparison operator")
            out = outs[0]
            for t in outs[1:]:
                out = f"({out} && {t})"
            return out, "bool"
        if isinstance(e, ast.IfExp):
            c, kc = self.expr(e.test)
            a, ka = self.expr(e.body)
            b, kb = self.expr(e.orelse)
            if kc != "bool" or ka != kb:
                raise Unsupported("conditional expression")
            return f"(if {c} then {a} else {b})", ka
        if isinstance(e, ast.Tuple):
            parts = [self.expr(v) for v in e.elts]
            if len(parts) != 2 or any(k != "Z" for _, k in parts):
                raise Unsupported("only pairs of integers")
            return f"({parts[0][0]}, {parts[1][0]})", "tuple"
        if isinstance(e, ast.Subscript) and isinstance(e.value, ast.Name) and e.value.id in self.tuple_names \
                and isinstance(e.slice, ast.Constant) and e.slice.value in (0, 1):
            return (f"(fst {e.value.id})" if e.slice.value == 0 else f"(snd {e.value.id})"), "Z"
        if isinstance(e, ast.Call):
            name = ast.unparse(e.func)
            if name in ("abs", "min", "max") and not e.keywords:
                args = [self.expr(a) for a in e.args]
                if any(k != "Z" for _, k in args):
                    raise Unsupported(f"{name} of non-integers")
                if name == "abs" and len(args) == 1:
                    return f"(Z.abs {args[0][0]})", "Z"
                if name in ("min", "max") and len(args) == 2:
                    return f"(Z.{name} {args[0][0]} {args[1][0]})", "Z"
            if name in self.call_map and not e.keywords:
                return self.call_map[name]([self.expr(a) for a in e.args])
            raise Unsupported(f"call of {name}")
        raise Unsupported(type(e).__name__)

    def bexpr(self, e):
        t, k = self.expr(e)
        if k != "bool":
            raise Unsupported("a boolean was expected")
        return t

    # ---------------------------------------------------------------- function bodies
    def body(self, stmts, ret_kind):
        """straight-line / branching code ending in return or raise.
        ret_kind: 'Z' | 'bool' | 'tuple' | 'option tuple' | 'option Z' ...  returns Gallina text"""
        if not stmts:
            raise Unsupported("control reaches the end of the function")
        s, rest = stmts[0], stmts[1:]
        opt = ret_kind.startswith("option")
        if isinstance(s, ast.Expr) and isinstance(s.value, ast.Constant) and isinstance(s.value.value, str):
            return self.body(rest, ret_kind)   # docstring
        if isinstance(s, ast.Return):
            t, k = self.expr(s.value)
            want = ret_kind.split()[-1]
            if k != want:
                raise Unsupported(f"returns {k}, expected {want}")
            return f"(Some {t})" if opt else t
        if isinstance(s, ast.Raise):
            if not opt:
                raise Unsupported("raise in a function translated as total")
            return "None"
        if isinstance(s, ast.If):
            c = self.bexpr(s.test)
            # both branches must terminate, or the else branch is empty and control falls through
            then_t = self.body(list(s.body) + ([] if self._terminates(s.body) else rest), ret_kind)
            else_stmts = list(s.orelse) if s.orelse else []
            else_t = self.body(else_stmts + ([] if (else_stmts and self._terminates(else_stmts)) else rest), ret_kind)
            return f"(if {c} then {then_t} else {else_t})"
        b = self._binding(s)
        if b is not None:
            return f"({b} {self.body(rest, ret_kind)})"
        raise Unsupported(f"statement {type(s).__name__}")

    def _terminates(self, stmts):
        if not stmts:
            return False
        last = stmts[-1]
        if isinstance(last, (ast.Return, ast.Raise, ast.Continue)):
            return True
        if isinstance(last, ast.If) and last.orelse:
            return self._terminates(last.body) and self._terminates(last.orelse)
        return False

    def _binding(self, s):
        """`let ... in` text for an assignment statement, or None"""
        if isinstance(s, ast.Assign) and len(s.targets) == 1:
            t = s.targets[0]
            if isinstance(t, ast.Name):
                v, k = self.expr(s.value)
                if k == "bool":
                    self.bool_names.add(t.id)
                elif k == "tuple":
                    self.tuple_names.add(t.id)
                return f"let {t.id} := {v} in"
            if isinstance(t, ast.Tuple) and all(isinstance(x, ast.Name) for x in t.elts) and len(t.elts) == 2:
                a, b = t.elts[0].id, t.elts[1].id
                if isinstance(s.value, ast.Tuple) and len(s.value.elts) == 2:
                    # simultaneous assignment: evaluate both right-hand sides first
                    v1, k1 = self.expr(s.value.elts[0])
                    v2, k2 = self.expr(s.value.elts[1])
                    if k1 != "Z" or k2 != "Z":
                        raise Unsupported("pair assignment of non-integers")
                    return f"let '({a}, {b}) := ({v1}, {v2}) in"
                v, k = self.expr(s.value)
                if k != "tuple":
                    raise Unsupported("unpacking a non-pair")
                return f"let '({a}, {b}) := {v} in"
        if isinstance(s, ast.AugAssign) and isinstance(s.target, ast.Name):
            v, k = self.expr(ast.BinOp(left=ast.Name(id=s.target.id, ctx=ast.Load()), op=s.op, right=s.value))
            return f"let {s.target.id} := {v} in"
        return None

    # ---------------------------------------------------------------- collector loops
    def collect(self, stmts, dict_name):
        """list-of-keys valued Gallina term for a statement list that inserts keys into `dict_name`
        with  dict_name[key] = True  inside for-range loops (insertion order kept, duplicates kept:
        the caller applies dedup_first)."""
        if not stmts:
            return "[]"
        s, rest = stmts[0], stmts[1:]
        if isinstance(s, ast.Continue):
            return "[]"
        if isinstance(s, ast.For) and isinstance(s.target, ast.Name) and isinstance(s.iter, ast.Call) \
                and ast.unparse(s.iter.func) == "range" and not s.orelse:
            var = s.target.id
            lo, hi = self._range(s.iter)
            inner = self.collect(list(s.body), dict_name)
            here = f"(flat_map (fun {var} => {inner}) (zrange {lo} ({hi} - 1)))"
            return here if not rest else f"({here} ++ {self.collect(rest, dict_name)})"
        if isinstance(s, ast.For) and isinstance(s.target, ast.Name) and isinstance(s.iter, ast.Name) \
                and s.iter.id in self.range_names and not s.orelse:
            var = s.target.id
            lo, hi = self.range_names[s.iter.id]
            inner = self.collect(list(s.body), dict_name)
            here = f"(flat_map (fun {var} => {inner}) (zrange {lo} ({hi} - 1)))"
            return here if not rest else f"({here} ++ {self.collect(rest, dict_name)})"
        if isinstance(s, ast.For) and isinstance(s.iter, ast.Name) and s.iter.id in self.list_names and not s.orelse:
            # for v in <list parameter> / for (a, b) in <list of pairs>
            if isinstance(s.target, ast.Name):
                pat = s.target.id
                if self.list_names[s.iter.id] == "tuple":
                    self.tuple_names.add(pat)
                binder = f"fun {pat} =>"
            elif isinstance(s.target, ast.Tuple) and len(s.target.elts) == 2 and all(isinstance(x, ast.Name) for x in s.target.elts) \
                    and self.list_names[s.iter.id] == "tuple":
                binder = f"fun '({s.target.elts[0].id}, {s.target.elts[1].id}) =>"
            else:
                raise Unsupported("loop target")
            inner = self.collect(list(s.body), dict_name)
            here = f"(flat_map ({binder} {inner}) {s.iter.id})"
            return here if not rest else f"({here} ++ {self.collect(rest, dict_name)})"
        if isinstance(s, ast.Assign) and len(s.targets) == 1 and isinstance(s.targets[0], ast.Subscript) \
                and isinstance(s.targets[0].value, ast.Name) and s.targets[0].value.id == dict_name:
            key, k = self.expr(s.targets[0].slice)
            if k != "tuple":
                raise Unsupported("dictionary key is not a pair")
            return f"({key} :: {self.collect(rest, dict_name)})"
        if isinstance(s, ast.Assign) and len(s.targets) == 1 and isinstance(s.targets[0], ast.Name) \
                and isinstance(s.value, ast.Call) and ast.unparse(s.value.func) == "range":
            self.range_names[s.targets[0].id] = self._range(s.value)
            return self.collect(rest, dict_name)
        if isinstance(s, ast.If):
            c = self.bexpr(s.test)
            if self._terminates(s.body) and not s.orelse:          # `if c: continue`
                return f"(if {c} then {self.collect(list(s.body), dict_name)} else {self.collect(rest, dict_name)})"
            if self._only_assigns(s.body) and not s.orelse:         # `if c: x %= n ...` conditional re-binding
                out = self.collect(rest, dict_name)
                for a in reversed(s.body):
                    name, val = self._assign_parts(a)
                    out = f"(let {name} := (if {c} then {val} else {name}) in {out})"
                return out
            then_t = self.collect(list(s.body), dict_name)
            else_t = self.collect(list(s.orelse), dict_name) if s.orelse else "[]"
            here = f"(if {c} then {then_t} else {else_t})"
            return here if not rest else f"({here} ++ {self.collect(rest, dict_name)})"
        b = self._binding(s)
        if b is not None:
            return f"({b} {self.collect(rest, dict_name)})"
        raise Unsupported(f"statement {type(s).__name__} in a collector loop")

    range_names = {}

    def _range(self, call):
        if call.keywords or not (1 <= len(call.args) <= 2):
            raise Unsupported("range with a step / keywords")
        if len(call.args) == 1:
            hi, k = self.expr(call.args[0])
            return "0", hi
        lo, k1 = self.expr(call.args[0])
        hi, k2 = self.expr(call.args[1])
        if k1 != "Z" or k2 != "Z":
            raise Unsupported("range bounds")
        return lo, hi

    def _only_assigns(self, stmts):
        return all(isinstance(a, (ast.Assign, ast.AugAssign)) and self._assign_parts(a, probe=True) for a in stmts)

    def _assign_parts(self, a, probe=False):
        if isinstance(a, ast.AugAssign) and isinstance(a.target, ast.Name):
            if probe:
                return True
            v, _ = self.expr(ast.BinOp(left=ast.Name(id=a.target.id, ctx=ast.Load()), op=a.op, right=a.value))
            return a.target.id, v
        if isinstance(a, ast.Assign) and len(a.targets) == 1 and isinstance(a.targets[0], ast.Name):
            if probe:
                return True
            v, _ = self.expr(a.value)
            return a.targets[0].id, v
        if probe:
            return False
        raise Unsupported("conditional statement that is not a plain assignment")


def find_stmt(fn, pred):
    """the statements of `fn` (any depth) satisfying pred, in source order"""
    return [n for n in ast.walk(fn) if pred(n)]


# ---------------------------------------------------------------------------------------------
# Skeleton checks that survive harmless refactors: compare statements modulo the names of LOCAL
# variables (alpha-renaming in order of first binding), docstrings, comments and formatting.
class _Renamer(ast.NodeTransformer):
    def __init__(self, mapping):
        self.mapping = mapping

    def visit_Name(self, node):
        if node.id in self.mapping:
            return ast.copy_location(ast.Name(id=self.mapping[node.id], ctx=node.ctx), node)
        return node

    def visit_arg(self, node):
        if node.arg in self.mapping:
            node.arg = self.mapping[node.arg]
        return node


def local_names(fn, keep=()):
    """names bound inside `fn` (assignment / for / with / comprehension / walrus targets), in order of
    first binding; parameters and anything in `keep` are NOT renamed (they are part of the interface)"""
    params = {a.arg for a in fn.args.args + fn.args.kwonlyargs + fn.args.posonlyargs}
    if fn.args.vararg:
        params.add(fn.args.vararg.arg)
    if fn.args.kwarg:
        params.add(fn.args.kwarg.arg)
    order = []

    def bind(t):
        for n in ast.walk(t):
            if isinstance(n, ast.Name) and n.id not in params and n.id not in keep and n.id not in order:
                order.append(n.id)

    for n in ast.walk(fn):
        if isinstance(n, ast.Assign):
            for t in n.targets:
                bind(t)
        elif isinstance(n, (ast.AugAssign, ast.AnnAssign, ast.NamedExpr)):
            bind(n.target)
        elif isinstance(n, (ast.For, ast.comprehension)):
            bind(n.target)
        elif isinstance(n, ast.With):
            for it in n.items:
                if it.optional_vars is not None:
                    bind(it.optional_vars)
    return order


def normalized_statements(fn, keep=()):
    """list of `ast.unparse`d top-level statements of `fn`, docstring dropped, local variables renamed
    to v0, v1, ... in order of first binding - use this instead of raw text for skeleton checks"""
    import copy

    fn = copy.deepcopy(fn)
    mapping = {n: f"v{i}" for i, n in enumerate(local_names(fn, keep))}
    fn = _Renamer(mapping).visit(fn)
    out = []
    for st in fn.body:
        if isinstance(st, ast.Expr) and isinstance(st.value, ast.Constant) and isinstance(st.value.value, str):
            continue
        out.append(ast.unparse(st))
    return out
