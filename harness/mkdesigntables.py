"""Prints the markdown tables for DESIGN.md section 11 (findings; seeded changes) from known_findings.json and seeded/*/."""
import glob
import json
import os
import re

VERIF = os.path.dirname(os.path.dirname(os.path.abspath(__file__)))
kf = json.load(open(os.path.join(VERIF, "known_findings.json")))["findings"]
print("| property | status | /repo commit | what failed (first line of the fix message / finding) |\n|---|---|---|---|")
for f in kf:
    if f["status"] == "fixed":
        print(f"| {f['property']} | fixed | `{f['commit']}` | {f['what']} |")
    else:
        print(f"| {f['property']} | **known** | - | `{f['key']}`: {f['what'][:160]} |")
print()
print("| seeded change | breaks | what it is / what it needs to manifest | result | how it was caught |\n|---|---|---|---|---|")
for d in sorted(glob.glob(os.path.join(VERIF, "seeded", "*", ""))):
    n = os.path.basename(d.rstrip("/"))
    try:
        m = json.load(open(d + "meta.json"))
    except Exception:
        continue
    run = open(d + "last_run.txt").read() if os.path.exists(d + "last_run.txt") else ""
    viol = len(re.findall(r"^VIOLATION", run, re.M))
    nfi = "no-failing-input-found" in run
    dis = re.findall(r"disagreements=(\d+)", run)
    pb = re.findall(r"proof_broken=(\d+)", run)
    how = []
    if viol and not nfi:
        how.append("oracle: failing input + replay")
    if nfi:
        how.append("tie broken, no failing input")
    if dis and int(dis[-1]):
        how.append(f"T2: {dis[-1]} model/impl disagreements")
    if pb and int(pb[-1]):
        how.append("T1/proof: a theorem stopped checking")
    res = m.get("result") or ("caught (quick)" if viol else "MISSED")
    summ = (m.get("summary", "") + " Needs: " + str(m.get("needs", ""))).replace("\n", " ").replace("|", "/")[:330]
    print(f"| {n} | {m['property']} | {summ} | {res} | {'; '.join(how)} |")
