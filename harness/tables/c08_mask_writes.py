"""T1 for C08: how the four legacy-grid place/remove methods write `self._empty_mask`.
For each of SingleGrid.place_agent, SingleGrid.remove_agent, MultiGrid.place_agent, MultiGrid.remove_agent the
extractor demands exactly one statement `self._empty_mask[...] = <True|False>` and reports
  (value written, is the statement nested in an `if` whose test mentions `_empties_built`).
Model/LegacyGrid.v takes both from Generated.Tables, so the theorems of C08 are re-checked against what the source
says on every run (defect #7 = MultiGrid wrote (true, guarded) on placing and (false, guarded) on removing)."""
import ast

import translate as T

HEADER = ""


def _mask_write(cls, fn):
    tree = T._parse("mesa/space.py")
    f = T._find_func(T._find_class(tree, cls), fn)
    found = []

    def walk(node, guarded):
        for child in ast.iter_child_nodes(node):
            g = guarded
            if isinstance(node, ast.If) and child in node.body or isinstance(node, ast.If) and child in node.orelse:
                g = guarded or any(isinstance(n, ast.Attribute) and n.attr == "_empties_built" for n in ast.walk(node.test))
            if isinstance(child, ast.Assign) and len(child.targets) == 1:
                t = child.targets[0]
                if (isinstance(t, ast.Subscript) and isinstance(t.value, ast.Attribute) and t.value.attr == "_empty_mask"
                        and isinstance(t.value.value, ast.Name) and t.value.value.id == "self"):
                    if not (isinstance(child.value, ast.Constant) and isinstance(child.value.value, bool)):
                        raise T.Broken("the value written to _empty_mask is not a boolean literal")
                    found.append((child.value.value, g))
            walk(child, g)

    walk(f, False)
    if len(found) != 1:
        raise T.Broken(f"expected exactly one write to self._empty_mask in {cls}.{fn}, found {len(found)}")
    return found[0]


def _mk(name, cls, fn):
    def ex():
        v, g = _mask_write(cls, fn)
        return f"Definition {name} : bool * bool := ({'true' if v else 'false'}, {'true' if g else 'false'})."

    def fb():
        # a value no proof accepts: placing writes "empty", removing writes "occupied", only when built
        bad = "(true, true)" if "place" in fn else "(false, true)"
        return f"Definition {name} : bool * bool := {bad}."

    return (name.replace("gen_", ""), "mesa/space.py", ex, fb)


CONSTRUCTS = [
    _mk("gen_mask_single_place", "SingleGrid", "place_agent"),
    _mk("gen_mask_single_remove", "SingleGrid", "remove_agent"),
    _mk("gen_mask_multi_place", "MultiGrid", "place_agent"),
    _mk("gen_mask_multi_remove", "MultiGrid", "remove_agent"),
]
