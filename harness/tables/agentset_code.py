"""T1 (code level) for mesa/agent.py:AgentSet (property C03).

TRANSLATED from the working tree into executable Gallina on every run (harness/pyexpr.py + the small
subclass below for what AgentSet needs beyond ints: `x is None`, truthiness of an optional argument, the
extended number `at_most` (int | float k/d | inf), string modes):
  select   the fast-path test, the at_most conversion (condition and `int(len(self) * at_most)`), the
           counting generator (initial count, break test, keep test, count update; its loop shape is checked
           and emitted as a Fixpoint whose tests are the translated ones), which form writes in place
  sort     the `reverse=` argument of the sorted() call, which form writes in place
  shuffle  which branch writes in place
  get      the handle_missing / single-name branch structure (which comprehension, or ValueError)
  signature defaults (ascending, inplace, handle_missing, result_type, at_most)
CHECKED VERBATIM (objects, dicts, weak references - not translatable): the residual glue statements of select,
sort, shuffle and the whole bodies of groupby, set, agg, __getitem__, add, discard, remove, _update.
Proofs/AgentSetBridge.v proves `model function = generated function`."""
import ast
import re

import pyexpr
import translate as T

SRC = "mesa/agent.py"
HEADER = ""


def _cls():
    return T._find_class(T._parse(SRC), "AgentSet")


def _body(fn):
    return [s for s in fn.body
            if not (isinstance(s, ast.Expr) and isinstance(s.value, ast.Constant) and isinstance(s.value.value, str))]


def _norm(fn):
    """deep copy of fn with its local variables alpha-renamed to v0, v1, ... (pyexpr.local_names order)"""
    import copy

    fn = copy.deepcopy(fn)
    mapping = {n: f"v{i}" for i, n in enumerate(pyexpr.local_names(fn))}
    return pyexpr._Renamer(mapping).visit(fn)


def _canon(fn, mapping):
    """give the structurally identified locals the canonical names the translator and the expected texts use"""
    if len(set(mapping.values())) != len(mapping):
        raise T.Broken("cannot identify the local variables")
    return pyexpr._Renamer(mapping).visit(fn)


def _name(t):
    if not isinstance(t, ast.Name):
        raise T.Broken("expected a plain local variable")
    return t.id


def _fn(name, params, cls=None):
    """the (last) definition of a method, compared / translated MODULO the names of its local variables,
    docstrings, comments and formatting"""
    defs = [n for n in (cls or _cls()).body if isinstance(n, ast.FunctionDef) and n.name == name]
    if not defs:
        raise T.Broken(f"function {name} not found")
    fn = _norm(defs[-1])     # after the @overload stubs
    got = [a.arg for a in fn.args.args]
    if got != params:
        raise T.Broken(f"unexpected parameters of {name}: {got}")
    return fn


class ATr(pyexpr.Tr):
    """pyexpr + optional arguments, the extended number at_most, len(self), string modes, opaque user calls"""
    NONE_NAMES = {"filter_func": "filter_func_none", "agent_type": "agent_type_none"}
    MODES = {"error": 0, "default": 1}

    def __init__(self):
        super().__init__(bool_names=["inplace", "ascending", "is_single_attr", "am_inf", "am_float", "filter_res", "is_inst",
                                     "filter_func_none", "agent_type_none"])

    def _is_name(self, e, n):
        return isinstance(e, ast.Name) and e.id == n

    def expr(self, e):
        # x is None / x is not None
        if isinstance(e, ast.Compare) and len(e.ops) == 1 and isinstance(e.ops[0], (ast.Is, ast.IsNot)) \
                and isinstance(e.left, ast.Name) and e.left.id in self.NONE_NAMES \
                and isinstance(e.comparators[0], ast.Constant) and e.comparators[0].value is None:
            t = self.NONE_NAMES[e.left.id]
            return (t if isinstance(e.ops[0], ast.Is) else f"(negb {t})"), "bool"
        # truthiness of an optional argument:  not filter_func
        if isinstance(e, ast.UnaryOp) and isinstance(e.op, ast.Not) and isinstance(e.operand, ast.Name) \
                and e.operand.id in self.NONE_NAMES:
            return self.NONE_NAMES[e.operand.id], "bool"
        if isinstance(e, ast.Compare) and len(e.ops) == 1:
            l, r, op = e.left, e.comparators[0], e.ops[0]
            # at_most == inf
            if isinstance(op, ast.Eq) and ((self._is_name(l, "at_most") and self._is_name(r, "inf"))
                                           or (self._is_name(r, "at_most") and self._is_name(l, "inf"))):
                return "am_inf", "bool"
            # at_most <= 1.0  (the float k/d against one)
            one = lambda x: isinstance(x, ast.Constant) and type(x.value) is float and x.value == 1.0  # noqa: E731
            if self._is_name(l, "at_most") and one(r) and isinstance(op, (ast.LtE, ast.Lt)):
                return f"(am_n {'<=?' if isinstance(op, ast.LtE) else '<?'} am_d)", "bool"
            if self._is_name(r, "at_most") and one(l) and isinstance(op, (ast.GtE, ast.Gt)):
                return f"(am_n {'<=?' if isinstance(op, ast.GtE) else '<?'} am_d)", "bool"
            # count >= at_most : comparison of an int with the extended number (inf is above every int)
            cmpo = {ast.GtE: ">=?", ast.Gt: ">?", ast.LtE: "<=?", ast.Lt: "<?"}
            if type(op) in cmpo and self._is_name(r, "at_most") and not self._is_name(l, "at_most"):
                a, k = self.expr(l)
                if k != "Z":
                    raise pyexpr.Unsupported("comparison with at_most")
                if isinstance(op, (ast.GtE, ast.Gt)):
                    return f"(negb am_inf && ({a} {cmpo[type(op)]} at_most))", "bool"
                return f"(am_inf || ({a} {cmpo[type(op)]} at_most))", "bool"
            if type(op) in cmpo and self._is_name(l, "at_most") and not self._is_name(r, "at_most"):
                b, k = self.expr(r)
                if k != "Z":
                    raise pyexpr.Unsupported("comparison with at_most")
                if isinstance(op, (ast.LtE, ast.Lt)):
                    return f"(negb am_inf && (at_most {cmpo[type(op)]} {b}))", "bool"
                return f"(am_inf || (at_most {cmpo[type(op)]} {b}))", "bool"
            # handle_missing == "error"
            if isinstance(op, ast.Eq) and self._is_name(l, "handle_missing") and isinstance(r, ast.Constant) and r.value in self.MODES:
                return f"(mode =? {self.MODES[r.value]})", "bool"
        if isinstance(e, ast.Call) and not e.keywords:
            f = ast.unparse(e.func)
            src = ast.unparse(e)
            if src == "len(self)":
                return "len", "Z"
            if src == "isinstance(at_most, float)":
                return "am_float", "bool"
            if src == "filter_func(agent)":
                return "filter_res", "bool"
            if src == "isinstance(agent, agent_type)":
                return "is_inst", "bool"
            # int(len(self) * at_most): truncation of a non-negative product = floor
            if f == "int" and len(e.args) == 1 and isinstance(e.args[0], ast.BinOp) and isinstance(e.args[0].op, ast.Mult):
                a, b = e.args[0].left, e.args[0].right
                other = b if self._is_name(a, "at_most") else (a if self._is_name(b, "at_most") else None)
                if other is not None:
                    o, k = self.expr(other)
                    if k != "Z":
                        raise pyexpr.Unsupported("int(.. * at_most)")
                    return f"(({o} * am_n) / am_d)", "Z"
        return super().expr(e)


def _tr(what, f):
    try:
        return f()
    except pyexpr.Unsupported as e:
        raise T.Broken(f"{what} is outside the translated subset: {e}") from None


# ------------------------------------------------------------------ select
SELECT_PARAMS = ["self", "filter_func", "at_most", "inplace", "agent_type"]


def _select_parts():
    fn = _fn("select", SELECT_PARAMS)
    b = _body(fn)
    if len(b) != 6:
        raise T.Broken(f"select has {len(b)} statements, expected 6")
    # identify the locals by their role, whatever they are called
    gen0 = b[3]
    if not (isinstance(b[0], ast.Assign) and isinstance(gen0, ast.FunctionDef) and isinstance(b[4], ast.Assign)):
        raise T.Broken("select is not `<inf> = ..; if ..; if ..; def <generator>; <agents> = ..; return ..`")
    g0 = _body(gen0)
    if not (len(g0) == 2 and isinstance(g0[0], ast.Assign) and isinstance(g0[1], ast.For)):
        raise T.Broken("the nested generator is not `<count> = ..; for <agent> in self: ...`")
    fn = _canon(fn, {_name(b[0].targets[0]): "inf", _name(b[4].targets[0]): "agents",
                     _name(g0[0].targets[0]): "count", _name(g0[1].target): "agent"})
    b = _body(fn)
    inf, fast, conv, gen, call, ret = b
    if not (isinstance(fast, ast.If) and not fast.orelse and len(fast.body) == 1 and isinstance(fast.body[0], ast.Return)):
        raise T.Broken("expected `if <fast path>: return ...`")
    if not (isinstance(conv, ast.If) and not conv.orelse and len(conv.body) == 1 and isinstance(conv.body[0], ast.Assign)
            and ast.unparse(conv.body[0].targets[0]) == "at_most"):
        raise T.Broken("expected `if <float test>: at_most = ...`")
    if not (isinstance(gen, ast.FunctionDef) and [a.arg for a in gen.args.args] == ["filter_func", "agent_type", "at_most"]):
        raise T.Broken("expected a nested generator with parameters (filter_func, agent_type, at_most)")
    if not isinstance(ret, ast.Return):
        raise T.Broken("expected a final return")
    return inf, fast, conv, gen, call, ret


def c_select_fast():
    _, fast, _, _, _, _ = _select_parts()
    t = _tr("select fast-path test", lambda: ATr().bexpr(fast.test))
    return f"Definition gen_select_fast (filter_func_none agent_type_none am_inf : bool) : bool :=\n  {t}."


def c_select_limit():
    _, _, conv, _, _, _ = _select_parts()
    c = _tr("at_most conversion test", lambda: ATr().bexpr(conv.test))
    v, k = _tr("at_most conversion", lambda: ATr().expr(conv.body[0].value))
    if k != "Z":
        raise T.Broken("the converted at_most is not an integer expression")
    return ("Definition gen_select_limit (am_float : bool) (am_n am_d len at_most : Z) : Z :=\n"
            f"  if {c} then {v} else at_most.")


def _gen_loop():
    _, _, _, gen, _, _ = _select_parts()
    b = _body(gen)
    if not (len(b) == 2 and isinstance(b[0], ast.Assign) and ast.unparse(b[0].targets[0]) == "count"
            and isinstance(b[1], ast.For) and ast.unparse(b[1].target) == "agent" and ast.unparse(b[1].iter) == "self"
            and not b[1].orelse):
        raise T.Broken("agent_generator is not `count = ..; for agent in self: ...`")
    loop = b[1].body
    if not (len(loop) == 2 and isinstance(loop[0], ast.If) and not loop[0].orelse and len(loop[0].body) == 1
            and isinstance(loop[0].body[0], ast.Break)):
        raise T.Broken("the loop does not start with `if ...: break`")
    k = loop[1]
    if not (isinstance(k, ast.If) and not k.orelse and len(k.body) == 2 and ast.unparse(k.body[0]) == "yield agent"
            and isinstance(k.body[1], ast.AugAssign) and ast.unparse(k.body[1].target) == "count"):
        raise T.Broken("the loop does not continue with `if <keep>: yield agent; count += ..`")
    return b[0].value, loop[0].test, k.test, k.body[1]


def c_select_keep():
    _, _, keep, _ = _gen_loop()
    t = _tr("keep test of the generator", lambda: ATr().bexpr(keep))
    return ("Definition gen_select_keep (filter_func_none agent_type_none filter_res is_inst : bool) : bool :=\n"
            f"  {t}.")


def c_select_loop():
    init, brk, _, upd = _gen_loop()
    tr = ATr()
    i, ki = _tr("initial count", lambda: tr.expr(init))
    bt = _tr("break test", lambda: tr.bexpr(brk))
    nx, kn = _tr("count update", lambda: tr.expr(ast.BinOp(left=ast.Name(id="count", ctx=ast.Load()), op=upd.op, right=upd.value)))
    if ki != "Z" or kn != "Z":
        raise T.Broken("count is not an integer")
    return (f"Definition gen_select_count0 : Z := {i}.\n"
            "(* for agent in self: if <break test>: break; if <keep>: yield agent; count = <update> *)\n"
            "Fixpoint gen_select_loop (keepf : Z -> option bool) (am_inf : bool) (at_most count : Z) (l : list Z)\n"
            "  : option (list Z) :=\n"
            "  match l with\n"
            "  | [] => Some []\n"
            "  | agent :: rest =>\n"
            f"      if {bt} then Some []\n"
            "      else match keepf agent with\n"
            "           | None => None\n"
            f"           | Some true => match gen_select_loop keepf am_inf at_most {nx} rest with\n"
            "                          | Some r => Some (agent :: r) | None => None end\n"
            "           | Some false => gen_select_loop keepf am_inf at_most count rest\n"
            "           end\n"
            "  end.")


def _selfness(e, tr):
    """does this expression denote the set itself (True) or a new set (False)?  As a bool term over `inplace`."""
    s = ast.unparse(e)
    if isinstance(e, ast.IfExp):
        return f"(if {tr.bexpr(e.test)} then {_selfness(e.body, tr)} else {_selfness(e.orelse, tr)})"
    if s == "self" or (isinstance(e, ast.Call) and ast.unparse(e.func) == "self._update"):
        return "true"
    if (isinstance(e, ast.Call) and ast.unparse(e.func) == "AgentSet") or s == "copy.copy(self)":
        return "false"
    raise pyexpr.Unsupported(f"result expression {s[:40]}")


def c_select_inplace():
    _, fast, _, _, _, ret = _select_parts()
    a = _tr("fast-path result", lambda: _selfness(fast.body[0].value, ATr()))
    b = _tr("select result", lambda: _selfness(ret.value, ATr()))
    return (f"Definition gen_select_fast_inplace (inplace : bool) : bool := {a}.\n"
            f"Definition gen_select_inplace (inplace : bool) : bool := {b}.")


def c_select_skeleton():
    inf, _, _, gen, call, ret = _select_parts()
    got = [ast.unparse(inf), ast.unparse(call)]
    want = ["inf = float('inf')", f"agents = {gen.name}(filter_func, agent_type, at_most)"]
    if got != want:
        raise T.Broken(f"glue statements of select changed: {got}")
    r = ast.unparse(ret.value)
    if "AgentSet(agents, self.random)" not in r or "self._update(agents)" not in r:
        raise T.Broken(f"select no longer builds its result from `agents`: {r[:80]}")
    return "Definition gen_select_skeleton_ok : bool := true."


# ------------------------------------------------------------------ sort / shuffle
def _sort_parts():
    fn = _fn("sort", ["self", "key", "ascending", "inplace"])
    b = _body(fn)
    if len(b) != 3 or not isinstance(b[1], ast.Assign):
        raise T.Broken("sort is not `if ..: key = ..; <sorted> = sorted(..); return ..`")
    fn = _canon(fn, {_name(b[1].targets[0]): "sorted_agents"})
    return _body(fn)


def c_sort_reverse():
    _, srt, _ = _sort_parts()
    v = srt.value if isinstance(srt, ast.Assign) else None
    if not (v is not None and ast.unparse(srt.targets[0]) == "sorted_agents" and isinstance(v, ast.Call)
            and ast.unparse(v.func) == "sorted" and [ast.unparse(a) for a in v.args] == ["self._agents.keys()"]
            and sorted(k.arg for k in v.keywords) == ["key", "reverse"]
            and ast.unparse(next(k.value for k in v.keywords if k.arg == "key")) == "key"):
        raise T.Broken("expected sorted_agents = sorted(self._agents.keys(), key=key, reverse=...)")
    rev = next(k.value for k in v.keywords if k.arg == "reverse")
    t = _tr("reverse= argument of sorted", lambda: ATr().bexpr(rev))
    return f"Definition gen_sort_reverse (ascending : bool) : bool := {t}."


def c_sort_inplace():
    keyst, _, ret = _sort_parts()
    if ast.unparse(keyst) != "if isinstance(key, str):\n    key = operator.attrgetter(key)":
        raise T.Broken("key construction of sort changed: " + ast.unparse(keyst)[:80])
    if not isinstance(ret, ast.Return):
        raise T.Broken("sort does not end with a return")
    r = ast.unparse(ret.value)
    if "AgentSet(sorted_agents, self.random)" not in r or "self._update(sorted_agents)" not in r:
        raise T.Broken("sort no longer builds its result from sorted_agents")
    t = _tr("sort result", lambda: _selfness(ret.value, ATr()))
    return f"Definition gen_sort_inplace (inplace : bool) : bool := {t}."


def c_shuffle():
    fn = _fn("shuffle", ["self", "inplace"])
    b = _body(fn)
    if len(b) >= 1 and isinstance(b[0], ast.Assign):
        fn = _canon(fn, {_name(b[0].targets[0]): "weakrefs"})
        b = _body(fn)
    want0 = ["weakrefs = list(self._agents.keyrefs())", "self.random.shuffle(weakrefs)"]
    if len(b) != 3 or [ast.unparse(s) for s in b[:2]] != want0 or not isinstance(b[2], ast.If):
        raise T.Broken("shuffle is not `weakrefs = ..; self.random.shuffle(weakrefs); if ..: .. else: ..`")
    br = b[2]

    def branch(stmts):
        if not stmts or not isinstance(stmts[-1], ast.Return):
            raise pyexpr.Unsupported("a branch of shuffle does not end with return")
        pre = [ast.unparse(s) for s in stmts[:-1]]
        r = ast.unparse(stmts[-1].value)
        if r == "self":
            if len(pre) != 1 or not re.fullmatch(r"self\._agents\.data = \{(v\d+): None for \1 in weakrefs\}", pre[0]):
                raise pyexpr.Unsupported("the in-place branch does not rebuild data from weakrefs")
            return "true"
        if pre == [] and re.fullmatch(r"AgentSet\(\((v\d+) for (v\d+) in weakrefs if \(\1 := \2\(\)\) is not None\), self\.random\)", r):
            return "false"
        raise pyexpr.Unsupported("unexpected branch of shuffle")
    t = _tr("shuffle branches", lambda: f"(if {ATr().bexpr(br.test)} then {branch(br.body)} else {branch(br.orelse)})")
    return f"Definition gen_shuffle_inplace (inplace : bool) : bool := {t}."


# ------------------------------------------------------------------ get
def _comp_tag(e):
    """classify `[getattr(agent, n[, default]) for agent in self._agents]` / the nested form: 2*default + nested"""
    def leaf(c, agent, var):
        if not (isinstance(c, ast.Call) and ast.unparse(c.func) == "getattr" and not c.keywords and len(c.args) in (2, 3)
                and ast.unparse(c.args[0]) == agent and ast.unparse(c.args[1]) == var):
            raise pyexpr.Unsupported("comprehension element is not getattr(<agent>, <name>[, default])")
        if len(c.args) == 3 and ast.unparse(c.args[2]) != "default_value":
            raise pyexpr.Unsupported("unexpected default")
        return len(c.args) == 3
    if not (isinstance(e, ast.ListComp) and len(e.generators) == 1 and isinstance(e.generators[0].target, ast.Name)
            and ast.unparse(e.generators[0].iter) == "self._agents" and not e.generators[0].ifs):
        raise pyexpr.Unsupported("not a comprehension over self._agents")
    agent = e.generators[0].target.id
    if isinstance(e.elt, ast.ListComp):
        g = e.elt.generators
        if not (len(g) == 1 and isinstance(g[0].target, ast.Name) and ast.unparse(g[0].iter) == "attr_names" and not g[0].ifs):
            raise pyexpr.Unsupported("inner comprehension is not over attr_names")
        return 2 * int(leaf(e.elt.elt, agent, g[0].target.id)) + 1
    return 2 * int(leaf(e.elt, agent, "attr_names"))


def c_get():
    fn = _fn("get", ["self", "attr_names", "handle_missing", "default_value"])
    b = _body(fn)
    if len(b) == 2 and isinstance(b[0], ast.Assign):
        fn = _canon(fn, {_name(b[0].targets[0]): "is_single_attr"})
        b = _body(fn)
    if not (len(b) == 2 and ast.unparse(b[0]) == "is_single_attr = isinstance(attr_names, str)" and isinstance(b[1], ast.If)):
        raise T.Broken("get is not `is_single_attr = isinstance(attr_names, str); if ...`")
    tr = ATr()

    def go(stmts):
        if len(stmts) != 1:
            raise pyexpr.Unsupported("a branch of get has more than one statement")
        s = stmts[0]
        if isinstance(s, ast.Raise):
            if not ast.unparse(s.exc).startswith("ValueError("):
                raise pyexpr.Unsupported("get raises something else than ValueError")
            return "None"
        if isinstance(s, ast.Return):
            return f"(Some {_comp_tag(s.value)})"
        if isinstance(s, ast.If) and s.orelse:
            return f"(if {tr.bexpr(s.test)} then {go(s.body)} else {go(s.orelse)})"
        raise pyexpr.Unsupported(f"statement {type(s).__name__} in get")
    t = _tr("branches of get", lambda: go([b[1]]))
    return ("(* Some (2*uses_default + nested) = which comprehension is returned; None = ValueError *)\n"
            f"Definition gen_get_branch (mode : Z) (is_single_attr : bool) : option Z :=\n  {t}.")


# ------------------------------------------------------------------ defaults
def c_defaults():
    cls = _cls()

    def dflt(fname, arg):
        fn = T._find_func(cls, fname)
        names = [a.arg for a in fn.args.args]
        ds = fn.args.defaults
        i = names.index(arg) - (len(names) - len(ds))
        if i < 0:
            raise T.Broken(f"{fname}({arg}) has no default")
        return ast.unparse(ds[i])
    b = {"False": "false", "True": "true"}
    vals = {}
    try:
        vals["asc"] = b[dflt("sort", "ascending")]
        vals["inpl"] = [b[dflt(f, "inplace")] for f in ("select", "sort", "shuffle")]
        vals["hm"] = {"'error'": "0", "'default'": "1"}[dflt("get", "handle_missing")]
        vals["inf"] = {"float('inf')": "true"}.get(dflt("select", "at_most"), "false")
        vals["rt"] = {"'agentset'": "true"}.get(dflt("groupby", "result_type"), "false")
        vals["none"] = "true" if (dflt("select", "filter_func"), dflt("select", "agent_type")) == ("None", "None") else "false"
    except (KeyError, ValueError) as e:
        raise T.Broken(f"unexpected default value: {e}") from None
    return ("(* (sort ascending, [select; sort; shuffle] inplace, get handle_missing mode, select at_most is inf,\n"
            "    groupby result_type is agentset, select filter_func/agent_type are None) *)\n"
            "Definition gen_agentset_defaults : bool * list bool * Z * bool * bool * bool :=\n"
            f"  ({vals['asc']}, [{'; '.join(vals['inpl'])}], {vals['hm']}, {vals['inf']}, {vals['rt']}, {vals['none']}).")


# ------------------------------------------------------------------ verbatim glue (objects, dicts, weak references)
# statements modulo the names of local variables (v0, v1, ... in order of first binding), docstrings, comments, formatting
SKELETONS = {
    "__len__": (["self"], ["return len(self._agents)"]),
    "__iter__": (["self"], ["return self._agents.keys()"]),
    "__contains__": (["self", "agent"], ["return agent in self._agents"]),
    "_update": (["self", "agents"], ["self._agents = weakref.WeakKeyDictionary({v0: None for v0 in agents})", "return self"]),
    "groupby": (["self", "by", "result_type"], [
        "v0 = defaultdict(list)",
        "if isinstance(by, Callable):\n    for v1 in self:\n        v0[by(v1)].append(v1)\n"
        "else:\n    for v1 in self:\n        v0[getattr(v1, by)].append(v1)",
        "if result_type == 'agentset':\n    return GroupBy({v2: AgentSet(v3, random=self.random) for v2, v3 in v0.items()})\n"
        "else:\n    return GroupBy(v0)"]),
    "set": (["self", "attr_name", "value"], ["for v0 in self:\n    setattr(v0, attr_name, value)", "return self"]),
    "agg": (["self", "attribute", "func"], ["v0 = self.get(attribute)", "return func(v0)"]),
    "__getitem__": (["self", "item"], ["return list(self._agents.keys())[item]"]),
    "add": (["self", "agent"], ["self._agents[agent] = None"]),
    "discard": (["self", "agent"], ["with contextlib.suppress(KeyError):\n    del self._agents[agent]"]),
    "remove": (["self", "agent"], ["del self._agents[agent]"]),
}
GROUPBY_SKELETONS = {
    "map": (["self", "method"], [
        "if isinstance(method, str):\n    return {v0: getattr(v1, method)(*args, **kwargs) for v0, v1 in self.groups.items()}\n"
        "else:\n    return {v0: method(v1, *args, **kwargs) for v0, v1 in self.groups.items()}"]),
    "do": (["self", "method"], [
        "if isinstance(method, str):\n    for v0 in self.groups.values():\n        getattr(v0, method)(*args, **kwargs)\n"
        "else:\n    for v0 in self.groups.values():\n        method(v0, *args, **kwargs)",
        "return self"]),
    "__init__": (["self", "groups"], ["self.groups: dict[Any, list | AgentSet] = groups"]),
}


def c_glue():
    gbcls = T._find_class(T._parse(SRC), "GroupBy")
    for cname, cls, table in (("AgentSet", None, SKELETONS), ("GroupBy", gbcls, GROUPBY_SKELETONS)):
        for name, (params, want) in table.items():
            fn = _fn(name, params, cls)
            got = [ast.unparse(s) for s in _body(fn)]
            if got != want:
                d = next((f"{a!r} != {b!r}" for a, b in zip(got, want) if a != b), f"{len(got)} statements, expected {len(want)}")
                raise T.Broken(f"statements of {cname}.{name} changed: {d[:200]}")
    init = T._find_func(_cls(), "__init__")
    last = ast.unparse(_body(_norm(init))[-1])
    if last != "self._agents = weakref.WeakKeyDictionary({v0: None for v0 in agents})":
        raise T.Broken("AgentSet.__init__ no longer builds the key dictionary from `agents`")
    return "Definition gen_agentset_glue_ok : bool := true."


# ------------------------------------------------------------------ GroupBy.count / GroupBy.agg: comprehension translated
def _group_comp(name, params):
    """`return {K: <value> for K, V in self.groups.items()}` -> (value expression, K, V)"""
    fn = _fn(name, params, T._find_class(T._parse(SRC), "GroupBy"))
    b = _body(fn)
    if not (len(b) == 1 and isinstance(b[0], ast.Return) and isinstance(b[0].value, ast.DictComp)):
        raise T.Broken(f"GroupBy.{name} is not a single dict comprehension")
    dc = b[0].value
    g = dc.generators
    if not (len(g) == 1 and not g[0].ifs and ast.unparse(g[0].iter) == "self.groups.items()" and isinstance(g[0].target, ast.Tuple)
            and len(g[0].target.elts) == 2 and all(isinstance(x, ast.Name) for x in g[0].target.elts)
            and isinstance(dc.key, ast.Name) and dc.key.id == g[0].target.elts[0].id):
        raise T.Broken(f"GroupBy.{name} is not `{{k: .. for k, v in self.groups.items()}}`")
    return dc.value, g[0].target.elts[1].id


def _gexpr(e, grp, agent=None):
    """group-level expressions: len(<group>), <func>(<list>), [<elt> for a in <group>], getattr(a, attr_name)"""
    if isinstance(e, ast.Call) and not e.keywords and len(e.args) == 1 and ast.unparse(e.func) == "len" \
            and isinstance(e.args[0], ast.Name) and e.args[0].id == grp:
        return "(Z.of_nat (length v))"
    if isinstance(e, ast.Call) and not e.keywords and len(e.args) == 1 and ast.unparse(e.func) == "func":
        return f"(func {_gexpr(e.args[0], grp, agent)})"
    if isinstance(e, ast.ListComp) and len(e.generators) == 1 and not e.generators[0].ifs and isinstance(e.generators[0].target, ast.Name) \
            and isinstance(e.generators[0].iter, ast.Name) and e.generators[0].iter.id == grp:
        return f"(map (fun a => {_gexpr(e.elt, grp, e.generators[0].target.id)}) v)"
    if isinstance(e, ast.Call) and not e.keywords and ast.unparse(e.func) == "getattr" and len(e.args) == 2 \
            and isinstance(e.args[0], ast.Name) and e.args[0].id == agent and ast.unparse(e.args[1]) == "attr_name":
        return "(getattr a)"
    raise pyexpr.Unsupported(ast.unparse(e)[:60])


def c_group_count():
    val, grp = _group_comp("count", ["self"])
    t = _tr("GroupBy.count", lambda: _gexpr(val, grp))
    return ("Definition gen_group_count (groups : list (Z * list Z)) : list (Z * Z) :=\n"
            f"  map (fun e => let '(k, v) := e in (k, {t})) groups.")


def c_group_agg():
    val, grp = _group_comp("agg", ["self", "attr_name", "func"])
    t = _tr("GroupBy.agg", lambda: _gexpr(val, grp))
    return ("Definition gen_group_agg {R : Type} (func : list Z -> R) (getattr : Z -> Z) (groups : list (Z * list Z))\n"
            f"  : list (Z * R) :=\n  map (fun e => let '(k, v) := e in (k, {t})) groups.")


CONSTRUCTS = [
    ("agentset_groupby_count", SRC, c_group_count,
     lambda: "Definition gen_group_count (groups : list (Z * list Z)) : list (Z * Z) := []."),
    ("agentset_groupby_agg", SRC, c_group_agg,
     lambda: "Definition gen_group_agg {R : Type} (func : list Z -> R) (getattr : Z -> Z) (groups : list (Z * list Z)) : list (Z * R) := []."),
    ("agentset_select_fast", SRC, c_select_fast, lambda: "Definition gen_select_fast (a b c : bool) : bool := negb c."),
    ("agentset_select_limit", SRC, c_select_limit, lambda: "Definition gen_select_limit (am_float : bool) (am_n am_d len at_most : Z) : Z := -1."),
    ("agentset_select_keep", SRC, c_select_keep, lambda: "Definition gen_select_keep (a b c d : bool) : bool := negb c."),
    ("agentset_select_loop", SRC, c_select_loop,
     lambda: "Definition gen_select_count0 : Z := -1.\nDefinition gen_select_loop (keepf : Z -> option bool) (am_inf : bool) "
             "(at_most count : Z) (l : list Z) : option (list Z) := None."),
    ("agentset_select_inplace", SRC, c_select_inplace,
     lambda: "Definition gen_select_fast_inplace (inplace : bool) : bool := negb inplace.\n"
             "Definition gen_select_inplace (inplace : bool) : bool := negb inplace."),
    ("agentset_select_skeleton", SRC, c_select_skeleton, lambda: "Definition gen_select_skeleton_ok : bool := false."),
    ("agentset_sort_reverse", SRC, c_sort_reverse, lambda: "Definition gen_sort_reverse (ascending : bool) : bool := ascending."),
    ("agentset_sort_inplace", SRC, c_sort_inplace, lambda: "Definition gen_sort_inplace (inplace : bool) : bool := negb inplace."),
    ("agentset_shuffle", SRC, c_shuffle, lambda: "Definition gen_shuffle_inplace (inplace : bool) : bool := negb inplace."),
    ("agentset_get", SRC, c_get, lambda: "Definition gen_get_branch (mode : Z) (is_single_attr : bool) : option Z := None."),
    ("agentset_defaults", SRC, c_defaults,
     lambda: "Definition gen_agentset_defaults : bool * list bool * Z * bool * bool * bool := (true, [], -1, false, false, false)."),
    ("agentset_glue", SRC, c_glue, lambda: "Definition gen_agentset_glue_ok : bool := false."),
]
