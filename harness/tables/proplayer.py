"""T1 extractors for C11 (coq/Model/PropLayer.v):

  select_order_discrete   HasPropertyLayers.select_cells (mesa/discrete_space/property_layer.py)
  select_order_legacy     _PropertyGrid.select_cells     (mesa/space.py)
        the order of the filter stages of select_cells: the top-level statements of the function after
        the initialisation `combined_mask = np.ones(...)` must be exactly four `if` statements whose
        tests are `masks is not None`, `only_empty`, `conditions`, `extreme_values` (in some order), each
        without else-branch, followed by the `if return_list: ... else: ...` that builds the output.
        The model runs the stages in the extracted order; C11_source_select_order states that it is
        masks, only_empty, conditions, extreme values (extremes evaluated among the cells that pass the
        other filters), which is what C11_select_exact needs.
  select_empty_source     which object only_empty and-s into the mask: discrete must be
        `self._mesa_property_layers["empty"].data` (the array, not the layer object: defect #15),
        legacy `self.empty_mask`; emitted as booleans the theorem C11_source_only_empty_array checks.
"""
import ast

from translate import Broken, _find_class, _find_func, _parse

HEADER = """Inductive sel_stage := SMasks | SEmpty | SConds | SExts.
"""


def _stages(rel, cls):
    tree = _parse(rel)
    fn = _find_func(_find_class(tree, cls), "select_cells")
    params = [a.arg for a in fn.args.args]
    if params != ["self", "conditions", "extreme_values", "masks", "only_empty", "return_list"]:
        raise Broken(f"unexpected parameter list {params}")
    body = [n for n in fn.body if not (isinstance(n, ast.Expr) and isinstance(n.value, ast.Constant))]
    # the name of the mask variable is whatever the first statement binds (local names are not part of the tie)
    if not body or not isinstance(body[0], ast.Assign) or len(body[0].targets) != 1 or not isinstance(body[0].targets[0], ast.Name):
        raise Broken("first statement is not the initialisation of the combined mask")
    _stages.maskvar = body[0].targets[0].id
    init = body[0].value
    if not (isinstance(init, ast.Call) and ast.unparse(init.func) == "np.ones"):
        raise Broken("combined_mask is not initialised with np.ones(...)")
    rest = body[1:]
    if len(rest) != 5 or not all(isinstance(n, ast.If) for n in rest):
        raise Broken(f"expected 4 filter stages + the output statement, found {[type(n).__name__ for n in rest]}")
    names = {"masks is not None": "SMasks", "only_empty": "SEmpty", "conditions": "SConds", "extreme_values": "SExts"}
    out = []
    for n in rest[:4]:
        t = ast.unparse(n.test)
        if t not in names:
            raise Broken(f"unknown stage test `{t}`")
        if n.orelse:
            raise Broken(f"stage `{t}` has an else branch")
        out.append((names[t], n))
    if sorted(s for s, _ in out) != sorted(names.values()):
        raise Broken(f"stages are not the four expected ones: {[s for s, _ in out]}")
    last = rest[4]
    if ast.unparse(last.test) != "return_list" or not last.orelse:
        raise Broken("last statement is not `if return_list: ... else: ...`")
    # the mask form returns the combined mask itself
    if not (len(last.orelse) == 1 and isinstance(last.orelse[0], ast.Return) and ast.unparse(last.orelse[0].value) == _stages.maskvar):
        raise Broken("the mask form does not return the combined mask")
    return out


def _lit(stages):
    return "[" + "; ".join(s for s, _ in stages) + "]"


def c_select_order_discrete():
    return "Definition gen_select_order_discrete : list sel_stage := " + _lit(_stages("mesa/discrete_space/property_layer.py", "HasPropertyLayers")) + "."


def c_select_order_legacy():
    return "Definition gen_select_order_legacy : list sel_stage := " + _lit(_stages("mesa/space.py", "_PropertyGrid")) + "."


def _empty_operand(stages):
    node = dict(stages)["SEmpty"]
    calls = [c for c in ast.walk(node) if isinstance(c, ast.Call) and ast.unparse(c.func) == "np.logical_and"]
    if len(calls) != 1 or len(calls[0].args) != 2 or ast.unparse(calls[0].args[0]) != _stages.maskvar:
        raise Broken("only_empty stage is not one np.logical_and(combined_mask, <x>)")
    return ast.unparse(calls[0].args[1])


def c_select_empty_source():
    d = _empty_operand(_stages("mesa/discrete_space/property_layer.py", "HasPropertyLayers"))
    l = _empty_operand(_stages("mesa/space.py", "_PropertyGrid"))
    d_ok = d.replace('"', "'") == "self._mesa_property_layers['empty'].data"
    l_ok = l in ("self.empty_mask", "self._empty_mask")
    return (f"(* discrete: {d} ; legacy: {l} *)\n"
            f"Definition gen_select_empty_is_array : bool * bool := ({'true' if d_ok else 'false'}, {'true' if l_ok else 'false'}).")


CONSTRUCTS = [
    ("select_order_discrete", "mesa/discrete_space/property_layer.py", c_select_order_discrete,
     lambda: "Definition gen_select_order_discrete : list sel_stage := []."),
    ("select_order_legacy", "mesa/space.py", c_select_order_legacy,
     lambda: "Definition gen_select_order_legacy : list sel_stage := []."),
    ("select_empty_source", "mesa/discrete_space/property_layer.py", c_select_empty_source,
     lambda: "Definition gen_select_empty_is_array : bool * bool := (false, false)."),
]
