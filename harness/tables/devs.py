"""T1 extractors for the DEVS simulators (C14, C15): re-read from $VERIF_REPO with `ast` on every run.

  devs_priority_values : the values of the Priority IntEnum (eventlist.py)
  devs_event_key       : the comparison tuple of SimulationEvent.__lt__ (eventlist.py)
  devs_step_priority   : the priority with which ABMSimulator schedules model.step, at every site
                         that schedules it (simulator.py)
  devs_viz_run_for     : how SimulatorController.do_step (solara_viz.py) advances a simulator: every call on
                         `simulator` that advances time must be run_for(<int literal>), all with the same literal

Fail closed: any other shape raises Broken and a fallback is emitted with which the C14/C15 theorems
do not check."""
import ast

from translate import Broken, _find_class, _find_func, _parse

HEADER = """Inductive prio_name := PLow | PDefault | PHigh.
Inductive ev_field := FTime | FPriority | FUid.
"""

_EV = "mesa/experimental/devs/eventlist.py"
_SIM = "mesa/experimental/devs/simulator.py"


def c_priority_values():
    cls = _find_class(_parse(_EV), "Priority")
    if [getattr(b, "id", None) for b in cls.bases] != ["IntEnum"]:
        raise Broken("Priority is no longer an IntEnum")
    vals = {}
    for n in cls.body:
        if isinstance(n, ast.Expr) and isinstance(n.value, ast.Constant) and isinstance(n.value.value, str):
            continue  # docstring
        if (isinstance(n, ast.Assign) and len(n.targets) == 1 and isinstance(n.targets[0], ast.Name)
                and isinstance(n.value, ast.Constant) and type(n.value.value) is int):
            vals[n.targets[0].id] = n.value.value
        else:
            raise Broken("unexpected statement in class Priority")
    if sorted(vals) != ["DEFAULT", "HIGH", "LOW"]:
        raise Broken(f"unexpected members {sorted(vals)}")
    # SimulationEvent.__init__ must store priority.value
    init = _find_func(_find_class(_parse(_EV), "SimulationEvent"), "__init__")
    ok = False
    for n in ast.walk(init):
        if (isinstance(n, ast.Assign) and len(n.targets) == 1 and isinstance(n.targets[0], ast.Attribute)
                and n.targets[0].attr == "priority" and isinstance(n.targets[0].value, ast.Name)
                and n.targets[0].value.id == "self"):
            v = n.value
            ok = (isinstance(v, ast.Attribute) and v.attr == "value" and isinstance(v.value, ast.Name)
                  and v.value.id == "priority")
    if not ok:
        raise Broken("SimulationEvent.__init__ no longer stores priority.value in self.priority")
    return ("Definition gen_prio_value (p : prio_name) : Z :=\n  match p with "
            f"PLow => {vals['LOW']} | PDefault => {vals['DEFAULT']} | PHigh => {vals['HIGH']} end.")


def fb_priority_values():
    return "Definition gen_prio_value (p : prio_name) : Z := 0."


def _attr_tuple(expr, owner):
    if not isinstance(expr, ast.Tuple):
        raise Broken("expected a tuple")
    out = []
    for e in expr.elts:
        if not (isinstance(e, ast.Attribute) and isinstance(e.value, ast.Name) and e.value.id == owner):
            raise Broken(f"expected attributes of {owner}")
        out.append(e.attr)
    return out


def c_event_key():
    fn = _find_func(_find_class(_parse(_EV), "SimulationEvent"), "__lt__")
    params = [a.arg for a in fn.args.args]
    if params != ["self", "other"]:
        raise Broken(f"unexpected parameters {params}")
    body = [n for n in fn.body if not (isinstance(n, ast.Expr) and isinstance(n.value, ast.Constant))]
    if len(body) != 1 or not isinstance(body[0], ast.Return):
        raise Broken("__lt__ is no longer a single return")
    cmp_ = body[0].value
    if not (isinstance(cmp_, ast.Compare) and len(cmp_.ops) == 1 and isinstance(cmp_.ops[0], ast.Lt)
            and len(cmp_.comparators) == 1):
        raise Broken("__lt__ no longer returns  tuple < tuple")
    left = _attr_tuple(cmp_.left, "self")
    right = _attr_tuple(cmp_.comparators[0], "other")
    if left != right:
        raise Broken(f"the two tuples differ: {left} vs {right}")
    m = {"time": "FTime", "priority": "FPriority", "unique_id": "FUid"}
    if not all(a in m for a in left):
        raise Broken(f"unknown attribute in the key: {left}")
    # unique_id must come from the class-level itertools.count()
    cls = _find_class(_parse(_EV), "SimulationEvent")
    ok_ids = any(isinstance(n, ast.Assign) and isinstance(n.targets[0], ast.Name) and n.targets[0].id == "_ids"
                 and isinstance(n.value, ast.Call) and ast.unparse(n.value.func) == "itertools.count" and not n.value.args
                 for n in cls.body)
    init = _find_func(cls, "__init__")
    ok_next = any(isinstance(n, ast.Assign) and ast.unparse(n.targets[0]) == "self.unique_id"
                  and ast.unparse(n.value) == "next(self._ids)" for n in ast.walk(init))
    if not (ok_ids and ok_next):
        raise Broken("unique_id is no longer next(itertools.count())")
    return "Definition gen_event_key : list ev_field := [" + "; ".join(m[a] for a in left) + "]."


def fb_event_key():
    return "Definition gen_event_key : list ev_field := []."


def c_step_priority():
    cls = _find_class(_parse(_SIM), "ABMSimulator")
    found = []
    for n in ast.walk(cls):
        if (isinstance(n, ast.Call) and isinstance(n.func, ast.Attribute) and n.func.attr == "schedule_event_next_tick"
                and n.args and ast.unparse(n.args[0]) == "self.model.step"):
            kw = {k.arg: k.value for k in n.keywords}
            if "priority" not in kw or len(n.args) != 1 or set(kw) != {"priority"}:
                raise Broken("model.step scheduled without an explicit priority= keyword")
            p = kw["priority"]
            if not (isinstance(p, ast.Attribute) and isinstance(p.value, ast.Name) and p.value.id == "Priority"):
                raise Broken("priority of model.step is not a Priority member")
            found.append(p.attr)
    if len(found) < 2:
        raise Broken(f"expected model.step to be scheduled in setup and where it is executed, found {len(found)} site(s)")
    if len(set(found)) != 1:
        raise Broken(f"model.step scheduled with different priorities {found}")
    m = {"LOW": "PLow", "DEFAULT": "PDefault", "HIGH": "PHigh"}
    if found[0] not in m:
        raise Broken(f"unknown priority {found[0]}")
    # schedule_event_next_tick must be  schedule_event_relative(function, 1, ...)
    fn = _find_func(cls, "schedule_event_next_tick")
    rets = [n for n in ast.walk(fn) if isinstance(n, ast.Return)]
    if len(rets) != 1 or not isinstance(rets[0].value, ast.Call):
        raise Broken("schedule_event_next_tick is no longer a single call")
    c = rets[0].value
    if not (ast.unparse(c.func) == "self.schedule_event_relative" and len(c.args) == 2
            and ast.unparse(c.args[0]) == "function" and isinstance(c.args[1], ast.Constant) and c.args[1].value == 1
            and type(c.args[1].value) is int):
        raise Broken("schedule_event_next_tick no longer schedules with delta 1")
    return f"Definition gen_step_prio : prio_name := {m[found[0]]}."


def fb_step_priority():
    return "Definition gen_step_prio : prio_name := PLow."


_VIZ = "mesa/visualization/solara_viz.py"


def c_viz_run_for():
    tree = _parse(_VIZ)
    ctrl = None
    for n in tree.body:
        if isinstance(n, ast.FunctionDef) and n.name == "SimulatorController":
            ctrl = n
    if ctrl is None:
        raise Broken("SimulatorController not found")
    step = None
    for n in ast.walk(ctrl):
        if isinstance(n, ast.FunctionDef) and n.name == "do_step":
            step = n
    if step is None:
        raise Broken("SimulatorController.do_step not found")
    deltas = []
    for n in ast.walk(step):
        if (isinstance(n, ast.Call) and isinstance(n.func, ast.Attribute) and isinstance(n.func.value, ast.Name)
                and n.func.value.id == "simulator"):
            if n.func.attr != "run_for":
                raise Broken(f"do_step calls simulator.{n.func.attr}")
            if not (len(n.args) == 1 and not n.keywords and isinstance(n.args[0], ast.Constant)
                    and type(n.args[0].value) is int and n.args[0].value >= 0):
                raise Broken("simulator.run_for is not called with one non-negative int literal")
            deltas.append(n.args[0].value)
    if not deltas:
        raise Broken("do_step no longer advances the simulator with run_for")
    if len(set(deltas)) != 1:
        raise Broken(f"do_step uses different deltas {deltas}")
    return f"Definition gen_viz_run_for : Z := {deltas[0]}."


def fb_viz_run_for():
    return "Definition gen_viz_run_for : Z := -1."


CONSTRUCTS = [
    ("devs_priority_values", _EV, c_priority_values, fb_priority_values),
    ("devs_event_key", _EV, c_event_key, fb_event_key),
    ("devs_step_priority", _SIM, c_step_priority, fb_step_priority),
    ("devs_viz_run_for", _VIZ, c_viz_run_for, fb_viz_run_for),
]
