"""T1 (code level) for mesa/experimental/mesa_signals: the bodies of HasObservables.observe / unobserve /
clear_all_subscriptions / _mesa_notify and of the SignalingList mutators are TRANSLATED from the working
tree into executable Gallina (polymorphic in the registry / list primitives, which Proofs/SignalsBridge.v
instantiates with the functions of Model/Signals.v and proves equal to the hand-written model).

Registry functions -> state-passing terms of type  S + (Z * S)  (inl new registry | inr (n, registry at that
moment) = the n-th `raise` of the function in source order; 3 = KeyError of self.observables[name]):
  * `isinstance(x, All)` tests become `match x with Some x => .. | None => .. end` (All() is None), with flow
    typing: inside the not-All branch x is a concrete name / type
  * `for v in <list>` -> fold_sum over the list, the loop variable bound per iteration; a name that a loop body
    re-binds AND reads before re-binding it (a loop-carried dependency, e.g. a parameter used as inner loop
    variable) is outside the subset -> translator-broken; names bound by a loop are unusable after it
  * the weak-reference filter loops (`for ref in refs: if s := ref(): [if s != handler:] acc.append(ref)`, and
    the call `s(signal)`) -> `filter` in list order
SignalingList mutators -> the statements in order over the list primitives (getitem / setitem / delitem may
raise), ending in the payload handed to notify: (type code, old, new, index).
A few residual statements are checked verbatim (gen_*_ok)."""
import ast

import pyexpr
import translate as T

MS = "mesa/experimental/mesa_signals/mesa_signal.py"
OC = "mesa/experimental/mesa_signals/observable_collections.py"
SIGNAL_CODE = {"change": 1, "replace": 2, "remove": 3, "insert": 4, "append": 5}
KEYERROR = 3

HEADER = """(* C16 code-level T1: combinators used by the generated signal code *)
(* a raise carries the registry as it is at that moment: inr (which raise, registry then) *)
Fixpoint fold_sum {S A : Type} (f : S -> A -> S + (Z * S)) (l : list A) (s : S) : S + (Z * S) :=
  match l with
  | [] => inl s
  | a :: t => match f s a with inl s' => fold_sum f t s' | inr e => inr e end
  end.
"""

REG_PRIMS = ("{S : Type} (known : Z -> bool) (all_names : list Z) (types_of : Z -> list Z) "
             "(types_opt : Z -> option (list Z)) (get : S -> Z -> Z -> list Z) (set : S -> Z -> Z -> list Z -> S) "
             "(app : S -> Z -> Z -> Z -> S) (del_name : S -> Z -> S) (empty : S) (alive : Z -> bool)")


class U(pyexpr.Unsupported):
    pass


def _is(n, ident):
    return isinstance(n, ast.Name) and n.id == ident


def _self_attr(n, attr):
    return isinstance(n, ast.Attribute) and _is(n.value, "self") and n.attr == attr


def _subs_item(n):
    """self.subscribers[N][T] -> (N, T) or None"""
    if isinstance(n, ast.Subscript) and isinstance(n.value, ast.Subscript) and _self_attr(n.value.value, "subscribers"):
        return n.value.slice, n.slice
    return None


def _obs_item(n):
    """self.observables[N] -> N or None"""
    if isinstance(n, ast.Subscript) and _self_attr(n.value, "observables"):
        return n.slice
    return None


def _isinstance_all(e):
    """(var name, True if the test is `isinstance(x, All)` / False if `not isinstance(x, All)`) or None"""
    pos = True
    if isinstance(e, ast.UnaryOp) and isinstance(e.op, ast.Not):
        pos, e = False, e.operand
    if isinstance(e, ast.Call) and _is(e.func, "isinstance") and len(e.args) == 2 and isinstance(e.args[0], ast.Name) \
            and _is(e.args[1], "All") and not e.keywords:
        return e.args[0].id, pos
    return None


class RegTr(pyexpr.Tr):
    """registry functions of HasObservables (see module docstring)"""

    def __init__(self, fn, env, with_calls=False):
        super().__init__()
        self.env = dict(env)          # name -> 'optZ' | 'Z' | 'all' | 'list'
        self.with_calls = with_calls
        raises = sorted((n for n in ast.walk(fn) if isinstance(n, ast.Raise)), key=lambda n: (n.lineno, n.col_offset))
        self.raise_no = {id(n): i + 1 for i, n in enumerate(raises)}

    # ---- expressions
    def z(self, e, env):
        if isinstance(e, ast.Name) and env.get(e.id) == "Z":
            return e.id
        if isinstance(e, ast.Call) and _is(e.func, "create_weakref") and len(e.args) == 1 and not e.keywords:
            return self.z(e.args[0], env)     # the reference is modelled by the handler's id
        if isinstance(e, ast.Attribute) and _is(e.value, "signal") and e.attr in ("name", "type") and env.get("signal") == "signal":
            return "s" + e.attr
        raise U(f"not a name/type/handler valued expression: {ast.unparse(e)}")

    def lst(self, e, env):
        if isinstance(e, ast.Name) and env.get(e.id) == "list":
            return e.id
        if isinstance(e, ast.List):
            return "[" + "; ".join(self.z(x, env) for x in e.elts) + "]"
        if isinstance(e, ast.Call) and isinstance(e.func, ast.Attribute) and e.func.attr == "keys" \
                and _self_attr(e.func.value, "observables") and not e.args and not e.keywords:
            return "all_names"
        si = _subs_item(e)
        if si is not None:
            return f"(get subs {self.z(si[0], env)} {self.z(si[1], env)})"
        if isinstance(e, ast.IfExp):
            t = _isinstance_all(e.test)
            if t is not None and env.get(t[0]) == "optZ":
                var, pos = t
                some_e = e.orelse if pos else e.body
                none_e = e.body if pos else e.orelse
                return (f"(match {var} with Some {var} => {self.lst(some_e, {**env, var: 'Z'})} "
                        f"| None => {self.lst(none_e, {**env, var: 'all'})} end)")
        raise U(f"not a list valued expression: {ast.unparse(e)}")

    def cond(self, e, env):
        if isinstance(e, ast.UnaryOp) and isinstance(e.op, ast.Not):
            return f"(negb {self.cond(e.operand, env)})"
        if isinstance(e, ast.BoolOp):
            op = " && " if isinstance(e.op, ast.And) else " || "
            return "(" + op.join(self.cond(v, env) for v in e.values) + ")"
        if isinstance(e, ast.Compare) and len(e.ops) == 1 and isinstance(e.ops[0], (ast.In, ast.NotIn)):
            neg = isinstance(e.ops[0], ast.NotIn)
            left, right = e.left, e.comparators[0]
            if _self_attr(right, "observables"):
                t = f"(known {self.z(left, env)})"
            elif _obs_item(right) is not None:
                t = f"(existsb (Z.eqb {self.z(left, env)}) (types_of {self.z(_obs_item(right), env)}))"
            else:
                raise U(f"membership test {ast.unparse(e)}")
            return f"(negb {t})" if neg else t
        if isinstance(e, ast.Compare) and len(e.ops) == 1 and isinstance(e.ops[0], (ast.Eq, ast.NotEq)):
            t = f"({self.z(e.left, env)} =? {self.z(e.comparators[0], env)})"
            return f"(negb {t})" if isinstance(e.ops[0], ast.NotEq) else t
        t = _isinstance_all(e)
        if t is not None and env.get(t[0]) in ("Z", "all"):
            v = (env[t[0]] == "all")
            return "true" if v == t[1] else "false"
        raise U(f"condition {ast.unparse(e)}")

    # ---- loop-carried dependencies
    def _reads_writes(self, stmts):
        """(name, 'r'|'w') events in evaluation order (conservative)"""
        ev = []

        def expr(e):
            for n in ast.walk(e):
                if isinstance(n, ast.NamedExpr):
                    pass
            # reads first (walrus targets are writes after their value)
            for n in ast.walk(e):
                if isinstance(n, ast.Name) and isinstance(n.ctx, ast.Load):
                    ev.append((n.id, "r"))
            for n in ast.walk(e):
                if isinstance(n, ast.NamedExpr):
                    ev.append((n.target.id, "w"))

        def stmt(s):
            if isinstance(s, ast.Assign):
                expr(s.value)
                for t in s.targets:
                    if isinstance(t, ast.Name):
                        ev.append((t.id, "w"))
                    else:
                        expr(t)
            elif isinstance(s, ast.AugAssign):
                expr(s.value)
                expr(s.target)
                if isinstance(s.target, ast.Name):
                    ev.append((s.target.id, "r"))
                    ev.append((s.target.id, "w"))
            elif isinstance(s, ast.For):
                expr(s.iter)
                if isinstance(s.target, ast.Name):
                    ev.append((s.target.id, "w"))
                else:
                    raise U("loop target")
                for b in s.body:
                    stmt(b)
            elif isinstance(s, ast.If):
                expr(s.test)
                for b in list(s.body) + list(s.orelse):
                    stmt(b)
            elif isinstance(s, ast.With):
                for it in s.items:
                    expr(it.context_expr)
                for b in s.body:
                    stmt(b)
            elif isinstance(s, (ast.Expr, ast.Raise, ast.Delete, ast.Return)):
                for n in ast.iter_child_nodes(s):
                    if isinstance(n, ast.expr):
                        expr(n)
            else:
                raise U(f"statement {type(s).__name__}")
        for s in stmts:
            stmt(s)
        return ev

    def _check_not_carried(self, loop):
        ev = self._reads_writes(loop.body)
        written = {n for n, k in ev if k == "w"} | {loop.target.id}
        seen_w = {loop.target.id}
        for n, k in ev:
            if k == "w":
                seen_w.add(n)
            elif n in written and n not in seen_w:
                raise U(f"`{n}` is read in the body of `for {loop.target.id} in ...` before the body (re)binds it: "
                        "its value is carried from one iteration to the next")
        return written

    # ---- statements
    def end(self, env):
        return "inl (subs, calls)" if self.with_calls else "inl subs"

    def block(self, stmts, env, k):
        if not stmts:
            return k(env)
        s, rest = stmts[0], list(stmts[1:])

        def cont(env2):
            return self.block(rest, env2, k)
        if isinstance(s, ast.Expr) and isinstance(s.value, ast.Constant) and isinstance(s.value.value, str):
            return cont(env)
        if isinstance(s, ast.Raise):
            return f"inr ({self.raise_no[id(s)]}, subs)"
        if isinstance(s, ast.With):
            if len(s.items) == 1 and ast.unparse(s.items[0].context_expr) == "contextlib.suppress(KeyError)" \
                    and s.items[0].optional_vars is None:
                return self.block(list(s.body) + rest, env, k)    # a defaultdict lookup does not raise KeyError
            raise U("with statement")
        if isinstance(s, ast.If):
            t = _isinstance_all(s.test)
            if t is not None and env.get(t[0]) == "optZ":
                var, pos = t
                some_b = list(s.orelse) if pos else list(s.body)
                none_b = list(s.body) if pos else list(s.orelse)
                return (f"(match {var} with\n  | Some {var} => {self.block(some_b + rest, {**env, var: 'Z'}, k)}\n"
                        f"  | None => {self.block(none_b + rest, {**env, var: 'all'}, k)}\n  end)")
            if t is not None and env.get(t[0]) in ("Z", "all"):
                # decided by flow typing: only the live branch is translated
                taken = list(s.body) if (env[t[0]] == "all") == t[1] else list(s.orelse)
                return self.block(taken + rest, env, k)
            c = self.cond(s.test, env)
            return f"(if {c} then {self.block(list(s.body) + rest, env, k)} else {self.block(list(s.orelse) + rest, env, k)})"
        if isinstance(s, ast.Assign) and len(s.targets) == 1:
            tgt, val = s.targets[0], s.value
            if _self_attr(tgt, "subscribers"):
                if ast.unparse(val) != "defaultdict(functools.partial(defaultdict, list))":
                    raise U("self.subscribers is re-bound to something else than an empty registry")
                return f"(let subs := empty in {cont(env)})"
            si = _subs_item(tgt)
            if si is not None:
                return f"(let subs := set subs {self.z(si[0], env)} {self.z(si[1], env)} {self.lst(val, env)} in {cont(env)})"
            if isinstance(tgt, ast.Name):
                if _obs_item(val) is not None:     # self.observables[name]: KeyError when the name is unknown
                    n = self.z(_obs_item(val), env)
                    return (f"(match types_opt {n} with Some {tgt.id} => {cont({**env, tgt.id: 'list'})} "
                            f"| None => inr ({KEYERROR}, subs) end)")
                try:
                    v, kind = self.lst(val, env), "list"
                except U:
                    v, kind = self.z(val, env), "Z"
                return f"(let {tgt.id} := {v} in {cont({**env, tgt.id: kind})})"
            raise U(f"assignment to {ast.unparse(tgt)}")
        if isinstance(s, ast.Delete) and len(s.targets) == 1 and isinstance(s.targets[0], ast.Subscript) \
                and _self_attr(s.targets[0].value, "subscribers"):
            return f"(let subs := del_name subs {self.z(s.targets[0].slice, env)} in {cont(env)})"
        if isinstance(s, ast.Expr) and isinstance(s.value, ast.Call) and isinstance(s.value.func, ast.Attribute) \
                and s.value.func.attr == "append" and len(s.value.args) == 1 and not s.value.keywords:
            obj, arg = s.value.func.value, s.value.args[0]
            si = _subs_item(obj)
            if si is not None:
                return f"(let subs := app subs {self.z(si[0], env)} {self.z(si[1], env)} {self.z(arg, env)} in {cont(env)})"
            raise U(f"append to {ast.unparse(obj)} outside a reference-filter loop")
        if isinstance(s, ast.For) and isinstance(s.target, ast.Name) and not s.orelse:
            f = self._filter_loop(s, env)
            if f is not None:
                out = cont(env)
                for acc, text in reversed(f):
                    out = f"(let {acc} := {acc} ++ {text} in {out})"
                return out
            written = self._check_not_carried(s)
            lst = self.lst(s.iter, env)
            var = s.target.id
            body = self.block(list(s.body), {**env, var: "Z"}, lambda e: "inl subs")
            after = {n: kd for n, kd in env.items() if n not in written}
            return (f"(match fold_sum (fun subs {var} => {body}) {lst} subs with\n  | inl subs => {cont(after)}\n"
                    f"  | inr e => inr e\n  end)")
        raise U(f"statement {ast.unparse(s)[:60]!r}")

    def _filter_loop(self, loop, env):
        """for r in L: if w := r(): [if w != handler:] ACC.append(r)  /  w(signal)
        -> [(accumulator, "filter (fun r => conds) L"), ...] or None when the loop has another shape"""
        r = loop.target.id
        if len(loop.body) != 1 or not isinstance(loop.body[0], ast.If) or loop.body[0].orelse:
            return None
        top = loop.body[0]
        if not (isinstance(top.test, ast.NamedExpr) and isinstance(top.test.value, ast.Call) and _is(top.test.value.func, r)
                and not top.test.value.args and not top.test.value.keywords):
            return None
        w = top.test.target.id
        lst = self.lst(loop.iter, env)
        out = []

        def walk(stmts, conds):
            for st in stmts:
                if isinstance(st, ast.If) and not st.orelse and isinstance(st.test, ast.Compare) and len(st.test.ops) == 1 \
                        and isinstance(st.test.ops[0], ast.NotEq) and _is(st.test.left, w) and isinstance(st.test.comparators[0], ast.Name) \
                        and env.get(st.test.comparators[0].id) == "Z":
                    walk(st.body, conds + [f"negb ({r} =? {st.test.comparators[0].id})"])
                elif isinstance(st, ast.Expr) and isinstance(st.value, ast.Call) and isinstance(st.value.func, ast.Attribute) \
                        and st.value.func.attr == "append" and isinstance(st.value.func.value, ast.Name) \
                        and env.get(st.value.func.value.id) == "list" and len(st.value.args) == 1 and _is(st.value.args[0], r):
                    out.append((st.value.func.value.id, f"filter (fun {r} => {' && '.join(conds)}) {lst}"))
                elif self.with_calls and isinstance(st, ast.Expr) and isinstance(st.value, ast.Call) and _is(st.value.func, w) \
                        and len(st.value.args) == 1 and _is(st.value.args[0], "signal") and not st.value.keywords:
                    out.append(("calls", f"filter (fun {r} => {' && '.join(conds)}) {lst}"))
                else:
                    raise U(f"statement in a reference-filter loop: {ast.unparse(st)[:60]!r}")
        walk(top.body, [f"alive {r}"])
        return out


def _has_obs():
    return T._find_class(T._parse(MS), "HasObservables")


def _params(fn, want):
    got = [a.arg for a in fn.args.args]
    if got != want or fn.args.vararg or fn.args.kwarg or fn.args.kwonlyargs:
        raise T.Broken(f"unexpected parameters of {fn.name}: {got}")


def _reg(name, params, env, sig, with_calls=False, pre=""):
    def ex():
        fn = T._find_func(_has_obs(), name)
        _params(fn, params)
        tr = RegTr(fn, env, with_calls)
        try:
            body = tr.block(list(fn.body), tr.env, tr.end)
        except pyexpr.Unsupported as e:
            raise T.Broken(f"{name} is outside the translated subset: {e}") from None
        res = "(S * list Z) + (Z * S)" if with_calls else "S + (Z * S)"
        return f"Definition gen_{name.strip('_')} {REG_PRIMS} {sig} (subs : S) : {res} :=\n  {pre}{body}."
    return ex


def _reg_fb(name, sig, with_calls=False):
    res = "(S * list Z) + (Z * S)" if with_calls else "S + (Z * S)"
    return lambda: f"Definition gen_{name.strip('_')} {REG_PRIMS} {sig} (subs : S) : {res} := inr (0, subs)."


# ------------------------------------------------------------------ SignalingList mutators
SL_PRIMS = ("{D I V : Type} (getitem : D -> I -> V + Z) (setitem : D -> I -> V -> D + Z) (delitem : D -> I -> D + Z) "
            "(ins : D -> I -> V -> D) (app : D -> V -> D) (len : D -> I) (none : V)")


def _sl_body(fn, params):
    names = set(params)

    def val(e):
        if isinstance(e, ast.Constant) and e.value is None:
            return "none"
        if isinstance(e, ast.Name) and e.id in names:
            return e.id
        raise U(f"value {ast.unparse(e)}")

    def data_item(e):
        return e.slice if isinstance(e, ast.Subscript) and _self_attr(e.value, "data") else None

    def go(stmts):
        if not stmts:
            raise U("the mutator does not end in self.owner.notify(...)")
        s, rest = stmts[0], stmts[1:]
        if isinstance(s, ast.Expr) and isinstance(s.value, ast.Constant) and isinstance(s.value.value, str):
            return go(rest)
        if isinstance(s, ast.Assign) and len(s.targets) == 1:
            tgt, v = s.targets[0], s.value
            if isinstance(tgt, ast.Name) and data_item(v) is not None:
                ix = val(data_item(v))
                names.add(tgt.id)
                return f"(match getitem d {ix} with inl {tgt.id} => {go(rest)} | inr e => inr (e, d) end)"
            if isinstance(tgt, ast.Name) and isinstance(v, ast.Call) and _is(v.func, "len") and len(v.args) == 1 \
                    and _self_attr(v.args[0], "data"):
                names.add(tgt.id)
                return f"(let {tgt.id} := len d in {go(rest)})"
            if data_item(tgt) is not None:
                return f"(match setitem d {val(data_item(tgt))} {val(v)} with inl d => {go(rest)} | inr e => inr (e, d) end)"
            raise U(f"assignment {ast.unparse(s)[:60]!r}")
        if isinstance(s, ast.Delete) and len(s.targets) == 1 and data_item(s.targets[0]) is not None:
            return f"(match delitem d {val(data_item(s.targets[0]))} with inl d => {go(rest)} | inr e => inr (e, d) end)"
        if isinstance(s, ast.Expr) and isinstance(s.value, ast.Call) and isinstance(s.value.func, ast.Attribute):
            c = s.value
            if _self_attr(c.func.value, "data") and not c.keywords:
                if c.func.attr == "insert" and len(c.args) == 2:
                    return f"(let d := ins d {val(c.args[0])} {val(c.args[1])} in {go(rest)})"
                if c.func.attr == "append" and len(c.args) == 1:
                    return f"(let d := app d {val(c.args[0])} in {go(rest)})"
            if ast.unparse(c.func) == "self.owner.notify":
                if rest:
                    raise U("statements after the notification")
                if len(c.args) != 4 or ast.unparse(c.args[0]) != "self.name" or [k.arg for k in c.keywords] != ["index"] \
                        or not (isinstance(c.args[3], ast.Constant) and c.args[3].value in SIGNAL_CODE):
                    raise U(f"notify call {ast.unparse(c)[:80]!r}")
                return (f"inl (d, ({SIGNAL_CODE[c.args[3].value]}, {val(c.args[1])}, {val(c.args[2])}, "
                        f"{val(c.keywords[0].value)}))")
        raise U(f"statement {ast.unparse(s)[:60]!r}")
    return go


def _sl(name, params):
    def ex():
        fn = T._find_func(T._find_class(T._parse(OC), "SignalingList"), name)
        _params(fn, ["self"] + params)
        try:
            body = _sl_body(fn, params)(list(fn.body))
        except pyexpr.Unsupported as e:
            raise T.Broken(f"SignalingList.{name} is outside the translated subset: {e}") from None
        sig = " ".join(f"({p} : {'I' if p == 'index' else 'V'})" for p in params)
        return f"Definition gen_sl_{name.strip('_')} {SL_PRIMS} (d : D) {sig} : (D * (Z * V * V * I)) + (Z * D) :=\n  {body}."
    return ex


def _sl_fb(name, params):
    sig = " ".join(f"({p} : {'I' if p == 'index' else 'V'})" for p in params)
    return lambda: f"Definition gen_sl_{name.strip('_')} {SL_PRIMS} (d : D) {sig} : (D * (Z * V * V * I)) + (Z * D) := inr (0, d)."


# ------------------------------------------------------------------ residual statements, verbatim
SKELETONS = {
    # (file, class, function): expected statements modulo local names (v0, v1, ..), message texts, docstrings
    (MS, "HasObservables", "notify"): [
        "v0 = AttributeDict(name=observable, old=old_value, new=new_value, owner=self, type=signal_type, **kwargs)",
        "self._mesa_notify(v0)"],
    (MS, "BaseObservable", "__set__"): [
        "instance.notify(self.public_name, getattr(instance, self.private_name, self.fallback_value), value, 'change')"],
    (OC, "ObservableList", "__set__"): [
        "super().__set__(instance, value)",
        "setattr(instance, self.private_name, SignalingList(value, instance, self.public_name))"],
    (OC, "SignalingList", "__init__"): [
        "self.owner: HasObservables = owner", "self.name: str = name", "self.data = list(iterable)"],
    (OC, "SignalingList", "__getitem__"): ["return self.data[index]"],
    (OC, "SignalingList", "__len__"): ["return len(self.data)"],
}
SL_METHODS = ["__init__", "__setitem__", "__delitem__", "__getitem__", "__len__", "insert", "append", "__str__", "__repr__"]


def _stmts(fn):
    """statements modulo the names of local variables, exception message texts, docstrings, comments, formatting"""
    import copy

    fn = copy.deepcopy(fn)
    for n in ast.walk(fn):
        if isinstance(n, ast.Raise) and isinstance(n.exc, ast.Call) and n.exc.args \
                and all(isinstance(x, ast.JoinedStr) or (isinstance(x, ast.Constant) and isinstance(x.value, str)) for x in n.exc.args):
            n.exc.args = [ast.Name(id="MSG", ctx=ast.Load())]
    return pyexpr.normalized_statements(fn)


def c_glue():
    for (src, cls, fname), want in SKELETONS.items():
        got = _stmts(T._find_func(T._find_class(T._parse(src), cls), fname))
        if got != want:
            raise T.Broken(f"{cls}.{fname}: statements changed: {got!r}")
    sl = T._find_class(T._parse(OC), "SignalingList")
    meths = [n.name for n in sl.body if isinstance(n, (ast.FunctionDef, ast.AsyncFunctionDef))]
    if meths != SL_METHODS or [ast.unparse(b) for b in sl.bases] != ["MutableSequence[Any]"]:
        raise T.Broken(f"SignalingList defines {meths} on {[ast.unparse(b) for b in sl.bases]}: the derived mutators "
                       "(pop, remove, extend, +=, reverse, clear) are no longer those of collections.abc.MutableSequence")
    # Observable.__set__: notify (through super().__set__) strictly before the store; other statements may only
    # concern the Computed bookkeeping (C17)
    st = _stmts(T._find_func(T._find_class(T._parse(MS), "Observable"), "__set__"))
    core = [s for s in st if s in ("super().__set__(instance, value)", "setattr(instance, self.private_name, value)")]
    other = [s for s in st if s not in core]
    if core != ["super().__set__(instance, value)", "setattr(instance, self.private_name, value)"]:
        raise T.Broken(f"Observable.__set__ no longer notifies and then stores: {st!r}")
    for s in other:
        if not ("PROCESSING_SIGNALS" in s or "CURRENT_COMPUTED" in s):
            raise T.Broken(f"Observable.__set__: unknown statement {s[:80]!r}")
    return "Definition gen_signals_glue_ok : bool := true."


ENV_OBS = {"name": "optZ", "signal_type": "optZ", "handler": "Z"}
SIG_OBS = "(name signal_type : option Z) (handler : Z)"
CONSTRUCTS = [
    ("sig_observe_code", MS, _reg("observe", ["self", "name", "signal_type", "handler"], ENV_OBS, SIG_OBS),
     _reg_fb("observe", SIG_OBS)),
    ("sig_unobserve_code", MS, _reg("unobserve", ["self", "name", "signal_type", "handler"], ENV_OBS, SIG_OBS),
     _reg_fb("unobserve", SIG_OBS)),
    ("sig_clear_code", MS, _reg("clear_all_subscriptions", ["self", "name"], {"name": "optZ"}, "(name : option Z)"),
     _reg_fb("clear_all_subscriptions", "(name : option Z)")),
    ("sig_mesa_notify_code", MS, _reg("_mesa_notify", ["self", "signal"], {"signal": "signal"}, "(sname stype : Z)",
                                      with_calls=True, pre="let calls : list Z := [] in "),
     _reg_fb("_mesa_notify", "(sname stype : Z)", with_calls=True)),
    ("sl_setitem_code", OC, _sl("__setitem__", ["index", "value"]), _sl_fb("__setitem__", ["index", "value"])),
    ("sl_delitem_code", OC, _sl("__delitem__", ["index"]), _sl_fb("__delitem__", ["index"])),
    ("sl_insert_code", OC, _sl("insert", ["index", "value"]), _sl_fb("insert", ["index", "value"])),
    ("sl_append_code", OC, _sl("append", ["value"]), _sl_fb("append", ["value"])),
    ("signals_glue", MS + "+" + OC, c_glue, lambda: "Definition gen_signals_glue_ok : bool := false."),
]
