"""T1 (code level) for C04: mesa/agent.py AgentSet.do / shuffle_do / map and GroupBy.do / map / count / agg.

The activation functions are object-level code (weak references, getattr, *args), outside the int/bool subset
of pyexpr, so this module subclasses `pyexpr.Tr` with the three object-level conditions the functions use
(`isinstance(method, str)` -> the boolean `is_str`; `(agent := ref()) is not None`, `agent is None`, ... -> the
boolean `live`) and translates every function into a small record of *code facts* (Generated/Tables.v:act_fn):

    af_test  : bool -> bool      the branch condition as a function of is_str          (pyexpr)
    af_then / af_else : act_loop the loop of each branch:
        al_src    what is iterated: the keyrefs() snapshot / a private shuffled copy of it / a STRONG list of agents
        al_guard  : bool -> bool   "the callable is invoked" as a function of live       (pyexpr)
        al_call   by method name (getattr(agent, method)) or callable (method(agent, ...))
        al_fwd_args / al_fwd_kwargs   *args / **kwargs forwarded unchanged
    af_ret   what is returned (self / the list of results / the dict of results)

Model/ActivationCode.v gives these records an executable meaning on the model state (run_fn) and
Proofs/ActivationBridge.v proves  fn_ok k f = true -> run_fn f = activate k  ONCE, for every record; the facts
`fn_ok KDo gen_do_fn = true` ... are then re-checked by computation over all boolean inputs on every run, so a
rewrite of a condition that keeps its truth table keeps checking, a semantic change does not.
GroupBy.count / agg are translated into grp_comp records (what is iterated, the key, the value of a group);
AgentSet.shuffle / groupby are statement skeletons modulo local names, docstrings and formatting."""
import ast

import pyexpr
import translate as T

SRC = "mesa/agent.py"
HEADER = """Inductive act_src := SrcKeyrefs | SrcShuffledKeyrefs | SrcStrong | SrcShuffledStrong | SrcGroups.
Inductive act_call := CallByName | CallCallable.
Record act_loop := { al_src : act_src; al_guard : bool -> bool; al_call : act_call;
                     al_fwd_args : bool; al_fwd_kwargs : bool }.
Inductive act_ret := RetSelf | RetList | RetDict | RetOther.
Record act_fn := { af_test : bool -> bool; af_then : act_loop; af_else : act_loop; af_ret : act_ret }.
Inductive grp_val := GVLen | GVFuncOfAttrs | GVOther.
Record grp_comp := { gc_over_items : bool; gc_key_is_name : bool; gc_val : grp_val }."""


def _is_self_agents_call(e, meth):
    """self._agents.<meth>()"""
    return (isinstance(e, ast.Call) and not e.args and not e.keywords and isinstance(e.func, ast.Attribute) and e.func.attr == meth
            and isinstance(e.func.value, ast.Attribute) and e.func.value.attr == "_agents"
            and isinstance(e.func.value.value, ast.Name) and e.func.value.value.id == "self")


def _is_list_of(e, pred):
    return (isinstance(e, ast.Call) and isinstance(e.func, ast.Name) and e.func.id == "list" and len(e.args) == 1
            and not e.keywords and pred(e.args[0]))


class ActTr(pyexpr.Tr):
    """pyexpr + the object-level conditions of the activation functions"""

    def __init__(self, ref_var=None, agent_vars=()):
        super().__init__(bool_names=["is_str", "live"])
        self.ref_var = ref_var          # loop variable holding a weak reference (None: the loop variable IS the agent)
        self.agent_vars = set(agent_vars)

    def _deref(self, e):
        """is e an expression whose value is the referent (or None)?"""
        if isinstance(e, ast.NamedExpr) and isinstance(e.target, ast.Name) and self._deref_call(e.value):
            self.agent_vars.add(e.target.id)
            return True
        if isinstance(e, ast.Name) and e.id in self.agent_vars:
            return True
        return self._deref_call(e)

    def _deref_call(self, e):
        return (isinstance(e, ast.Call) and not e.args and not e.keywords and isinstance(e.func, ast.Name)
                and self.ref_var is not None and e.func.id == self.ref_var)

    def expr(self, e):
        if (isinstance(e, ast.Call) and isinstance(e.func, ast.Name) and e.func.id == "isinstance" and len(e.args) == 2
                and not e.keywords and isinstance(e.args[0], ast.Name) and e.args[0].id == "method"
                and isinstance(e.args[1], ast.Name) and e.args[1].id == "str"):
            return "is_str", "bool"
        if (isinstance(e, ast.Compare) and len(e.ops) == 1 and isinstance(e.ops[0], (ast.Is, ast.IsNot))
                and isinstance(e.comparators[0], ast.Constant) and e.comparators[0].value is None and self._deref(e.left)):
            return ("live" if isinstance(e.ops[0], ast.IsNot) else "(negb live)"), "bool"
        if (isinstance(e, ast.Name) and e.id in self.agent_vars) or isinstance(e, ast.NamedExpr):
            # the truth value of the referent is NOT liveness: an agent class may define __bool__ / __len__
            raise pyexpr.Unsupported("truth value of an agent used as a liveness test (use `is not None`)")
        return super().expr(e)


def _src_of(it, pre):
    """classify the iterated expression; pre = {name: ('copy'|'strongcopy', shuffled?)} bound before the branch"""
    if _is_self_agents_call(it, "keyrefs") or _is_list_of(it, lambda x: _is_self_agents_call(x, "keyrefs")):
        return "SrcKeyrefs", True
    if isinstance(it, ast.Name) and it.id in pre:
        kind, shuffled = pre[it.id]
        if kind == "copy":
            return ("SrcShuffledKeyrefs" if shuffled else "SrcKeyrefs"), True
        return ("SrcShuffledStrong" if shuffled else "SrcStrong"), False
    strong = (_is_self_agents_call(it, "keys") or _is_list_of(it, lambda x: _is_self_agents_call(x, "keys"))
              or ast.unparse(it) in ("self", "self._agents", "list(self)", "list(self._agents)", "tuple(self)", "tuple(self._agents.keys())"))
    if strong:
        return "SrcStrong", False
    raise T.Broken(f"cannot classify what the loop iterates over: {ast.unparse(it)}")


def _call_facts(call, agent_ok):
    """(kind, fwd_args, fwd_kwargs) of  getattr(agent, method)(*args, **kwargs)  /  method(agent, *args, **kwargs)"""
    if not isinstance(call, ast.Call):
        raise T.Broken("the loop body does not end in a call")
    kw = call.keywords
    fwd_kwargs = len(kw) == 1 and kw[0].arg is None and isinstance(kw[0].value, ast.Name) and kw[0].value.id == "kwargs"
    if kw and not fwd_kwargs:
        raise T.Broken("unexpected keyword arguments in the call")
    f = call.func
    args = list(call.args)
    if (isinstance(f, ast.Call) and isinstance(f.func, ast.Name) and f.func.id == "getattr" and len(f.args) == 2 and not f.keywords
            and agent_ok(f.args[0]) and isinstance(f.args[1], ast.Name) and f.args[1].id == "method"):
        kind = "CallByName"
    elif isinstance(f, ast.Name) and f.id == "method" and args and agent_ok(args[0]):
        kind = "CallCallable"
        args = args[1:]
    else:
        raise T.Broken(f"the call is neither getattr(agent, method)(...) nor method(agent, ...): {ast.unparse(call)}")
    fwd_args = len(args) == 1 and isinstance(args[0], ast.Starred) and isinstance(args[0].value, ast.Name) and args[0].value.id == "args"
    if args and not fwd_args:
        raise T.Broken("unexpected positional arguments in the call")
    return kind, fwd_args, fwd_kwargs


def _loop_facts(target, it, tests, body_stmts, call_expr, pre):
    """one loop (for statement or comprehension).  tests: conditions that must hold for the call (comprehension ifs);
    body_stmts: statements of a for body (None for a comprehension)"""
    if not isinstance(target, ast.Name):
        raise T.Broken("loop target is not a plain name")
    src, is_ref = _src_of(it, pre)
    tr = ActTr(ref_var=target.id if is_ref else None, agent_vars=() if is_ref else (target.id,))
    guards = []
    try:
        if body_stmts is not None:
            stmts = list(body_stmts)
            # agent = ref()
            if (stmts and isinstance(stmts[0], ast.Assign) and len(stmts[0].targets) == 1 and isinstance(stmts[0].targets[0], ast.Name)
                    and tr._deref_call(stmts[0].value)):
                tr.agent_vars.add(stmts[0].targets[0].id)
                stmts = stmts[1:]
            # if c: continue
            while (stmts and isinstance(stmts[0], ast.If) and not stmts[0].orelse and len(stmts[0].body) == 1
                   and isinstance(stmts[0].body[0], ast.Continue)):
                guards.append(f"(negb {tr.bexpr(stmts[0].test)})")
                stmts = stmts[1:]
            # if c: <call>
            while len(stmts) == 1 and isinstance(stmts[0], ast.If) and not stmts[0].orelse:
                guards.append(tr.bexpr(stmts[0].test))
                stmts = list(stmts[0].body)
            if len(stmts) != 1 or not isinstance(stmts[0], ast.Expr):
                raise T.Broken("unexpected statements in the loop body: " + "; ".join(ast.unparse(s) for s in stmts)[:120])
            call_expr = stmts[0].value
        else:
            guards = [tr.bexpr(t) for t in tests]
    except pyexpr.Unsupported as e:
        raise T.Broken(f"condition outside the translated subset: {e}") from None
    names = set(tr.agent_vars)
    kind, fa, fk = _call_facts(call_expr, lambda x: isinstance(x, ast.Name) and x.id in names)
    g = "true"
    for t in guards:
        g = t if g == "true" else f"({g} && {t})"
    b = lambda v: "true" if v else "false"  # noqa: E731
    return (f"{{| al_src := {src}; al_guard := fun live => {g}; al_call := {kind}; "
            f"al_fwd_args := {b(fa)}; al_fwd_kwargs := {b(fk)} |}}")


def _body(fn):
    return [s for s in fn.body if not (isinstance(s, ast.Expr) and isinstance(s.value, ast.Constant) and isinstance(s.value.value, str))]


def _fn_facts(cls, name, gen):
    fn = T._find_func(T._find_class(T._parse(SRC), cls), name)
    a = fn.args
    if [x.arg for x in a.args] != ["self", "method"] or not a.vararg or a.vararg.arg != "args" or not a.kwarg or a.kwarg.arg != "kwargs":
        raise T.Broken(f"{name} is not (self, method, *args, **kwargs)")
    stmts = _body(fn)
    pre = {}
    # private copies and shuffles before the branch
    while stmts and not isinstance(stmts[0], ast.If):
        s = stmts[0]
        if isinstance(s, ast.Assign) and len(s.targets) == 1 and isinstance(s.targets[0], ast.Name):
            v = s.value
            if _is_list_of(v, lambda x: _is_self_agents_call(x, "keyrefs")):
                pre[s.targets[0].id] = ("copy", False)
            elif _is_list_of(v, lambda x: _is_self_agents_call(x, "keys")) or ast.unparse(v) in ("list(self)", "list(self._agents)"):
                pre[s.targets[0].id] = ("strongcopy", False)
            else:
                raise T.Broken(f"unexpected statement before the branch: {ast.unparse(s)}")
        elif (isinstance(s, ast.Expr) and isinstance(s.value, ast.Call) and ast.unparse(s.value.func) == "self.random.shuffle"
              and len(s.value.args) == 1 and isinstance(s.value.args[0], ast.Name) and s.value.args[0].id in pre and not s.value.keywords):
            n = s.value.args[0].id
            if pre[n][1]:
                raise T.Broken("the private copy is shuffled twice")
            pre[n] = (pre[n][0], True)
        else:
            raise T.Broken(f"unexpected statement before the branch: {ast.unparse(s)[:100]}")
        stmts = stmts[1:]
    if len(stmts) != 2 or not isinstance(stmts[0], ast.If) or not stmts[0].orelse or not isinstance(stmts[1], ast.Return):
        raise T.Broken("expected `if <test>: <loop> else: <loop>` followed by `return`")
    br, ret = stmts
    try:
        test = ActTr().bexpr(br.test)
    except pyexpr.Unsupported as e:
        raise T.Broken(f"branch condition outside the translated subset: {e}") from None
    loops = []
    kinds = []
    for blk in (br.body, br.orelse):
        if len(blk) != 1:
            raise T.Broken("a branch holds more than one statement")
        s = blk[0]
        if isinstance(s, ast.For) and not s.orelse:
            loops.append(_loop_facts(s.target, s.iter, [], s.body, None, pre))
            kinds.append("for")
        elif (isinstance(s, ast.Assign) and len(s.targets) == 1 and isinstance(s.targets[0], ast.Name)
              and isinstance(s.value, (ast.ListComp, ast.DictComp)) and len(s.value.generators) == 1 and not s.value.generators[0].is_async):
            g = s.value.generators[0]
            comp = s.value
            if isinstance(comp, ast.ListComp):
                loops.append(_loop_facts(g.target, g.iter, g.ifs, None, comp.elt, pre))
                kinds.append("list:" + s.targets[0].id)
            else:
                raise T.Broken("dict comprehension in an AgentSet method")
        else:
            raise T.Broken(f"a branch is neither a for loop nor `res = [...]`: {ast.unparse(s)[:80]}")
    rv = ast.unparse(ret.value) if ret.value is not None else "None"
    if kinds == ["for", "for"] and rv == "self":
        r = "RetSelf"
    elif kinds[0].startswith("list:") and kinds[0] == kinds[1] and rv == kinds[0][5:]:
        r = "RetList"
    else:
        r = "RetOther"
    return (f"Definition {gen} : act_fn :=\n  {{| af_test := fun is_str => {test};\n     af_then := {loops[0]};\n"
            f"     af_else := {loops[1]};\n     af_ret := {r} |}}.")


# ------------------------------------------------------------------ GroupBy
def _group_loop(target, it, call):
    """for v in self.groups.values(): <call on v>   /   {k: <call on v> for k, v in self.groups.items()}"""
    u = ast.unparse(it)
    if u == "self.groups.values()" and isinstance(target, ast.Name):
        v = target.id
    elif (u == "self.groups.items()" and isinstance(target, ast.Tuple) and len(target.elts) == 2
          and all(isinstance(x, ast.Name) for x in target.elts)):
        v = target.elts[1].id
    else:
        raise T.Broken(f"the group loop iterates over {u}")
    kind, fa, fk = _call_facts(call, lambda x: isinstance(x, ast.Name) and x.id == v)
    b = lambda x: "true" if x else "false"  # noqa: E731
    return (f"{{| al_src := SrcGroups; al_guard := fun live => true; al_call := {kind}; "
            f"al_fwd_args := {b(fa)}; al_fwd_kwargs := {b(fk)} |}}")


def _group_fn(name, gen):
    fn = T._find_func(T._find_class(T._parse(SRC), "GroupBy"), name)
    a = fn.args
    if [x.arg for x in a.args] != ["self", "method"] or not a.vararg or a.vararg.arg != "args" or not a.kwarg or a.kwarg.arg != "kwargs":
        raise T.Broken(f"GroupBy.{name} is not (self, method, *args, **kwargs)")
    stmts = _body(fn)
    if not stmts or not isinstance(stmts[0], ast.If) or not stmts[0].orelse:
        raise T.Broken("expected `if <test>: ... else: ...`")
    br = stmts[0]
    try:
        test = ActTr().bexpr(br.test)
    except pyexpr.Unsupported as e:
        raise T.Broken(f"branch condition outside the translated subset: {e}") from None
    loops, rets = [], []
    for blk in (br.body, br.orelse):
        blk = list(blk)
        if len(blk) == 1 and isinstance(blk[0], ast.For) and not blk[0].orelse and len(blk[0].body) == 1 and isinstance(blk[0].body[0], ast.Expr):
            loops.append(_group_loop(blk[0].target, blk[0].iter, blk[0].body[0].value))
            rets.append(None)
        elif (len(blk) == 1 and isinstance(blk[0], ast.Return) and isinstance(blk[0].value, ast.DictComp)
              and len(blk[0].value.generators) == 1 and not blk[0].value.generators[0].ifs):
            comp = blk[0].value
            g = comp.generators[0]
            if not (isinstance(g.target, ast.Tuple) and isinstance(comp.key, ast.Name) and comp.key.id == g.target.elts[0].id):
                raise T.Broken("the result dict is not keyed by the group name")
            loops.append(_group_loop(g.target, g.iter, comp.value))
            rets.append("RetDict")
        else:
            raise T.Broken(f"unexpected branch: {ast.unparse(blk[0])[:80]}")
    rest = stmts[1:]
    if rets == [None, None] and len(rest) == 1 and isinstance(rest[0], ast.Return) and ast.unparse(rest[0].value) == "self":
        r = "RetSelf"
    elif rets == ["RetDict", "RetDict"] and not rest:
        r = "RetDict"
    else:
        r = "RetOther"
    return (f"Definition {gen} : act_fn :=\n  {{| af_test := fun is_str => {test};\n     af_then := {loops[0]};\n"
            f"     af_else := {loops[1]};\n     af_ret := {r} |}}.")


def _group_comp(name, gen):
    """GroupBy.count / agg:  return {<name>: <value of the group> for <name>, <group> in self.groups.items()}
    count: value = len(group);  agg: value = func([getattr(agent, attr_name) for agent in group])  (in group order).
    Translated (names of locals are free), not compared as text."""
    fn = T._find_func(T._find_class(T._parse(SRC), "GroupBy"), name)
    params = [a.arg for a in fn.args.args]
    b = _body(fn)
    if len(b) != 1 or not isinstance(b[0], ast.Return) or not isinstance(b[0].value, ast.DictComp):
        raise T.Broken(f"GroupBy.{name} is not a single `return {{... for ... in ...}}`")
    comp = b[0].value
    if len(comp.generators) != 1 or comp.generators[0].ifs or comp.generators[0].is_async:
        raise T.Broken("more than one generator / a filter in the dict comprehension")
    g = comp.generators[0]
    over_items = ast.unparse(g.iter) == "self.groups.items()"
    if not (isinstance(g.target, ast.Tuple) and len(g.target.elts) == 2 and all(isinstance(x, ast.Name) for x in g.target.elts)):
        raise T.Broken("the comprehension does not unpack (name, group)")
    kname, vname = g.target.elts[0].id, g.target.elts[1].id
    key_is_name = isinstance(comp.key, ast.Name) and comp.key.id == kname
    v = comp.value
    val = "GVOther"
    if (isinstance(v, ast.Call) and isinstance(v.func, ast.Name) and v.func.id == "len" and len(v.args) == 1 and not v.keywords
            and isinstance(v.args[0], ast.Name) and v.args[0].id == vname and params == ["self"]):
        val = "GVLen"
    elif (isinstance(v, ast.Call) and isinstance(v.func, ast.Name) and v.func.id == "func" and len(v.args) == 1 and not v.keywords
          and isinstance(v.args[0], ast.ListComp) and params == ["self", "attr_name", "func"]):
        lc = v.args[0]
        if len(lc.generators) == 1 and not lc.generators[0].ifs and isinstance(lc.generators[0].target, ast.Name) \
                and isinstance(lc.generators[0].iter, ast.Name) and lc.generators[0].iter.id == vname:
            an = lc.generators[0].target.id
            e = lc.elt
            if (isinstance(e, ast.Call) and isinstance(e.func, ast.Name) and e.func.id == "getattr" and len(e.args) == 2 and not e.keywords
                    and isinstance(e.args[0], ast.Name) and e.args[0].id == an and isinstance(e.args[1], ast.Name) and e.args[1].id == "attr_name"):
                val = "GVFuncOfAttrs"
    bb = lambda x: "true" if x else "false"  # noqa: E731
    return f"Definition {gen} : grp_comp := {{| gc_over_items := {bb(over_items)}; gc_key_is_name := {bb(key_is_name)}; gc_val := {val} |}}."


# what remains a statement skeleton: AgentSet.shuffle (transcribed by Model/Activation.v:shuffle_new) and AgentSet.groupby
# (groups_of) - compared modulo the names of local variables, docstrings, comments and formatting
SKELETONS = {
    "shuffle": [
        "v0 = list(self._agents.keyrefs())",
        "self.random.shuffle(v0)",
        "if inplace:\n    self._agents.data = {v1: None for v1 in v0}\n    return self\nelse:\n    return AgentSet((v3 for v2 in v0 if (v3 := v2()) is not None), self.random)",
    ],
    "groupby": [
        "v0 = defaultdict(list)",
        "if isinstance(by, Callable):\n    for v1 in self:\n        v0[by(v1)].append(v1)\nelse:\n    for v1 in self:\n        v0[getattr(v1, by)].append(v1)",
        "if result_type == 'agentset':\n    return GroupBy({v2: AgentSet(v3, random=self.random) for v2, v3 in v0.items()})\nelse:\n    return GroupBy(v0)",
    ],
}


def c_set_skeletons():
    cls = T._find_class(T._parse(SRC), "AgentSet")
    for name, want in SKELETONS.items():
        got = pyexpr.normalized_statements(T._find_func(cls, name))
        if got != want:
            diff = [f"{a!r} != {b!r}" for a, b in zip(got, want) if a != b] or [f"{len(got)} statements, expected {len(want)}"]
            raise T.Broken(f"statement skeleton of AgentSet.{name} changed: " + diff[0][:220])
    return "Definition gen_shuffle_groupby_skeleton_ok : bool := true."


_FB = ("{| af_test := fun is_str => is_str; af_then := {| al_src := SrcStrong; al_guard := fun live => true; al_call := CallCallable; "
       "al_fwd_args := false; al_fwd_kwargs := false |}; af_else := {| al_src := SrcStrong; al_guard := fun live => true; "
       "al_call := CallByName; al_fwd_args := false; al_fwd_kwargs := false |}; af_ret := RetOther |}")


def _fb(gen):
    return lambda: f"Definition {gen} : act_fn := {_FB}."


CONSTRUCTS = [
    ("agentset_do_code", SRC, lambda: _fn_facts("AgentSet", "do", "gen_do_fn"), _fb("gen_do_fn")),
    ("agentset_shuffle_do_code", SRC, lambda: _fn_facts("AgentSet", "shuffle_do", "gen_shuffle_do_fn"), _fb("gen_shuffle_do_fn")),
    ("agentset_map_code", SRC, lambda: _fn_facts("AgentSet", "map", "gen_map_fn"), _fb("gen_map_fn")),
    ("groupby_do_code", SRC, lambda: _group_fn("do", "gen_groupby_do_fn"), _fb("gen_groupby_do_fn")),
    ("groupby_map_code", SRC, lambda: _group_fn("map", "gen_groupby_map_fn"), _fb("gen_groupby_map_fn")),
    ("groupby_count_code", SRC, lambda: _group_comp("count", "gen_groupby_count"),
     lambda: "Definition gen_groupby_count : grp_comp := {| gc_over_items := false; gc_key_is_name := false; gc_val := GVOther |}."),
    ("groupby_agg_code", SRC, lambda: _group_comp("agg", "gen_groupby_agg"),
     lambda: "Definition gen_groupby_agg : grp_comp := {| gc_over_items := false; gc_key_is_name := false; gc_val := GVOther |}."),
    ("agentset_shuffle_groupby_skeleton", SRC, c_set_skeletons, lambda: "Definition gen_shuffle_groupby_skeleton_ok : bool := false."),
]
