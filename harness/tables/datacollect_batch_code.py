"""T1 (code level) for mesa/datacollection.py and mesa/batchrunner.py.

TRANSLATED from the working tree into executable Gallina on every run (pyexpr + the small extension Tr2):
  batchrunner._model_run_func   loop condition; the reported-steps computation (three statements)
  batchrunner._collect_data     position lookup and the model_data comprehension
  batchrunner._make_model_kwargs  the str / empty-sequence / iterable decision per parameter
  batchrunner.batch_run         the runs-list loop nest with its RunId counter
  datacollection.add_table_row  the rejection test and the per-column cell
  datacollection._record_agenttype  the three-way choice of the agent source
  datacollection.collect        the reporter dispatch chain
Proofs/DataCollectorBridge.v and Proofs/BatchBridge.v prove `model function = generated function`.
What cannot be translated (objects, dict state, library calls) is pinned by statement skeletons compared MODULO the names of
local variables (alpha-renamed v0, v1, .. in order of first binding), docstrings, comments, formatting and exception messages."""
import ast
import copy
import re

import pyexpr
import translate as T

DC = "mesa/datacollection.py"
BR = "mesa/batchrunner.py"
HEADER = """From Mesa Require Import Common.ListX.
(* helpers of the code-level translation of datacollection.py / batchrunner.py *)
Definition t_nil {A : Type} (l : list A) : bool := match l with [] => true | _ => false end.
Definition t_memk {V : Type} (k : Z) (l : list (Z * V)) : bool := existsb (fun p => fst p =? k) l.
Definition t_get {V : Type} (k : Z) (l : list (Z * V)) (d : V) : V :=
  match find (fun p => fst p =? k) l with Some p => snd p | None => d end.
Fixpoint t_enum {A : Type} (i : Z) (l : list A) : list (Z * A) :=
  match l with [] => [] | x :: t => (i, x) :: t_enum (i + 1) t end."""


class Tr2(pyexpr.Tr):
    """pyexpr.Tr plus: sub-expressions named by their source text (`model.steps`, `agent_type in agent_types`),
    integer lists (truthiness, `l[-1]`), `k in row` / `k not in row` on association lists, `row[k]`,
    `any(<cond> for v in <list>)`"""

    def __init__(self, text_map=None, zlists=(), assoc=(), **kw):
        super().__init__(**kw)
        self.text_map = dict(text_map or {})     # ast.unparse(e) -> (gallina, kind)
        self.zlists = set(zlists)
        self.assoc = set(assoc)

    def truth(self, e):
        t, k = self.expr(e)
        if k == "bool":
            return t
        if k == "zlist":
            return f"(negb (t_nil {t}))"
        raise pyexpr.Unsupported(f"truth value of a {k}")

    def expr(self, e):
        txt = ast.unparse(e)
        if txt in self.text_map:
            return self.text_map[txt]
        if isinstance(e, ast.Name) and e.id in self.zlists:
            return e.id, "zlist"
        if isinstance(e, ast.BoolOp):
            parts = [self.truth(v) for v in e.values]
            op = " && " if isinstance(e.op, ast.And) else " || "
            out = parts[0]
            for t in parts[1:]:
                out = f"({out}{op}{t})"
            return out, "bool"
        if isinstance(e, ast.UnaryOp) and isinstance(e.op, ast.Not):
            return f"(negb {self.truth(e.operand)})", "bool"
        if isinstance(e, ast.Subscript) and isinstance(e.value, ast.Name) and e.value.id in self.zlists:
            if ast.unparse(e.slice) == "-1":
                return f"(last {e.value.id} 0)", "Z"
            raise pyexpr.Unsupported("list index other than -1")
        if isinstance(e, ast.Subscript) and isinstance(e.value, ast.Name) and e.value.id in self.assoc:
            k, kk = self.expr(e.slice)
            if kk != "Z":
                raise pyexpr.Unsupported("key")
            return f"(t_get {k} {e.value.id} None)", "cell"
        if isinstance(e, ast.Constant) and e.value is None:
            return "None", "cell"
        if isinstance(e, ast.Compare) and len(e.ops) == 1 and isinstance(e.ops[0], (ast.In, ast.NotIn)) \
                and isinstance(e.comparators[0], ast.Name) and e.comparators[0].id in self.assoc:
            k, kk = self.expr(e.left)
            if kk != "Z":
                raise pyexpr.Unsupported("key")
            t = f"(t_memk {k} {e.comparators[0].id})"
            return (t if isinstance(e.ops[0], ast.In) else f"(negb {t})"), "bool"
        if isinstance(e, ast.Call) and ast.unparse(e.func) == "any" and len(e.args) == 1 and not e.keywords \
                and isinstance(e.args[0], ast.GeneratorExp):
            g = e.args[0]
            if len(g.generators) != 1 or g.generators[0].ifs or not isinstance(g.generators[0].target, ast.Name):
                raise pyexpr.Unsupported("generator shape")
            it, ik = self.expr(g.generators[0].iter)
            if ik != "zlist":
                raise pyexpr.Unsupported("any() over something that is not a list of ints")
            return f"(existsb (fun {g.generators[0].target.id} => {self.truth(g.elt)}) {it})", "bool"
        return super().expr(e)


def _fn(rel, name, cls=None):
    """the function with its local variables alpha-renamed (v0, v1, ... in order of first binding; parameters keep their
    names) and docstrings dropped: every check below is insensitive to the names of locals"""
    tree = T._parse(rel)
    fn = copy.deepcopy(T._find_func(T._find_class(tree, cls) if cls else tree, name))
    mapping = {n: f"v{i}" for i, n in enumerate(pyexpr.local_names(fn))}
    fn = pyexpr._Renamer(mapping).visit(fn)
    for n in ast.walk(fn):
        if isinstance(n, (ast.FunctionDef, ast.AsyncFunctionDef)):
            n.body = _nodoc(n.body) or [ast.Pass()]
    return fn


def _guard(f, what):
    try:
        return f()
    except pyexpr.Unsupported as e:
        raise T.Broken(f"{what} is outside the translated subset: {e}") from None


def _nodoc(body):
    return [s for s in body if not (isinstance(s, ast.Expr) and isinstance(s.value, ast.Constant) and isinstance(s.value.value, str))]


def _txt(node):
    """source text with exception messages abstracted"""
    return re.sub(r"raise (\w+)\((.*)\)", r"raise \1(<msg>)", ast.unparse(node))


def _name(node, what):
    if not isinstance(node, ast.Name):
        raise T.Broken(f"{what}: a plain variable was expected, found {ast.unparse(node)[:40]}")
    return node.id


# ------------------------------------------------------------------ batchrunner._model_run_func
def _run_func_parts():
    fn = _fn(BR, "_model_run_func")
    body = fn.body
    whiles = [s for s in body if isinstance(s, ast.While)]
    if len(whiles) != 1 or whiles[0].orelse:
        raise T.Broken("expected exactly one while loop")
    i = body.index(whiles[0])
    if i < 1 or not (isinstance(body[i - 1], ast.Assign) and isinstance(body[i - 1].value, ast.Call)
                     and ast.unparse(body[i - 1].value.func) == "model_cls"):
        raise T.Broken("the model must be constructed directly before the loop")
    return fn, body, whiles[0], _name(body[i - 1].targets[0], "model variable")


def c_loop_cond():
    _, _, w, m = _run_func_parts()
    if [ast.unparse(s) for s in w.body] != [f"{m}.step()"]:
        raise T.Broken("the loop body is not `model.step()`")
    tr = Tr2(text_map={f"{m}.running": ("running", "bool"), f"{m}.steps": ("steps", "Z")})
    c = _guard(lambda: tr.truth(w.test), "the loop condition")
    return f"Definition gen_loop_cond (running : bool) (steps max_steps : Z) : bool :=\n  {c}."


def c_report_steps():
    _, body, w, m = _run_func_parts()
    after = body[body.index(w) + 1:]
    # data = []; collected = ...; steps = [...]; if ...: steps.append(...); for step in steps: ...
    if len(after) < 5 or not (isinstance(after[0], ast.Assign) and ast.unparse(after[0].value) == "[]"):
        raise T.Broken("expected `data = []` after the loop")
    s1, s2, s3 = after[1], after[2], after[3]
    if not (isinstance(s1, ast.Assign) and ast.unparse(s1.value) == f"list(dict.fromkeys({m}.datacollector._collection_steps))"):
        raise T.Broken("`collected = list(dict.fromkeys(model.datacollector._collection_steps))` expected, found " + ast.unparse(s1)[:80])
    col = _name(s1.targets[0], "collected")
    if not (isinstance(s2, ast.Assign) and isinstance(s2.value, ast.ListComp)
            and len(s2.value.generators) == 1 and isinstance(s2.value.generators[0].target, ast.Name)
            and ast.unparse(s2.value.generators[0].iter) == col
            and ast.unparse(s2.value.elt) == s2.value.generators[0].target.id and len(s2.value.generators[0].ifs) == 1):
        raise T.Broken("`steps = [v for v in collected if <cond>]` expected")
    stp = _name(s2.targets[0], "steps")
    var = s2.value.generators[0].target.id
    tr = Tr2(zlists=[col, stp])
    sel = _guard(lambda: tr.truth(s2.value.generators[0].ifs[0]), "the step selection condition")
    if not (isinstance(s3, ast.If) and not s3.orelse and [ast.unparse(x) for x in s3.body] == [f"{stp}.append({col}[-1])"]):
        raise T.Broken("`if <cond>: steps.append(collected[-1])` expected")
    cond = _guard(lambda: tr.truth(s3.test), "the append-last condition")
    if not (isinstance(after[4], ast.For) and ast.unparse(after[4].iter) == stp):
        raise T.Broken("`for step in steps` expected after the reported-steps computation")
    return ("Definition gen_report_steps (data_collection_period : Z) (csteps : list Z) : list Z :=\n"
            f"  let {col} := dedup_first Z.eqb csteps in\n"
            f"  let {stp} := filter (fun {var} => {sel}) {col} in\n"
            f"  if {cond} then {stp} ++ [last {col} 0] else {stp}.")


# ------------------------------------------------------------------ batchrunner._collect_data
def _collect_data_parts():
    fn = _fn(BR, "_collect_data")
    body = fn.body
    dcs = [s for s in body if isinstance(s, ast.Assign) and ast.unparse(s.value) == "model.datacollector"]
    if len(dcs) != 1:
        raise T.Broken("`dc = model.datacollector` expected")
    dc = _name(dcs[0].targets[0], "dc")
    i = body.index(dcs[0])
    if len(body) < i + 3 or not all(isinstance(x, ast.Assign) for x in body[i + 1:i + 3]):
        raise T.Broken("`positions = ...; model_data = ...` expected after dc")
    return fn, body, dc, body[i + 1], body[i + 2]


def c_model_data():
    _, body, dc, pos, md = _collect_data_parts()
    p = pos.value
    if not (isinstance(p, ast.ListComp) and len(p.generators) == 1 and ast.unparse(p.generators[0].iter) == f"enumerate({dc}._collection_steps)"
            and isinstance(p.generators[0].target, ast.Tuple) and len(p.generators[0].target.elts) == 2
            and all(isinstance(x, ast.Name) for x in p.generators[0].target.elts) and len(p.generators[0].ifs) == 1
            and ast.unparse(p.elt) == p.generators[0].target.elts[0].id):
        raise T.Broken("`positions = [i for i, s in enumerate(dc._collection_steps) if <cond>]` expected")
    posn = _name(pos.targets[0], "positions")
    i, s = (x.id for x in p.generators[0].target.elts)
    tr = Tr2(zlists=[posn])
    c = _guard(lambda: tr.truth(p.generators[0].ifs[0]), "the position condition")
    m = md.value
    if not (isinstance(m, ast.IfExp) and isinstance(m.body, ast.DictComp) and ast.unparse(m.orelse) == "{}"
            and len(m.body.generators) == 1 and ast.unparse(m.body.generators[0].iter) == f"{dc}.model_vars.items()"
            and isinstance(m.body.generators[0].target, ast.Tuple) and len(m.body.generators[0].target.elts) == 2
            and not m.body.generators[0].ifs):
        raise T.Broken("`model_data = {param: values[<index>] for param, values in dc.model_vars.items()} if <cond> else {}` expected")
    k, v = (x.id for x in m.body.generators[0].target.elts)
    if not (ast.unparse(m.body.key) == k and isinstance(m.body.value, ast.Subscript) and ast.unparse(m.body.value.value) == v):
        raise T.Broken("the comprehension must map param to values[<index>]")
    idx, ik = _guard(lambda: tr.expr(m.body.value.slice), "the index")
    if ik != "Z":
        raise T.Broken("index is not an integer")
    test = _guard(lambda: tr.truth(m.test), "the test of model_data")
    return ("Definition gen_positions (step : Z) (csteps : list Z) : list Z :=\n"
            f"  map fst (filter (fun '({i}, {s}) => {c}) (t_enum 0 csteps)).\n"
            "Definition gen_model_data {A : Type} (dflt : A) (step : Z) (csteps : list Z) (mvars : list (Z * list A)) : list (Z * A) :=\n"
            f"  let {posn} := gen_positions step csteps in\n"
            f"  if {test} then map (fun '({k}, {v}) => ({k}, nth (Z.to_nat {idx}) {v} dflt)) mvars else [].")


# ------------------------------------------------------------------ batchrunner._make_model_kwargs
def c_param_values():
    fn = _fn(BR, "_make_model_kwargs")
    body = fn.body
    fors = [s for s in body if isinstance(s, ast.For)]
    if len(fors) != 1 or ast.unparse(fors[0].iter) != "parameters.items()" or not isinstance(fors[0].target, ast.Tuple) \
            or len(fors[0].target.elts) != 2:
        raise T.Broken("`for param, values in parameters.items()` expected")
    param, values = (_name(x, "loop target") for x in fors[0].target.elts)
    fb = fors[0].body
    if not (isinstance(body[0], ast.Assign) and ast.unparse(body[0].value) == "[]"):
        raise T.Broken("`parameter_list = []` expected first")
    plist = _name(body[0].targets[0], "parameter_list")
    if len(fb) != 2 or not isinstance(fb[0], ast.If) or not re.fullmatch(rf"{plist}\.append\((v\d+)\)", ast.unparse(fb[1])):
        raise T.Broken("loop body: one if-chain, then parameter_list.append(all_values)")
    allv = re.fullmatch(rf"{plist}\.append\((v\d+)\)", ast.unparse(fb[1])).group(1)
    rest = [ast.unparse(s) for s in body[body.index(fors[0]) + 1:]]
    if len(rest) != 3 or not re.fullmatch(rf"(v\d+) = itertools\.product\(\*{plist}\)", rest[0]):
        raise T.Broken("`all_kwargs = itertools.product(*parameter_list)` expected after the loop")
    allk = rest[0].split(" = ")[0]
    m2 = re.fullmatch(rf"(v\d+) = \[dict\((v\d+)\) for (v\d+) in {allk}\]", rest[1])
    if not m2 or m2.group(2) != m2.group(3) or rest[2] != f"return {m2.group(1)}":
        raise T.Broken("`kwargs_list = [dict(kwargs) for kwargs in all_kwargs]; return kwargs_list` expected")
    names = {f"isinstance({values}, str)": ("is_str", "bool"), f"isinstance({values}, list | tuple | set)": ("is_lts", "bool"),
             f"len({values})": ("len", "Z")}
    tr = Tr2(text_map=names)

    def branch(stmts):
        if len(stmts) == 1 and isinstance(stmts[0], ast.Raise):
            return "None"
        if len(stmts) == 1 and ast.unparse(stmts[0]) == f"{allv} = [({param}, {values})]":
            return "(Some [(param, code)])"
        if len(stmts) == 1 and re.fullmatch(rf"{allv} = \[\({param}, (v\d+)\) for (v\d+) in {values}\]", ast.unparse(stmts[0])) \
                and len(set(re.findall(r"v\d+", ast.unparse(stmts[0]).split("[", 1)[1])) - {param, values}) == 1:
            return "(Some (map (fun value => (param, value)) elems))"
        if len(stmts) == 1 and isinstance(stmts[0], ast.Try) and not stmts[0].orelse and not stmts[0].finalbody \
                and len(stmts[0].handlers) == 1 and ast.unparse(stmts[0].handlers[0].type) == "TypeError":
            # iterating raises TypeError exactly for non-iterables
            return f"(if iterable then {branch(stmts[0].body)} else {branch(stmts[0].handlers[0].body)})"
        if len(stmts) == 1 and isinstance(stmts[0], ast.If):
            c = tr.truth(stmts[0].test)
            return f"(if {c} then {branch(stmts[0].body)} else {branch(stmts[0].orelse)})"
        raise pyexpr.Unsupported("branch " + ast.unparse(stmts[0])[:60] if stmts else "empty branch")
    t = _guard(lambda: branch([fb[0]]), "the parameter classification")
    return ("Definition gen_param_values (param : Z) (is_str is_lts iterable : bool) (len code : Z) (elems : list Z)\n"
            f"  : option (list (Z * Z)) :=\n  {t}.")


# ------------------------------------------------------------------ batchrunner.batch_run: the runs list and the results
def _batch_parts():
    """runs_list = []; run_id = 0; kwargs_list = _make_model_kwargs(parameters); for iteration in ...: the design is
    expanded ONCE, before the loop over the iterations (fix C13-4), which is what gen_runs_list's constant `prod` says"""
    fn = _fn(BR, "batch_run")
    body = fn.body
    if len(body) < 4 or not (isinstance(body[0], ast.Assign) and ast.unparse(body[0].value) == "[]"
                             and isinstance(body[1], ast.Assign) and ast.unparse(body[1].value) == "0"
                             and isinstance(body[2], ast.Assign) and len(body[2].targets) == 1
                             and ast.unparse(body[2].value) == "_make_model_kwargs(parameters)"
                             and isinstance(body[3], ast.For)):
        raise T.Broken("`runs_list = []; run_id = 0; kwargs_list = _make_model_kwargs(parameters); for ...` expected at the start of batch_run")
    return fn, body, _name(body[0].targets[0], "runs_list"), _name(body[1].targets[0], "run_id")


def c_runs_list():
    _, body, runs, rid = _batch_parts()
    design = _name(body[2].targets[0], "kwargs_list")
    outer = body[3]
    if ast.unparse(outer.iter) != "range(iterations)" or len(outer.body) != 1 or not isinstance(outer.body[0], ast.For):
        raise T.Broken("`for iteration in range(iterations): for kwargs in ...` expected")
    it = _name(outer.target, "iteration")
    inner = outer.body[0]
    if ast.unparse(inner.iter) != design:
        raise T.Broken("`for kwargs in kwargs_list` (the design expanded once before the loop) expected")
    kw = _name(inner.target, "kwargs")
    # inner body: appends of 3-tuples over run_id / iteration / kwargs and updates of run_id, in order
    tr = pyexpr.Tr()
    out = f"({rid}, acc)"
    steps = []
    for s in inner.body:
        if isinstance(s, ast.Expr) and isinstance(s.value, ast.Call) and ast.unparse(s.value.func) == f"{runs}.append" \
                and len(s.value.args) == 1 and isinstance(s.value.args[0], ast.Tuple) and len(s.value.args[0].elts) == 3:
            a, b, c = s.value.args[0].elts
            if ast.unparse(c) != kw:
                raise T.Broken("third component of a run must be kwargs")
            ta, ka = _guard(lambda: tr.expr(a), "run id")
            tb, kb = _guard(lambda: tr.expr(b), "iteration")
            steps.append(("append", f"({ta}, {tb}, {kw})"))
        elif isinstance(s, (ast.AugAssign, ast.Assign)):
            b = _guard(lambda: tr._binding(s), "counter update")
            if b is None or not b.startswith(f"let {rid} :="):
                raise T.Broken("only run_id may be updated in the loop")
            steps.append(("let", b))
        else:
            raise T.Broken("unexpected statement in the runs loop: " + ast.unparse(s)[:60])
    for kind, t in reversed(steps):
        if kind == "append":
            out = f"(let acc := acc ++ [{t}] in {out})"
        else:
            out = f"({t} {out})"
    return ("Definition gen_runs_list (iterations : Z) (prod : list (list (Z * Z))) : list (Z * Z * list (Z * Z)) :=\n"
            f"  snd (fold_left (fun st {it} => fold_left (fun st {kw} => let '({rid}, acc) := st in\n"
            f"    {out}) prod st) (zrange 0 (iterations - 1)) (0, [])).")


def c_results():
    """the tail of batch_run: the serial loop and the handling of what Pool.imap_unordered yields, translated.
    `order` is the external outcome of imap_unordered: the runs in the order in which their results arrive."""
    _, body, runs, _ = _batch_parts()
    tail = body[4:]
    if len(tail) != 4:
        raise T.Broken(f"expected process_func / results / with tqdm / return after the runs loop, found {len(tail)} statements")
    pf, res, wt, ret = tail
    if not (isinstance(pf, ast.Assign) and ast.unparse(pf.value) ==
            "partial(_model_run_func, model_cls, max_steps=max_steps, data_collection_period=data_collection_period)"):
        raise T.Broken("`process_func = partial(_model_run_func, model_cls, max_steps=..., data_collection_period=...)` expected")
    proc = _name(pf.targets[0], "process_func")
    if not (isinstance(res, (ast.Assign, ast.AnnAssign)) and ast.unparse(res.value) == "[]"):
        raise T.Broken("`results = []` expected")
    results = _name(res.target if isinstance(res, ast.AnnAssign) else res.targets[0], "results")
    if not (isinstance(wt, ast.With) and len(wt.items) == 1
            and ast.unparse(wt.items[0].context_expr) == f"tqdm(total=len({runs}), disable=not display_progress)"
            and wt.items[0].optional_vars is not None and len(wt.body) == 1 and isinstance(wt.body[0], ast.If)):
        raise T.Broken("`with tqdm(total=len(runs_list), disable=not display_progress) as pbar: if ...` expected")
    pbar = _name(wt.items[0].optional_vars, "pbar")
    if ast.unparse(ret) != f"return {results}":
        raise T.Broken("`return results` expected")
    branch = wt.body[0]
    cond = _guard(lambda: pyexpr.Tr().bexpr(branch.test), "the serial/parallel test")

    def loop(fr, source):
        """for x in <source>: [d = process_func(x);] results.extend(d); pbar.update()  ->  a fold over `source`"""
        x = _name(fr.target, "loop variable")
        val = x
        out = None
        for st in fr.body:
            t = ast.unparse(st)
            if t == f"{pbar}.update()":
                continue                      # progress display only: pbar is used nowhere else
            m = re.fullmatch(rf"(v\d+) = {proc}\({x}\)", t)
            if m:
                val = f"(process {x})"
                bound = m.group(1)
                continue
            m = re.fullmatch(rf"{results}\.extend\((v\d+)\)", t)
            if m and out is None and (m.group(1) == x or (val != x and m.group(1) == bound)):
                out = f"(acc ++ {val})"
                continue
            raise T.Broken("unexpected statement in a results loop: " + t[:70])
        if out is None:
            raise T.Broken("a results loop that does not extend the results")
        return f"fold_left (fun acc {x} => {out}) {source} []"

    if not (len(branch.body) == 1 and isinstance(branch.body[0], ast.For) and ast.unparse(branch.body[0].iter) == runs and not branch.body[0].orelse):
        raise T.Broken("serial branch: `for run in runs_list: ...` expected")
    serial = loop(branch.body[0], "runs")
    par = branch.orelse
    if not (len(par) == 1 and isinstance(par[0], ast.With) and len(par[0].items) == 1
            and ast.unparse(par[0].items[0].context_expr) == "Pool(number_processes)" and par[0].items[0].optional_vars is not None
            and len(par[0].body) == 1 and isinstance(par[0].body[0], ast.For) and not par[0].body[0].orelse):
        raise T.Broken("parallel branch: `with Pool(number_processes) as p: for data in ...` expected")
    pool = _name(par[0].items[0].optional_vars, "pool")
    if ast.unparse(par[0].body[0].iter) != f"{pool}.imap_unordered({proc}, {runs})":
        raise T.Broken("`p.imap_unordered(process_func, runs_list)` expected")
    parallel = loop(par[0].body[0], "(map process order)")
    return ("Definition gen_batch_results {R X : Type} (process : X -> list R) (number_processes : Z) (runs order : list X) : list R :=\n"
            f"  if {cond} then {serial} else {parallel}.")


# ------------------------------------------------------------------ datacollection.add_table_row
def c_add_row():
    fn = _fn(DC, "add_table_row", "DataCollector")
    if [a.arg for a in fn.args.args] != ["self", "table_name", "row", "ignore_missing"]:
        raise T.Broken("unexpected parameters of add_table_row")
    body = fn.body
    if len(body) != 3:
        raise T.Broken(f"expected 3 statements (unknown table, rejection test, append loop), found {len(body)}")
    s0, s1, s2 = body
    if not (isinstance(s0, ast.If) and ast.unparse(s0.test) == "table_name not in self.tables" and len(s0.body) == 1
            and isinstance(s0.body[0], ast.Raise) and not s0.orelse):
        raise T.Broken("`if table_name not in self.tables: raise` expected first")
    cols = {"self.tables[table_name]": ("cols", "zlist")}
    tr = Tr2(text_map=cols, bool_names=["ignore_missing"], assoc=["row"])
    if not (isinstance(s1, ast.If) and len(s1.body) == 1 and isinstance(s1.body[0], ast.Raise) and not s1.orelse):
        raise T.Broken("`if <rejection test>: raise` expected second")
    rej = _guard(lambda: tr.truth(s1.test), "the rejection test")
    if not (isinstance(s2, ast.For) and isinstance(s2.target, ast.Name) and ast.unparse(s2.iter) == "self.tables[table_name]"
            and len(s2.body) == 1 and isinstance(s2.body[0], ast.If) and not s2.orelse):
        raise T.Broken("`for column in self.tables[table_name]: if ...` expected third")
    col = s2.target.id

    def cell(stmts):
        if len(stmts) == 1 and isinstance(stmts[0], ast.If):
            return f"(if {tr.truth(stmts[0].test)} then {cell(stmts[0].body)} else {cell(stmts[0].orelse)})"
        if len(stmts) == 1 and isinstance(stmts[0], ast.Expr) and isinstance(stmts[0].value, ast.Call) \
                and ast.unparse(stmts[0].value.func) == f"self.tables[table_name][{col}].append" and len(stmts[0].value.args) == 1:
            t, k = tr.expr(stmts[0].value.args[0])
            if k != "cell":
                raise pyexpr.Unsupported("appended value")
            return t
        raise pyexpr.Unsupported("statement in the append loop")
    c = _guard(lambda: cell(s2.body), "the append loop")
    return ("Definition gen_add_row_reject (ignore_missing : bool) (cols : list Z) (row : list (Z * option Z)) : bool :=\n"
            f"  {rej}.\n"
            "Definition gen_add_row_cells (cols : list Z) (row : list (Z * option Z)) : list (option Z) :=\n"
            f"  map (fun {col} => {c}) cols.")


# ------------------------------------------------------------------ datacollection._record_agenttype
def c_type_choice():
    fn = _fn(DC, "_record_agenttype", "DataCollector")
    body = fn.body
    ifs = [s for s in body if isinstance(s, ast.If)]
    if len(ifs) != 1:
        raise T.Broken("expected one top-level if")
    before = body[body.index(ifs[0]) - 1]
    if not (isinstance(before, ast.Assign) and ast.unparse(before.value) == "model.agent_types"):
        raise T.Broken("`agent_types = model.agent_types` expected before the choice")
    types_ = _name(before.targets[0], "agent_types")
    after = [ast.unparse(s) for s in body[body.index(ifs[0]) + 1:]]
    m = re.fullmatch(r"(v\d+) = map\(get_reports, (v\d+)\)", after[0]) if len(after) == 2 else None
    if not m or after[1] != f"return {m.group(1)}":
        raise T.Broken("the records must be map(get_reports, agents)")
    agents = m.group(2)
    names = {f"agent_type in {types_}": ("in_types", "bool"), "model.agents_by_type[agent_type]": ("direct_nonempty", "bool"),
             "issubclass(agent_type, Agent)": ("is_agent", "bool")}
    tr = Tr2(text_map=names)

    def branch(stmts):
        stmts = [s for s in stmts if not isinstance(s, ast.ImportFrom)]
        if len(stmts) == 1 and isinstance(stmts[0], ast.Raise) and ast.unparse(stmts[0].exc.func) == "ValueError":
            return "2"
        if len(stmts) == 1 and ast.unparse(stmts[0]) == f"{agents} = model.agents_by_type[agent_type]":
            return "0"
        if len(stmts) == 1 and re.fullmatch(rf"{agents} = \[(v\d+) for \1 in model\.agents if isinstance\(\1, agent_type\)\]", ast.unparse(stmts[0])):
            return "1"
        if len(stmts) == 1 and isinstance(stmts[0], ast.If):
            return f"(if {tr.truth(stmts[0].test)} then {branch(stmts[0].body)} else {branch(stmts[0].orelse)})"
        raise pyexpr.Unsupported("branch of the agent-source choice")
    t = _guard(lambda: branch([ifs[0]]), "the agent-source choice")
    return ("(* 0 = model.agents_by_type[T]; 1 = isinstance filter over model.agents; 2 = ValueError *)\n"
            f"Definition gen_type_choice (in_types direct_nonempty is_agent : bool) : Z :=\n  {t}.")


# ------------------------------------------------------------------ datacollection.collect
# statements modulo the names of locals (v0, v1, ..), docstrings, comments, formatting, exception messages
COLLECT_SKELETON = [
    "if self.model_reporters:\n    if not self._validated:\n        for v4, v1 in self.model_reporters.items():\n"
    "            self._validate_model_reporter(v4, v1, model)\n    for v0, v1 in self.model_reporters.items():\n        <dispatch>",
    "self._collection_steps.append(model.steps)",
    "if self.agent_reporters:\n    v2 = self._record_agents(model)\n    self._agent_records[model.steps] = list(v2)",
    "if self.agenttype_reporters:\n    self._agenttype_records[model.steps] = {}\n    for v3 in self.agenttype_reporters:\n"
    "        v5 = self._record_agenttype(model, v3)\n"
    "        self._agenttype_records[model.steps][v3] = list(v5)",
]


def _collect_dispatch():
    fn = _fn(DC, "collect", "DataCollector")
    body = fn.body
    if not (body and isinstance(body[0], ast.If) and len(body[0].body) == 2 and isinstance(body[0].body[1], ast.For)
            and len(body[0].body[1].body) == 1 and isinstance(body[0].body[1].body[0], ast.If)
            and isinstance(body[0].body[1].target, ast.Tuple) and len(body[0].body[1].target.elts) == 2):
        raise T.Broken("the model-reporter loop with its if-chain was not found")
    return fn, body, body[0].body[1].body[0], [_name(x, "loop target") for x in body[0].body[1].target.elts]


def c_dispatch():
    _, _, chain, (var, rep) = _collect_dispatch()
    names = {f"isinstance({rep}, types.LambdaType | partial)": ("is_fun", "bool"), f"isinstance({rep}, str)": ("is_str", "bool"),
             f"isinstance({rep}, list)": ("is_list", "bool")}
    tr = Tr2(text_map=names)
    forms = {f"self.model_vars[{var}].append(deepcopy({rep}(model)))": "1",
             f"self.model_vars[{var}].append(deepcopy(getattr(model, {rep}, None)))": "2",
             f"self.model_vars[{var}].append(deepcopy({rep}[0](*{rep}[1])))": "3",
             f"self.model_vars[{var}].append(deepcopy({rep}()))": "4"}

    def branch(stmts):
        if len(stmts) == 1 and isinstance(stmts[0], ast.If):
            return f"(if {tr.truth(stmts[0].test)} then {branch(stmts[0].body)} else {branch(stmts[0].orelse)})"
        if len(stmts) == 1 and ast.unparse(stmts[0]) in forms:
            return forms[ast.unparse(stmts[0])]
        raise pyexpr.Unsupported("branch of the reporter dispatch: " + (ast.unparse(stmts[0])[:70] if stmts else "empty"))
    t = _guard(lambda: branch([chain]), "the reporter dispatch")
    return ("(* what is appended (always through deepcopy): 1 = reporter(model); 2 = getattr(model, reporter, None);\n"
            "   3 = reporter[0] applied to the unpacked reporter[1]; 4 = reporter() *)\n"
            f"Definition gen_dispatch (is_fun is_str is_list : bool) : Z :=\n  {t}.")


def _skeleton(got, want, what):
    if got != want:
        diff = [f"{a!r} != {b!r}" for a, b in zip(got, want) if a != b] or [f"{len(got)} statements, expected {len(want)}"]
        raise T.Broken(f"statement skeleton of {what} changed: " + diff[0][:220])


GET_REPORTS = "def get_reports({a}):\n    {p} = ({a}.model.steps, {a}.unique_id)\n    {r} = tuple(({f}({a}) for {f} in v0))\n    return {p} + {r}"


def c_collect_skeleton():
    """collect outside the dispatch chain: validation once, then the loop; the step of the collection is appended after
    the model reporters; agent records are keyed by model.steps (assignment = replace); agent-type records likewise;
    every row starts with (agent.model.steps, agent.unique_id)"""
    fn, body, chain, _ = _collect_dispatch()
    got = []
    for st in body:
        txt = _txt(st)
        if st is body[0]:
            txt = txt.replace(ast.unparse(chain).replace("\n", "\n        "), "<dispatch>")
        got.append(txt)
    _skeleton(got, COLLECT_SKELETON, "collect")
    rec = _fn(DC, "_record_agents", "DataCollector")
    want = ["v0 = self.agent_reporters.values()", GET_REPORTS.format(a="agent", p="v2", r="v3", f="v4"),
            "v1 = map(get_reports, model.agents)", "return v1"]
    _skeleton([_txt(s) for s in rec.body], want, "_record_agents")
    rt = _fn(DC, "_record_agenttype", "DataCollector")
    _skeleton([_txt(s) for s in rt.body[:2]],
              ["v0 = self.agenttype_reporters[agent_type].values()", GET_REPORTS.format(a="v7", p="v3", r="v4", f="v6")], "_record_agenttype")
    return "Definition gen_collect_skeleton_ok : bool := true."


RUN_SKELETON = ["v0, v1, v2 = run", "v3 = model_cls(**v2)", "<while>", "v4 = []", "<steps>", "<steps>", "<steps>",
                "for v7 in v6:\n    v8, v9 = _collect_data(v3, v7)\n    if v9:\n"
                "        v10 = [{'RunId': v0, 'iteration': v1, 'Step': v7, **v2, **v8, **v11} for v11 in v9]\n"
                "    else:\n        v10 = [{'RunId': v0, 'iteration': v1, 'Step': v7, **v2, **v8}]\n    v4.extend(v10)",
                "return v4"]
COLLECT_DATA_SKELETON = ["if not hasattr(model, 'datacollector'):\n    raise AttributeError(<msg>)", "v0 = model.datacollector", "<positions>",
                         "<model_data>", "v3 = []", "v4 = v0._agent_records.get(step, [])",
                         "for v5 in v4:\n    v6 = {'AgentID': v5[1]}\n    v6.update(zip(v0.agent_reporters, v5[2:]))\n    v3.append(v6)",
                         "return (v2, v3)"]


def c_batch_skeleton():
    """the glue of batchrunner that stays a skeleton: the run is unpacked and the model constructed with exactly **kwargs;
    rows are built per reported step from _collect_data; agent records are looked up under the step"""
    fn, body, w, _ = _run_func_parts()
    got = []
    i = body.index(w)
    for j, st in enumerate(body):
        got.append("<while>" if st is w else ("<steps>" if i + 2 <= j <= i + 4 else _txt(st)))
    _skeleton(got, RUN_SKELETON, "_model_run_func")
    _, cd, _, pos, md = _collect_data_parts()
    got = ["<positions>" if st is pos else ("<model_data>" if st is md else _txt(st)) for st in cd]
    _skeleton(got, COLLECT_DATA_SKELETON, "_collect_data")
    return "Definition gen_batch_skeleton_ok : bool := true."


CONSTRUCTS = [
    ("br_loop_cond_code", BR, c_loop_cond, lambda: "Definition gen_loop_cond (running : bool) (steps max_steps : Z) : bool := true."),
    ("br_report_steps_code", BR, c_report_steps,
     lambda: "Definition gen_report_steps (data_collection_period : Z) (csteps : list Z) : list Z := []."),
    ("br_model_data_code", BR, c_model_data,
     lambda: "Definition gen_positions (step : Z) (csteps : list Z) : list Z := [].\n"
             "Definition gen_model_data {A : Type} (dflt : A) (step : Z) (csteps : list Z) (mvars : list (Z * list A)) : list (Z * A) := []."),
    ("br_param_values_code", BR, c_param_values,
     lambda: "Definition gen_param_values (param : Z) (is_str is_lts iterable : bool) (len code : Z) (elems : list Z) : option (list (Z * Z)) := None."),
    ("br_runs_list_code", BR, c_runs_list,
     lambda: "Definition gen_runs_list (iterations : Z) (prod : list (list (Z * Z))) : list (Z * Z * list (Z * Z)) := []."),
    ("br_results_code", BR, c_results,
     lambda: "Definition gen_batch_results {R X : Type} (process : X -> list R) (number_processes : Z) (runs order : list X) : list R := []."),
    ("br_skeleton", BR, c_batch_skeleton, lambda: "Definition gen_batch_skeleton_ok : bool := false."),
    ("dc_add_row_code", DC, c_add_row,
     lambda: "Definition gen_add_row_reject (ignore_missing : bool) (cols : list Z) (row : list (Z * option Z)) : bool := false.\n"
             "Definition gen_add_row_cells (cols : list Z) (row : list (Z * option Z)) : list (option Z) := []."),
    ("dc_type_choice_code", DC, c_type_choice, lambda: "Definition gen_type_choice (in_types direct_nonempty is_agent : bool) : Z := 2."),
    ("dc_dispatch_code", DC, c_dispatch, lambda: "Definition gen_dispatch (is_fun is_str is_list : bool) : Z := 0."),
    ("dc_collect_skeleton", DC, c_collect_skeleton, lambda: "Definition gen_collect_skeleton_ok : bool := false."),
]
