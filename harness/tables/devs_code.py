"""T1 (code level) for mesa/experimental/devs: the guards, time arithmetic and decisions of the simulators and of the
event list are TRANSLATED from the working tree into executable Gallina (harness/pyexpr.py, subclassed below for
`event.time`, `self.time`, float literals with an integer value, keyword calls and `is not None`);
Proofs/DevsBridge.v proves that they are the conditions the hand-written model Model/Devs.v uses.  What cannot be
translated (the `while True / try / except IndexError` loops, the heap calls, the object glue) is checked as a
statement skeleton in which the translated conditions are abstracted to COND, so that a harmless rewrite of a
condition touches neither the skeleton nor (thanks to the robust bridge proofs) the theorems.

Times: the model counts 1/8 (SCALE); every comparison and sum is invariant under the scaling, integer literals that
denote a time (the `1` of schedule_event_next_tick) are emitted as `(c * unit)` and the bridge instantiates unit := SCALE.
"""
import ast

import pyexpr
import translate as T

SIM = "mesa/experimental/devs/simulator.py"
EV = "mesa/experimental/devs/eventlist.py"
HEADER = ""

STEP_TEST = "event.fn() == self.model.step"


class DTr(pyexpr.Tr):
    """pyexpr.Tr + the few extra forms of the simulator code (behaviour of the shared translator is untouched)"""

    OBJ_ATTR = {("self", "time"): ("now", "Z"), ("event", "time"): ("event_time", "Z"),
                ("event", "CANCELED"): ("canceled", "bool"), ("self", "_canceled"): ("canceled", "bool")}

    def expr(self, e):
        if isinstance(e, ast.Attribute) and isinstance(e.value, ast.Name) and (e.value.id, e.attr) in self.OBJ_ATTR:
            return self.OBJ_ATTR[(e.value.id, e.attr)]
        if isinstance(e, ast.Constant) and isinstance(e.value, float):
            if not e.value.is_integer():
                raise pyexpr.Unsupported(f"non-integer float literal {e.value!r}")
            return self._time_const(int(e.value))
        if isinstance(e, ast.Constant) and type(e.value) is int:
            return self._time_const(e.value)
        if isinstance(e, ast.Compare) and len(e.ops) == 1 and isinstance(e.ops[0], (ast.Is, ast.IsNot)) \
                and isinstance(e.left, ast.Name) and e.left.id == "fn" \
                and isinstance(e.comparators[0], ast.Constant) and e.comparators[0].value is None:
            return ("fn_alive" if isinstance(e.ops[0], ast.IsNot) else "(negb fn_alive)"), "bool"
        if isinstance(e, ast.Compare) and ast.unparse(e) in (STEP_TEST, "self.model.step == event.fn()"):
            return "is_step", "bool"
        if isinstance(e, ast.Call):
            name = ast.unparse(e.func)
            if name == "len" and len(e.args) == 1 and ast.unparse(e.args[0]) == "peek" and not e.keywords:
                return "len_peek", "Z"
            if name == "SimulationEvent":
                # the event is represented by its time (first positional argument)
                if not e.args:
                    raise pyexpr.Unsupported("SimulationEvent without a positional time")
                t, k = self.expr(e.args[0])
                if k != "Z":
                    raise pyexpr.Unsupported("event time is not a number")
                return t, "Z"
            if name == "self.schedule_event_relative":
                if len(e.args) != 2 or ast.unparse(e.args[0]) != "function":
                    raise pyexpr.Unsupported("schedule_event_relative(function, delta, ...) expected")
                kws = {k.arg: ast.unparse(k.value) for k in e.keywords}
                if kws != {"priority": "priority", "function_args": "function_args", "function_kwargs": "function_kwargs"}:
                    raise pyexpr.Unsupported("schedule_event_relative must pass priority / function_args / function_kwargs through")
                d, k = self.expr(e.args[1])
                if k != "Z":
                    raise pyexpr.Unsupported("delta is not a number")
                return f"(gen_rel_event_time unit now {d})", "optZ"
            if name == "self.check_time_unit" and len(e.args) == 1 and ast.unparse(e.args[0]) == "event.time" and not e.keywords:
                return "unit_ok", "bool"
        return super().expr(e)

    def _time_const(self, c):
        if c == 0:
            return "0", "Z"
        return f"({pyexpr._z(c)} * unit)", "Z"

    def body(self, stmts, ret_kind):
        if stmts:
            s, rest = stmts[0], stmts[1:]
            if isinstance(s, ast.Return) and s.value is not None and ret_kind == "option Z":
                t, k = self.expr(s.value)
                if k == "optZ":
                    return t
            if isinstance(s, ast.Expr) and isinstance(s.value, ast.Call):
                txt = ast.unparse(s.value)
                if txt == "self._schedule_event(event)":          # checked on its own (gen_schedule_event_ok)
                    return self.body(rest, ret_kind)
                if txt == "self.event_list.add_event(event)" and not rest and ret_kind == "option bool":
                    return "(Some true)"
                if txt == "super().__init__()":
                    return self.body(rest, ret_kind)
        return super().body(stmts, ret_kind)


def _cls(src, name):
    return T._find_class(T._parse(src), name)


# the local variables of the functions that are translated, in order of first binding, under the names the translators
# below expect: the functions are alpha-renamed to these before anything else, so renaming a local in the source is harmless
LOCALS = {
    ("Simulator", "run_until"): ["event"], ("ABMSimulator", "run_until"): ["event"], ("Simulator", "run_next_event"): ["event"],
    ("Simulator", "schedule_event_absolute"): ["event"], ("Simulator", "schedule_event_relative"): ["event"],
    ("Simulator", "run_for"): ["end_time"],
    ("SimulationEvent", "execute"): ["fn"], ("EventList", "pop_event"): ["event"], ("EventList", "peak_ahead"): ["peek", "event"],
}


def _fn(src, cls, name):
    import copy

    fn = copy.deepcopy(T._find_func(_cls(src, cls), name))
    want = LOCALS.get((cls, name))
    if want is not None:
        have = pyexpr.local_names(fn)
        if len(have) != len(want):
            raise T.Broken(f"{cls}.{name} binds the locals {have}, expected {len(want)} of them")
        fn = ast.fix_missing_locations(pyexpr._Renamer(dict(zip(have, want))).visit(fn))
    return fn


def _params(fn):
    return [a.arg for a in fn.args.args]


def _wrap(what, f):
    try:
        return f()
    except pyexpr.Unsupported as e:
        raise T.Broken(f"{what} is outside the translated subset: {e}") from None


SCHED_PARAMS = ["self", "function", "<t>", "priority", "function_args", "function_kwargs"]


def _check_sched_params(fn, tname):
    want = [tname if p == "<t>" else p for p in SCHED_PARAMS if p != "<t>" or tname]
    if _params(fn) != want:
        raise T.Broken(f"unexpected parameters of {fn.name}: {_params(fn)}")


# ------------------------------------------------------------------ scheduling: guards and the time of the event
def c_rel():
    fn = _fn(SIM, "Simulator", "schedule_event_relative")
    _check_sched_params(fn, "time_delta")
    b = _wrap("schedule_event_relative", lambda: DTr().body(list(fn.body), "option Z"))
    return f"Definition gen_rel_event_time (unit now time_delta : Z) : option Z :=\n  {b}."


def c_abs():
    fn = _fn(SIM, "Simulator", "schedule_event_absolute")
    _check_sched_params(fn, "time")
    b = _wrap("schedule_event_absolute", lambda: DTr().body(list(fn.body), "option Z"))
    return f"Definition gen_abs_event_time (unit now time : Z) : option Z :=\n  {b}."


def c_now():
    fn = _fn(SIM, "Simulator", "schedule_event_now")
    _check_sched_params(fn, None)
    b = _wrap("schedule_event_now", lambda: DTr().body(list(fn.body), "option Z"))
    return f"Definition gen_now_event_time (unit now : Z) : option Z :=\n  {b}."


def c_tick():
    fn = _fn(SIM, "ABMSimulator", "schedule_event_next_tick")
    _check_sched_params(fn, None)
    b = _wrap("schedule_event_next_tick", lambda: DTr().body(list(fn.body), "option Z"))
    return f"Definition gen_tick_event_time (unit now : Z) : option Z :=\n  {b}."


def c_sched_ok():
    fn = _fn(SIM, "Simulator", "_schedule_event")
    if _params(fn) != ["self", "event"]:
        raise T.Broken("unexpected parameters of _schedule_event")
    b = _wrap("_schedule_event", lambda: DTr(bool_names=["unit_ok"]).body(list(fn.body), "option bool"))
    return f"Definition gen_schedule_event_ok (unit_ok : bool) : option bool :=\n  {b}."


def c_run_for():
    fn = _fn(SIM, "Simulator", "run_for")
    if _params(fn) != ["self", "time_delta"]:
        raise T.Broken("unexpected parameters of run_for")
    body = [s for s in fn.body if not (isinstance(s, ast.Expr) and isinstance(s.value, ast.Constant))]
    if len(body) != 2 or not (isinstance(body[0], ast.Assign) and ast.unparse(body[0].targets[0]) == "end_time") \
            or ast.unparse(body[1]) != "self.run_until(end_time)":
        raise T.Broken("run_for is no longer  end_time = <expr>; self.run_until(end_time)")
    t, k = _wrap("run_for", lambda: DTr().expr(body[0].value))
    if k != "Z":
        raise T.Broken("run_for horizon is not a number")
    return f"Definition gen_run_for_horizon (now time_delta : Z) : Z :=\n  {t}."


# ------------------------------------------------------------------ run_until: the decision of the loop body
def _until_if(cls):
    fn = _fn(SIM, cls, "run_until")
    if _params(fn) != ["self", "end_time"]:
        raise T.Broken(f"unexpected parameters of {cls}.run_until")
    loops = [n for n in fn.body if isinstance(n, ast.While)]
    if len(loops) != 1:
        raise T.Broken(f"{cls}.run_until: expected one while loop")
    ifs = [n for n in loops[0].body if isinstance(n, ast.If)]
    if len(ifs) != 1:
        raise T.Broken(f"{cls}.run_until: expected one if/else in the loop")
    return fn, ifs[0]


def _c_until(cls, name):
    _, node = _until_if(cls)
    t = _wrap(f"{cls}.run_until condition", lambda: DTr().bexpr(node.test))
    return f"Definition {name} (event_time end_time : Z) : bool :=\n  {t}."


def c_until_sim():
    return _c_until("Simulator", "gen_until_runs_sim")


def c_until_abm():
    return _c_until("ABMSimulator", "gen_until_runs_abm")


# ------------------------------------------------------------------ "is this statement reached": nested ifs -> bool
def _reach(tr, stmts, is_target, skip):
    """Gallina bool: does control reach the (unique) target statement of this statement list"""
    if not stmts:
        return "false"
    s, rest = stmts[0], stmts[1:]
    if isinstance(s, ast.Expr) and isinstance(s.value, ast.Constant) and isinstance(s.value.value, str):
        return _reach(tr, rest, is_target, skip)
    if is_target(s):
        return "true"
    if isinstance(s, ast.If):
        c = tr.bexpr(s.test)
        a = _reach(tr, list(s.body) + ([] if tr._terminates(s.body) else rest), is_target, skip)
        b = _reach(tr, list(s.orelse) + ([] if (s.orelse and tr._terminates(s.orelse)) else rest), is_target, skip)
        return f"(if {c} then {a} else {b})"
    if isinstance(s, (ast.Return, ast.Raise)):
        return "false"
    if ast.unparse(s) in skip:
        return _reach(tr, rest, is_target, skip)
    raise pyexpr.Unsupported(f"statement `{ast.unparse(s)[:60]}`")


def c_execute():
    fn = _fn(EV, "SimulationEvent", "execute")
    if _params(fn) != ["self"]:
        raise T.Broken("unexpected parameters of execute")
    call = "fn(*self.function_args, **self.function_kwargs)"
    n = [x for x in ast.walk(fn) if isinstance(x, ast.Expr) and ast.unparse(x) == call]
    if len(n) != 1:
        raise T.Broken("execute no longer calls fn(*self.function_args, **self.function_kwargs) exactly once")
    t = _wrap("execute", lambda: _reach(DTr(bool_names=["fn_alive"]), list(fn.body), lambda s: ast.unparse(s) == call, {"fn = self.fn()"}))
    return f"Definition gen_execute_runs (canceled fn_alive : bool) : bool :=\n  {t}."


def c_abm_resched():
    fn = _fn(SIM, "ABMSimulator", "_execute_event")
    if _params(fn) != ["self", "event"]:
        raise T.Broken("unexpected parameters of ABMSimulator._execute_event")
    call = "self.schedule_event_next_tick(self.model.step, priority=Priority.HIGH)"
    t = _wrap("ABMSimulator._execute_event", lambda: _reach(DTr(bool_names=["is_step"]), list(fn.body),
                                                           lambda s: isinstance(s, ast.Expr) and ast.unparse(s).startswith("self.schedule_event_next_tick(self.model.step"),
                                                           {"self.time = event.time", "event.execute()"}))
    del call
    return f"Definition gen_abm_reschedules (is_step : bool) : bool :=\n  {t}."


# ------------------------------------------------------------------ event list: the tests of pop_event / peak_ahead
def c_pop_returns():
    fn = _fn(EV, "EventList", "pop_event")
    loops = [n for n in fn.body if isinstance(n, ast.While)]
    if len(loops) != 1:
        raise T.Broken("pop_event: expected one while loop")
    t = _wrap("pop_event", lambda: _reach(DTr(), list(loops[0].body), lambda s: isinstance(s, ast.Return) and ast.unparse(s) == "return event",
                                          {"event = heappop(self._events)"}))
    return f"Definition gen_pop_returns (canceled : bool) : bool :=\n  {t}."


def _peek_loop():
    fn = _fn(EV, "EventList", "peak_ahead")
    if _params(fn) != ["self", "n"]:
        raise T.Broken("unexpected parameters of peak_ahead")
    loops = [n for n in fn.body if isinstance(n, ast.For)]
    if len(loops) != 1:
        raise T.Broken("peak_ahead: expected one for loop")
    return fn, loops[0]


def c_peek_keeps():
    _, loop = _peek_loop()
    holder = [s for s in loop.body if any(ast.unparse(x) == "peek.append(event)" for x in ast.walk(s) if isinstance(x, ast.Expr))]
    if len(holder) != 1:
        raise T.Broken("peak_ahead: expected one statement that appends to peek")
    t = _wrap("peak_ahead", lambda: _reach(DTr(), holder, lambda s: ast.unparse(s) == "peek.append(event)", set()))
    return f"Definition gen_peek_keeps (canceled : bool) : bool :=\n  {t}."


def c_peek_full():
    _, loop = _peek_loop()
    # the statements after the append: when does the loop return
    stmts = list(loop.body)
    idx = [i for i, s in enumerate(stmts) if any(ast.unparse(x) == "peek.append(event)" for x in ast.walk(s) if isinstance(x, ast.Expr))]
    if len(idx) != 1:
        raise T.Broken("peak_ahead: expected one statement that appends to peek")
    t = _wrap("peak_ahead", lambda: _reach(DTr(), stmts[idx[0] + 1:], lambda s: isinstance(s, ast.Return) and ast.unparse(s) == "return peek", set()))
    return f"Definition gen_peek_full (len_peek n : Z) : bool :=\n  {t}."


# ------------------------------------------------------------------ the glue that is not translated: statement skeletons
class _Norm(ast.NodeTransformer):
    """docstrings dropped, messages of raised exceptions dropped, translated conditions abstracted"""

    def __init__(self, conds):
        self.conds = conds

    def visit_If(self, node):
        self.generic_visit(node)
        if ast.unparse(node.test) in self.conds or self.conds == "all-ifs":
            node.test = ast.Name(id="COND", ctx=ast.Load())
        return node

    def visit_Raise(self, node):
        if isinstance(node.exc, ast.Call):
            node.exc = ast.Call(func=node.exc.func, args=[], keywords=[])
        return node


def _skel(fn, abstract):
    """the statements of fn modulo the names of its local variables (pyexpr.normalized_statements: v0, v1, ... in order of
    first binding), docstrings, comments, formatting, the texts of exception messages, and with the separately
    translated `if` tests abstracted to COND"""
    import copy

    fn = copy.deepcopy(fn)
    fn.body = [_Norm(abstract).visit(st) for st in fn.body]
    return "\n".join(pyexpr.normalized_statements(ast.fix_missing_locations(fn)))


RUN_UNTIL = """if self.model is None:
    raise Exception()
while True:
    try:
        v0 = self.event_list.pop_event()
    except IndexError:
        self.time = end_time
        break
    if COND:
        self._execute_event(v0)
    else:
        self.time = end_time
        self._schedule_event(v0)
        break"""

SKELETONS = [
    # (file, class, function, which `if` tests are translated separately, expected statements)
    (SIM, "Simulator", "run_until", "until", RUN_UNTIL),
    (SIM, "ABMSimulator", "run_until", "until", RUN_UNTIL),
    (SIM, "Simulator", "run_next_event", (), """if self.model is None:
    raise Exception()
try:
    v0 = self.event_list.pop_event()
except IndexError:
    return
else:
    self._execute_event(v0)"""),
    (SIM, "Simulator", "_execute_event", (), "self.time = event.time\nevent.execute()"),
    (SIM, "ABMSimulator", "_execute_event", "all-ifs", """self.time = event.time
if COND:
    self.schedule_event_next_tick(self.model.step, priority=Priority.HIGH)
event.execute()"""),
    (SIM, "ABMSimulator", "setup", (), "super().setup(model)\nself.schedule_event_next_tick(self.model.step, priority=Priority.HIGH)"),
    (SIM, "ABMSimulator", "check_time_unit", (), """if isinstance(time, int):
    return True
if isinstance(time, float):
    return time.is_integer()
else:
    return False"""),
    (SIM, "DEVSimulator", "check_time_unit", (), "return isinstance(time, numbers.Number)"),
    (SIM, "Simulator", "cancel_event", (), "self.event_list.remove(event)"),
    # the life cycle (Model/DevsLife.v): setup's two guards in this order, reset, start_time = 0 for both classes
    (SIM, "Simulator", "setup", (), """if self.time != self.start_time:
    raise ValueError()
if not self.event_list.is_empty():
    raise ValueError()
self.model = model"""),
    (SIM, "Simulator", "reset", (), "self.event_list.clear()\nself.model = None\nself.time = self.start_time"),
    (SIM, "ABMSimulator", "__init__", (), "super().__init__(int, 0)"),
    (SIM, "DEVSimulator", "__init__", (), "super().__init__(float, 0.0)"),
    (EV, "EventList", "clear", (), "self._events.clear()"),
    (EV, "EventList", "add_event", (), "heappush(self._events, event)"),
    (EV, "EventList", "remove", (), "event.cancel()"),
    (EV, "EventList", "pop_event", "all-ifs", """while self._events:
    v0 = heappop(self._events)
    if COND:
        return v0
raise IndexError()"""),
    (EV, "EventList", "peak_ahead", "all-ifs", """if COND:
    raise IndexError()
v0: list[SimulationEvent] = []
for v1 in sorted(self._events):
    if COND:
        v0.append(v1)
    if COND:
        return v0
return v0"""),
    (EV, "SimulationEvent", "cancel", (), "self._canceled = True\nself.fn = None\nself.function_args = []\nself.function_kwargs = {}"),
]


def c_skeleton():
    for src, cls, name, abstract, want in SKELETONS:
        fn = _fn(src, cls, name)
        if abstract == "until":
            _, node = _until_if(cls)
            abstract = {ast.unparse(node.test)}
        got = _skel(fn, abstract)
        if got != want:
            a, b = got.splitlines(), want.splitlines()
            diff = next((f"{x!r} != {y!r}" for x, y in zip(a, b) if x != y), f"{len(a)} lines, expected {len(b)}")
            raise T.Broken(f"statement skeleton of {cls}.{name} changed: {diff[:160]}")
    # peak_ahead's first test must be the emptiness test of the list (not translated: a method call)
    fn = _fn(EV, "EventList", "peak_ahead")
    first = [s for s in fn.body if isinstance(s, ast.If)][0]
    if ast.unparse(first.test) != "self.is_empty()":
        raise T.Broken("peak_ahead no longer starts with `if self.is_empty(): raise IndexError`")
    if ast.unparse(_fn(EV, "EventList", "is_empty").body[-1]) != "return len(self) == 0" or \
            ast.unparse(_fn(EV, "EventList", "__len__").body[-1]) != "return len(self._events)":
        raise T.Broken("is_empty / __len__ changed")
    return "Definition gen_devs_skeleton_ok : bool := true."


CONSTRUCTS = [
    ("devs_skeleton", SIM, c_skeleton, lambda: "Definition gen_devs_skeleton_ok : bool := false."),
    ("devs_rel_code", SIM, c_rel, lambda: "Definition gen_rel_event_time (unit now time_delta : Z) : option Z := Some (now - 1)."),
    ("devs_abs_code", SIM, c_abs, lambda: "Definition gen_abs_event_time (unit now time : Z) : option Z := Some (now - 1)."),
    ("devs_now_code", SIM, c_now, lambda: "Definition gen_now_event_time (unit now : Z) : option Z := None."),
    ("devs_tick_code", SIM, c_tick, lambda: "Definition gen_tick_event_time (unit now : Z) : option Z := None."),
    ("devs_schedule_event_code", SIM, c_sched_ok, lambda: "Definition gen_schedule_event_ok (unit_ok : bool) : option bool := None."),
    ("devs_run_for_code", SIM, c_run_for, lambda: "Definition gen_run_for_horizon (now time_delta : Z) : Z := now - 1."),
    ("devs_until_code", SIM, c_until_sim, lambda: "Definition gen_until_runs_sim (event_time end_time : Z) : bool := false."),
    ("devs_until_abm_code", SIM, c_until_abm, lambda: "Definition gen_until_runs_abm (event_time end_time : Z) : bool := false."),
    ("devs_abm_resched_code", SIM, c_abm_resched, lambda: "Definition gen_abm_reschedules (is_step : bool) : bool := false."),
    ("devs_execute_code", EV, c_execute, lambda: "Definition gen_execute_runs (canceled fn_alive : bool) : bool := canceled."),
    ("devs_pop_code", EV, c_pop_returns, lambda: "Definition gen_pop_returns (canceled : bool) : bool := canceled."),
    ("devs_peek_keeps_code", EV, c_peek_keeps, lambda: "Definition gen_peek_keeps (canceled : bool) : bool := canceled."),
    ("devs_peek_full_code", EV, c_peek_full, lambda: "Definition gen_peek_full (len_peek n : Z) : bool := false."),
]
