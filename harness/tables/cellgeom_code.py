"""T1 (code level) for C07: the connection helpers of mesa/discrete_space/grid.py and the conditions of
Cell._neighborhood are TRANSLATED from the working tree into executable Gallina with harness/pyexpr.py
(subclassed here for generator expressions over zip and for `cell.connect(self._cells[target], key)` as
the emission of one (key, target) connection); the residual glue statements are checked verbatim
(statement skeletons).  coq/Proofs/CellGeomBridge.v proves  model function = generated function.

  gen_connect_2d       Grid._connect_single_cell_2d   loop over the offset pairs, % under torus, bounds test
  gen_connect_nd       Grid._connect_single_cell_nd   zip-add, zip-% under torus, all(0 <= nc < d), connect
  gen_moore_axis / gen_vn_deltas + skeletons          the n-D offset constructions
  gen_nbhd_*           Cell._neighborhood             radius < 1, radius == 1, radius - 1, include_center=True, centre rule
  gen_*_skeleton_ok    verbatim statement lists of the glue (dispatch, connect/disconnect, dict statements)
"""
import ast
import re

import pyexpr
import translate as T

GRID = "mesa/discrete_space/grid.py"
CELL = "mesa/discrete_space/cell.py"
HEADER = """(* itertools.combinations(t, 2) of a triple *)
Definition comb2 (t : Z * Z * Z) : list (Z * Z) := let '(a, b, c) := t in [(a, b); (a, c); (b, c)].
"""
VOR = "mesa/discrete_space/voronoi.py"
NET = "mesa/discrete_space/network.py"


class GTr(pyexpr.Tr):
    """pyexpr + integer tuples of unknown length ('zlist'), tuple(... for a, b in zip(X, Y)), all(... zip ...),
    and `<cell>.connect(self._cells[<target>], <key>)` as emission of (key, target)"""

    def __init__(self, zlist_names=(), cell_name="cell", **kw):
        super().__init__(**kw)
        self.zlist_names = set(zlist_names)
        self.cell_name = cell_name
        self.range_names = {}

    def expr(self, e):
        if isinstance(e, ast.Name) and e.id in self.zlist_names:
            return e.id, "zlist"
        if isinstance(e, ast.Attribute) and isinstance(e.value, ast.Name) and e.value.id == "self" \
                and self.attr_map.get(e.attr) in self.zlist_names:
            return self.attr_map[e.attr], "zlist"
        if isinstance(e, ast.Call) and isinstance(e.func, ast.Name) and e.func.id in ("tuple", "all") \
                and len(e.args) == 1 and not e.keywords and isinstance(e.args[0], ast.GeneratorExp):
            g = e.args[0]
            if len(g.generators) != 1 or g.generators[0].ifs or g.generators[0].is_async:
                raise pyexpr.Unsupported("generator shape")
            gen = g.generators[0]
            it = gen.iter
            if not (isinstance(it, ast.Call) and isinstance(it.func, ast.Name) and it.func.id == "zip"
                    and len(it.args) == 2 and not it.keywords):
                raise pyexpr.Unsupported("generator not over zip(X, Y)")
            if not (isinstance(gen.target, ast.Tuple) and len(gen.target.elts) == 2
                    and all(isinstance(x, ast.Name) for x in gen.target.elts)):
                raise pyexpr.Unsupported("generator target")
            a, b = gen.target.elts[0].id, gen.target.elts[1].id
            if a in self.zlist_names or b in self.zlist_names or a in self.bool_names or b in self.bool_names:
                raise pyexpr.Unsupported("generator variable shadows a non-integer name")
            x, kx = self.expr(it.args[0])
            y, ky = self.expr(it.args[1])
            if kx != "zlist" or ky != "zlist":
                raise pyexpr.Unsupported("zip of non-tuples")
            body, kb = self.expr(g.elt)
            if e.func.id == "tuple":
                if kb != "Z":
                    raise pyexpr.Unsupported("tuple of non-integers")
                return f"(map (fun '({a}, {b}) => {body}) (combine {x} {y}))", "zlist"
            if kb != "bool":
                raise pyexpr.Unsupported("all of non-booleans")
            return f"(forallb (fun '({a}, {b}) => {body}) (combine {x} {y}))", "bool"
        return super().expr(e)

    def _binding(self, s):
        b = super()._binding(s)
        if b is not None and isinstance(s, ast.Assign) and isinstance(s.targets[0], ast.Name):
            if self.expr(s.value)[1] == "zlist":
                self.zlist_names.add(s.targets[0].id)
        return b

    def _emit(self, s):
        """(key, target) text for `<cell>.connect(self._cells[target], key)`, or None"""
        if not (isinstance(s, ast.Expr) and isinstance(s.value, ast.Call)):
            return None
        c = s.value
        if not (isinstance(c.func, ast.Attribute) and c.func.attr == "connect" and isinstance(c.func.value, ast.Name)
                and c.func.value.id == self.cell_name and len(c.args) == 2 and not c.keywords):
            return None
        tgt, key = c.args
        if not (isinstance(tgt, ast.Subscript) and ast.unparse(tgt.value) == "self._cells"):
            raise pyexpr.Unsupported("connect target is not self._cells[...]")
        t, kt = self.expr(tgt.slice)
        k, kk = self.expr(key)
        if kt != kk or kt not in ("tuple", "zlist"):
            raise pyexpr.Unsupported("connect key/target kinds")
        return f"({k}, {t})"

    def collect(self, stmts, dict_name):
        if stmts:
            s, rest = stmts[0], stmts[1:]
            em = self._emit(s)
            if em is not None:
                return f"({em} :: {self.collect(rest, dict_name)})"
            # `if c: a, b = e1, e2`  (simultaneous conditional re-binding)
            if isinstance(s, ast.If) and not s.orelse and len(s.body) == 1 and isinstance(s.body[0], ast.Assign) \
                    and len(s.body[0].targets) == 1 and isinstance(s.body[0].targets[0], ast.Tuple) \
                    and isinstance(s.body[0].value, ast.Tuple) and len(s.body[0].value.elts) == 2 \
                    and len(s.body[0].targets[0].elts) == 2 \
                    and all(isinstance(x, ast.Name) for x in s.body[0].targets[0].elts):
                c = self.bexpr(s.test)
                a, b = (x.id for x in s.body[0].targets[0].elts)
                v1, k1 = self.expr(s.body[0].value.elts[0])
                v2, k2 = self.expr(s.body[0].value.elts[1])
                if k1 != "Z" or k2 != "Z":
                    raise pyexpr.Unsupported("pair re-binding of non-integers")
                return f"(let '({a}, {b}) := (if {c} then ({v1}, {v2}) else ({a}, {b})) in {self.collect(rest, dict_name)})"
            if isinstance(s, ast.If) and any(isinstance(x, ast.Assign) for x in ast.walk(s)) \
                    and not self._only_assigns(s.body):
                raise pyexpr.Unsupported("assignment under a condition that is not a plain re-binding")
        return super().collect(stmts, dict_name)


def _cls(rel, name):
    return T._find_class(T._parse(rel), name)


def _stmts(fn):
    return [st for st in fn.body
            if not (isinstance(st, ast.Expr) and isinstance(st.value, ast.Constant) and isinstance(st.value.value, str))]


def _args(fn):
    return [a.arg for a in fn.args.args]


_MSG = re.compile(r"raise (\w+)\((['\"]).*?\2\)")


def _norm(fn, keep=()):
    """statements of fn modulo local-variable names, docstrings, comments, formatting, annotation-only
    differences of assignments and the text of exception messages (pyexpr.normalized_statements)"""
    import copy

    fn = copy.deepcopy(fn)
    for n in ast.walk(fn):
        for f, v in ast.iter_fields(n):
            if isinstance(v, list):
                for i, x in enumerate(v):
                    if isinstance(x, ast.AnnAssign) and x.value is not None and isinstance(x.target, ast.Name):
                        v[i] = ast.copy_location(ast.Assign(targets=[x.target], value=x.value), x)
    ast.fix_missing_locations(fn)
    return [_MSG.sub(r"raise \1(<msg>)", t) for t in pyexpr.normalized_statements(fn, keep=keep)]


def _pair_names(st, rhs):
    """`a, b = <rhs>` -> (a, b)"""
    if not (isinstance(st, ast.Assign) and len(st.targets) == 1 and isinstance(st.targets[0], ast.Tuple)
            and len(st.targets[0].elts) == 2 and all(isinstance(x, ast.Name) for x in st.targets[0].elts)
            and ast.unparse(st.value) == rhs):
        raise T.Broken(f"expected `<a>, <b> = {rhs}`")
    return tuple(x.id for x in st.targets[0].elts)


_RESERVED = {"torus", "offsets", "fun", "let", "in", "if", "then", "else", "match", "with", "end", "forall", "exists",
             "map", "combine", "forallb", "flat_map", "dimensions", "true", "false", "mod", "fst", "snd"}


def _fresh(names):
    if len(set(names)) != len(names) or any(n in _RESERVED or not n.isidentifier() for n in names):
        raise T.Broken(f"local names {names} cannot be used as Gallina binders")


# ------------------------------------------------------------------ Grid._connect_single_cell_2d
def c_connect_2d():
    fn = T._find_func(_cls(GRID, "Grid"), "_connect_single_cell_2d")
    if _args(fn) != ["self", "cell", "offsets"]:
        raise T.Broken("unexpected parameters of _connect_single_cell_2d")
    st = _stmts(fn)
    if len(st) != 3 or not isinstance(st[2], ast.For):
        raise T.Broken("expected `<i>, <j> = cell.coordinate; <height>, <width> = self.dimensions; for ... in offsets`")
    i, j = _pair_names(st[0], "cell.coordinate")
    h, w = _pair_names(st[1], "self.dimensions")
    _fresh([i, j, h, w])
    tr = GTr(bool_names=["torus"], attr_map={"torus": "torus"}, list_names={"offsets": "tuple"})
    try:
        t = tr.collect([st[2]], "<none>")
    except pyexpr.Unsupported as e:
        raise T.Broken(f"_connect_single_cell_2d outside the translated subset: {e}") from None
    return (f"Definition gen_connect_2d (torus : bool) ({h} {w} {i} {j} : Z) (offsets : list (Z * Z))\n"
            f"  : list ((Z * Z) * (Z * Z)) :=\n  {t}.")


# ------------------------------------------------------------------ Grid._connect_single_cell_nd
def c_connect_nd():
    fn = T._find_func(_cls(GRID, "Grid"), "_connect_single_cell_nd")
    if _args(fn) != ["self", "cell", "offsets"]:
        raise T.Broken("unexpected parameters of _connect_single_cell_nd")
    st = _stmts(fn)
    if len(st) != 2 or not (isinstance(st[0], ast.Assign) and len(st[0].targets) == 1 and isinstance(st[0].targets[0], ast.Name)
                            and ast.unparse(st[0].value) == "cell.coordinate") or not isinstance(st[1], ast.For):
        raise T.Broken("expected `<coord> = cell.coordinate; for <d> in offsets`")
    cname = st[0].targets[0].id
    loop = st[1]
    if not (isinstance(loop.target, ast.Name) and isinstance(loop.iter, ast.Name) and loop.iter.id == "offsets"):
        raise T.Broken("loop is not `for <name> in offsets`")
    _fresh([cname, loop.target.id])
    tr = GTr(bool_names=["torus"], attr_map={"torus": "torus", "dimensions": "dimensions"},
             list_names={"offsets": "Z"}, zlist_names=[cname, "dimensions", loop.target.id])
    try:
        t = tr.collect([loop], "<none>")
    except pyexpr.Unsupported as e:
        raise T.Broken(f"_connect_single_cell_nd outside the translated subset: {e}") from None
    return (f"Definition gen_connect_nd (torus : bool) (dimensions {cname} : list Z) (offsets : list (list Z))\n"
            f"  : list (list Z * list Z) :=\n  {t}.")


# ------------------------------------------------------------------ offset constructions + dispatch (skeletons with extracted literals)
def _int_list(expr):
    try:
        v = ast.literal_eval(expr)
    except Exception as e:  # noqa: BLE001
        raise T.Broken(f"not a literal list: {e}") from None
    if not isinstance(v, list) or not all(isinstance(x, int) and not isinstance(x, bool) for x in v):
        raise T.Broken("expected a list of ints")
    return v


def _zl(v):
    return "[" + "; ".join(T._z(x) for x in v) + "]"


def _hole(node, name):
    """replace `node` (found by identity) inside its parent lists/fields by a Name hole"""
    return ast.Name(id=name, ctx=ast.Load())


def c_moore_nd():
    import copy

    fn = copy.deepcopy(T._find_func(_cls(GRID, "OrthogonalMooreGrid"), "_connect_cells_nd"))
    st = _stmts(fn)
    if len(st) != 3:
        raise T.Broken("expected three statements")
    a = st[0]
    if not (isinstance(a, ast.Assign) and isinstance(a.value, ast.Call) and ast.unparse(a.value.func) == "list"
            and len(a.value.args) == 1 and isinstance(a.value.args[0], ast.Call)
            and ast.unparse(a.value.args[0].func) == "product" and len(a.value.args[0].args) == 1):
        raise T.Broken("first statement is not <offsets> = list(product(<axis>, ...))")
    axis = _int_list(a.value.args[0].args[0])
    a.value.args[0].args[0] = ast.Name(id="AXIS", ctx=ast.Load())
    got = _norm(fn, keep=("AXIS",))
    want = ["v0 = list(product(AXIS, repeat=len(self.dimensions)))", "v0.remove((0,) * len(self.dimensions))",
            "for v1 in self.all_cells:\n    self._connect_single_cell_nd(v1, v0)"]
    if got != want:
        raise T.Broken("Moore n-D construction changed: " + next((f"{x!r} != {y!r}" for x, y in zip(got, want) if x != y), "length"))
    return f"Definition gen_moore_axis : list Z := {_zl(axis)}."


def c_vn_nd():
    import copy

    fn = copy.deepcopy(T._find_func(_cls(GRID, "OrthogonalVonNeumannGrid"), "_connect_cells_nd"))
    inner = [n for n in ast.walk(fn) if isinstance(n, ast.For) and isinstance(n.iter, ast.List)]
    if len(inner) != 1:
        raise T.Broken("expected one loop over a literal list of deltas")
    deltas = _int_list(inner[0].iter)
    inner[0].iter = ast.Name(id="DELTAS", ctx=ast.Load())
    got = _norm(fn, keep=("DELTAS",))
    want = ["v0 = []", "v1 = len(self.dimensions)",
            "for v2 in range(v1):\n    for v4 in DELTAS:\n        v5 = [0] * v1\n        v5[v2] = v4\n        v0.append(tuple(v5))",
            "for v3 in self.all_cells:\n    self._connect_single_cell_nd(v3, v0)"]
    if got != want:
        raise T.Broken("von Neumann n-D construction changed: " + next((f"{x!r} != {y!r}" for x, y in zip(got, want) if x != y), "length"))
    return f"Definition gen_vn_deltas : list Z := {_zl(deltas)}."


def c_dispatch():
    fn = T._find_func(_cls(GRID, "Grid"), "_connect_cells")
    if _norm(fn) != ["if self._ndims == 2:\n    self._connect_cells_2d()\nelse:\n    self._connect_cells_nd()"]:
        raise T.Broken("Grid._connect_cells dispatch changed")
    lines = _norm(T._find_func(_cls(GRID, "Grid"), "__init__"))
    for need in ("self._ndims = len(dimensions)", "self.dimensions = dimensions", "self.torus = torus",
                 "v0 = product(*(range(v2) for v2 in self.dimensions))", "self._connect_cells()"):
        if need not in lines:
            raise T.Broken(f"Grid.__init__ no longer contains `{need}`")
    if "self._cells = {v1: self.cell_klass(v1, capacity, random=self.random) for v1 in v0}" not in lines:
        raise T.Broken("Grid.__init__: cells are no longer created in the order of the coordinate product")
    order = [lines.index(x) for x in ("self.torus = torus", "self.dimensions = dimensions", "self._ndims = len(dimensions)",
                                      "v0 = product(*(range(v2) for v2 in self.dimensions))", "self._connect_cells()")]
    if order != sorted(order):
        raise T.Broken("Grid.__init__: order of the statements the model relies on changed")
    return "Definition gen_grid_dispatch_skeleton_ok : bool := true."


# ------------------------------------------------------------------ Cell.connect / disconnect, Cell._neighborhood
def c_cell_connect():
    k = _cls(CELL, "Cell")
    if _args(T._find_func(k, "connect")) != ["self", "other", "key"]:
        raise T.Broken("parameters of Cell.connect")
    con = _norm(T._find_func(k, "connect"))
    dis = _norm(T._find_func(k, "disconnect"))
    if con != ["if key is None:\n    key = other.coordinate", "self.connections[key] = other"]:
        raise T.Broken("Cell.connect is no longer `connections[key] = other`")
    if dis != ["v0 = [v2 for v2, v3 in self.connections.items() if v3 == other]",
               "for v1 in v0:\n    del self.connections[v1]"]:
        raise T.Broken("Cell.disconnect changed: " + repr(dis)[:200])
    return "Definition gen_cell_connect_skeleton_ok : bool := true."


def _nbhd_parts():
    fn = T._find_func(_cls(CELL, "Cell"), "_neighborhood")
    if _args(fn) != ["self", "radius", "include_center"]:
        raise T.Broken("parameters of Cell._neighborhood")
    st = _stmts(fn)
    if len(st) != 4 or not all(isinstance(x, ast.If) for x in st[:3]) \
            or not (isinstance(st[3], ast.Return) and isinstance(st[3].value, ast.Name)):
        raise T.Broken("expected: if <invalid>: raise; if <base>: ... else: ...; if <centre>: ... else: ...; return neighborhood")
    return fn, st


def _rec_call(st):
    """the recursive call in the else branch of the second statement"""
    calls = [n for n in ast.walk(st[1]) if isinstance(n, ast.Call) and isinstance(n.func, ast.Attribute)
             and n.func.attr == "_neighborhood"]
    if len(calls) != 1:
        raise T.Broken("expected exactly one recursive call")
    c = calls[0]
    if not (isinstance(c.func.value, ast.Name) and c.func.value.id != "self"):
        raise T.Broken("recursive call is not on the loop variable")   # which variable: fixed by the skeleton (v1)
    args = {}
    names = ["radius", "include_center"]
    for i, a in enumerate(c.args):
        args[names[i]] = a
    for kw in c.keywords:
        if kw.arg not in names or kw.arg in args:
            raise T.Broken("recursive call arguments")
        args[kw.arg] = kw.value
    if set(args) != set(names):
        raise T.Broken("recursive call must pass radius and include_center")
    return c, args


def c_nbhd_conditions():
    fn, st = _nbhd_parts()
    tr = pyexpr.Tr(bool_names=["include_center"])
    try:
        invalid = tr.bexpr(st[0].test)
        base = tr.bexpr(st[1].test)
        centre = tr.bexpr(st[2].test)
        _, args = _rec_call(st)
        rr, k1 = tr.expr(args["radius"])
        rc, k2 = tr.expr(args["include_center"])
    except pyexpr.Unsupported as e:
        raise T.Broken(f"a condition of Cell._neighborhood is outside the translated subset: {e}") from None
    if k1 != "Z" or k2 != "bool":
        raise T.Broken("kinds of the recursive arguments")
    return (f"Definition gen_nbhd_invalid (radius : Z) : bool := {invalid}.\n"
            f"Definition gen_nbhd_base (radius : Z) : bool := {base}.\n"
            f"Definition gen_nbhd_add_center (include_center : bool) : bool := {centre}.\n"
            f"Definition gen_nbhd_rec_radius (radius : Z) (include_center : bool) : Z := {rr}.\n"
            f"Definition gen_nbhd_rec_center (radius : Z) (include_center : bool) : bool := {rc}.")


NBHD_SKELETON = [   # modulo local names, the message text, docstrings, comments, annotations
    "if INVALID:\n    raise ValueError(<msg>)",
    "if BASE:\n    v0 = {v1: v1._agents for v1 in self.connections.values()}\n"
    "else:\n    v0 = {}\n    for v1 in self.connections.values():\n        v0.update(REC)",
    "if CENTRE:\n    v0[self] = self._agents\nelse:\n    v0.pop(self, None)",
    "return v0",
]


def c_nbhd_skeleton():
    import copy

    fn0, _ = _nbhd_parts()
    fn = copy.deepcopy(fn0)
    st = _stmts(fn)
    call, _ = _rec_call(st)
    for n in ast.walk(st[1]):
        for f, v in ast.iter_fields(n):
            if isinstance(v, list):
                for i, x in enumerate(v):
                    if x is call:
                        v[i] = ast.Name(id="REC", ctx=ast.Load())
    for x, nm in zip(st[:3], ("INVALID", "BASE", "CENTRE")):
        x.test = ast.Name(id=nm, ctx=ast.Load())
    got = _norm(fn, keep=("INVALID", "BASE", "CENTRE", "REC"))
    if got != NBHD_SKELETON:
        diff = [f"{a!r} != {b!r}" for a, b in zip(got, NBHD_SKELETON) if a != b] or ["length"]
        raise T.Broken("statement skeleton of Cell._neighborhood changed: " + diff[0][:300])
    k = _cls(CELL, "Cell")
    g = _norm(T._find_func(k, "get_neighborhood"))
    if g != ["return CellCollection[Cell](self._neighborhood(radius=radius, include_center=include_center), random=self.random)"]:
        raise T.Broken("Cell.get_neighborhood changed")
    if _norm(T._find_func(k, "neighborhood")) != ["return self.get_neighborhood()"]:
        raise T.Broken("Cell.neighborhood changed")
    d = T._find_func(k, "get_neighborhood").args.defaults
    d2 = T._find_func(k, "_neighborhood").args.defaults
    if [ast.unparse(x) for x in d] != ["1", "False"] or [ast.unparse(x) for x in d2] != ["1", "False"]:
        raise T.Broken("default arguments (radius=1, include_center=False) changed")
    return "Definition gen_cell_nbhd_skeleton_ok : bool := true."


# ------------------------------------------------------------------ VoronoiGrid: triangles -> connections
def c_vor_export():
    fn = T._find_func(_cls(VOR, "Delaunay"), "export_triangles")
    st = _stmts(fn)
    if len(st) != 2 or not isinstance(st[0], ast.Assign) or ast.unparse(st[1]) != f"return {ast.unparse(st[0].targets[0])}":
        raise T.Broken("expected `<name> = [<comprehension>]; return <name>`")
    lc = st[0].value
    if not (isinstance(lc, ast.ListComp) and len(lc.generators) == 1):
        raise T.Broken("not a single list comprehension")
    g = lc.generators[0]
    if ast.unparse(g.iter) != "self.triangles" or not (isinstance(g.target, ast.Tuple) and len(g.target.elts) == 3
                                                       and all(isinstance(x, ast.Name) for x in g.target.elts)):
        raise T.Broken("comprehension is not `for (a, b, c) in self.triangles`")
    a, b, c = (x.id for x in g.target.elts)
    tr = pyexpr.Tr()
    try:
        cond = "true"
        for t in g.ifs:
            cond = f"({cond} && {tr.bexpr(t)})"
        if not (isinstance(lc.elt, ast.Tuple) and len(lc.elt.elts) == 3):
            raise T.Broken("element is not a triple")
        es = [tr.expr(x) for x in lc.elt.elts]
    except pyexpr.Unsupported as e:
        raise T.Broken(f"export_triangles outside the translated subset: {e}") from None
    if any(k != "Z" for _, k in es):
        raise T.Broken("triple of non-integers")
    return ("Definition gen_vor_export (triangles : list (Z * Z * Z)) : list (Z * Z * Z) :=\n"
            f"  flat_map (fun '({a}, {b}, {c}) => if {cond} then [({es[0][0]}, {es[1][0]}, {es[2][0]})] else []) triangles.")


def _vor_body(stmts, tr):
    """list-valued Gallina term: every `self._cells[X].connect(self._cells[Y], (K1, K2))` emits (X, ((K1, K2), Y))"""
    if not stmts:
        return "[]"
    s, rest = stmts[0], stmts[1:]
    if isinstance(s, ast.If) and not s.orelse:
        c = tr.bexpr(s.test)
        here = f"(if {c} then {_vor_body(list(s.body), tr)} else [])"
        return here if not rest else f"({here} ++ {_vor_body(rest, tr)})"
    if isinstance(s, ast.Expr) and isinstance(s.value, ast.Call) and isinstance(s.value.func, ast.Attribute) \
            and s.value.func.attr == "connect" and len(s.value.args) == 2 and not s.value.keywords:
        src, (tgt, key) = s.value.func.value, s.value.args
        for x in (src, tgt):
            if not (isinstance(x, ast.Subscript) and ast.unparse(x.value) == "self._cells"):
                raise pyexpr.Unsupported("connect is not between self._cells[...] entries")
        x, kx = tr.expr(src.slice)
        y, ky = tr.expr(tgt.slice)
        k, kk = tr.expr(key)
        if kx != "Z" or ky != "Z" or kk != "tuple":
            raise pyexpr.Unsupported("kinds in the connect call")
        return f"(({x}, ({k}, {y})) :: {_vor_body(rest, tr)})"
    raise pyexpr.Unsupported(f"statement {type(s).__name__} in the connect loops")


def _pair_loop(outer, want_iter):
    """for T in <want_iter>: for i, j in combinations(T, 2): body   ->  (T name, (i, j), body)"""
    if not (isinstance(outer, ast.For) and isinstance(outer.target, ast.Name) and ast.unparse(outer.iter) == want_iter
            and len(outer.body) == 1 and isinstance(outer.body[0], ast.For) and not outer.orelse):
        raise T.Broken(f"expected `for <t> in {want_iter}: for i, j in combinations(<t>, 2): ...`")
    inner = outer.body[0]
    if ast.unparse(inner.iter) != f"combinations({outer.target.id}, 2)" or not (
            isinstance(inner.target, ast.Tuple) and len(inner.target.elts) == 2
            and all(isinstance(x, ast.Name) for x in inner.target.elts)) or inner.orelse:
        raise T.Broken("inner loop is not over combinations(<t>, 2)")
    return outer.target.id, tuple(x.id for x in inner.target.elts), list(inner.body)


def c_vor_connect():
    fn = T._find_func(_cls(VOR, "VoronoiGrid"), "_connect_cells")
    st = _stmts(fn)
    nrm = _norm(fn)
    if len(st) != 4 or len(nrm) != 4 or nrm[0] != "self.triangulation = Delaunay()" \
            or nrm[1] != "for v0 in self.centroids_coordinates:\n    self.triangulation.add_point(v0)":
        raise T.Broken("expected: triangulation = Delaunay(); add every centroid; two connect loops")
    parts = []
    try:
        for loop, it, arg in ((st[2], "self.triangulation.export_triangles()", "exported"),
                              (st[3], "self.triangulation.triangles", "triangles")):
            tname, (i, j), body = _pair_loop(loop, it)
            tr = pyexpr.Tr()
            parts.append(f"(flat_map (fun {tname} => flat_map (fun '({i}, {j}) => {_vor_body(body, tr)}) (comb2 {tname})) {arg})")
    except pyexpr.Unsupported as e:
        raise T.Broken(f"VoronoiGrid._connect_cells outside the translated subset: {e}") from None
    return ("Definition gen_vor_connect (exported triangles : list (Z * Z * Z)) : list (Z * ((Z * Z) * Z)) :=\n"
            f"  {parts[0]} ++\n  {parts[1]}.")


# ------------------------------------------------------------------ Network
def c_net_connect():
    k = _cls(NET, "Network")
    fn = T._find_func(k, "_connect_single_cell")
    if _args(fn) != ["self", "cell"]:
        raise T.Broken("parameters of Network._connect_single_cell")
    st = _stmts(fn)
    if len(st) != 1 or not isinstance(st[0], ast.For) or ast.unparse(st[0].iter) != "self.G.neighbors(cell.coordinate)" \
            or not isinstance(st[0].target, ast.Name):
        raise T.Broken("expected `for <node> in self.G.neighbors(cell.coordinate): ...`")
    loop = st[0]
    var = loop.target.id
    body = list(loop.body)
    if len(body) != 1:
        raise T.Broken("loop body is not a single connect call")
    c = body[0]
    if not (isinstance(c, ast.Expr) and isinstance(c.value, ast.Call) and ast.unparse(c.value.func) == "cell.connect"
            and len(c.value.args) == 2 and not c.value.keywords):
        raise T.Broken("loop body is not cell.connect(target, key)")
    tgt, key = c.value.args
    if not (isinstance(tgt, ast.Subscript) and ast.unparse(tgt.value) == "self._cells"):
        raise T.Broken("connect target is not self._cells[...]")
    tr = pyexpr.Tr()
    try:
        t, kt = tr.expr(tgt.slice)
        kk, kkk = tr.expr(key)
    except pyexpr.Unsupported as e:
        raise T.Broken(f"Network._connect_single_cell outside the translated subset: {e}") from None
    if kt != "Z" or kkk != "Z":
        raise T.Broken("node ids are expected to be integers in the model")
    init = _norm(T._find_func(k, "__init__"))
    want = ["super().__init__(capacity=capacity, random=random, cell_klass=cell_klass)", "self.G = G",
            "for v0 in self.G.nodes:\n    self._cells[v0] = self.cell_klass(v0, capacity, random=self.random)",
            "self._connect_cells()"]
    if init != want:
        raise T.Broken("Network.__init__ changed")
    if _norm(T._find_func(k, "_connect_cells")) != ["for v0 in self.all_cells:\n    self._connect_single_cell(v0)"]:
        raise T.Broken("Network._connect_cells changed")
    return ("(* one (key, target) per graph neighbour, in the order G.neighbors yields them *)\n"
            f"Definition gen_net_connect (neighbors : list Z) : list (Z * Z) :=\n"
            f"  flat_map (fun {var} => [({kk}, {t})]) neighbors.")


def _fb(t):
    return lambda: t


CONSTRUCTS = [
    ("grid_connect_2d_code", GRID, c_connect_2d,
     _fb("Definition gen_connect_2d (torus : bool) (height width i j : Z) (offsets : list (Z * Z)) : list ((Z * Z) * (Z * Z)) := [].")),
    ("grid_connect_nd_code", GRID, c_connect_nd,
     _fb("Definition gen_connect_nd (torus : bool) (dimensions coord : list Z) (offsets : list (list Z)) : list (list Z * list Z) := [].")),
    ("grid_moore_nd_construction", GRID, c_moore_nd, _fb("Definition gen_moore_axis : list Z := [].")),
    ("grid_vn_nd_construction", GRID, c_vn_nd, _fb("Definition gen_vn_deltas : list Z := [].")),
    ("grid_dispatch_skeleton", GRID, c_dispatch, _fb("Definition gen_grid_dispatch_skeleton_ok : bool := false.")),
    ("cell_connect_skeleton", CELL, c_cell_connect, _fb("Definition gen_cell_connect_skeleton_ok : bool := false.")),
    ("cell_nbhd_conditions_code", CELL, c_nbhd_conditions,
     _fb("Definition gen_nbhd_invalid (radius : Z) : bool := true.\nDefinition gen_nbhd_base (radius : Z) : bool := true.\n"
         "Definition gen_nbhd_add_center (include_center : bool) : bool := false.\n"
         "Definition gen_nbhd_rec_radius (radius : Z) (include_center : bool) : Z := radius.\n"
         "Definition gen_nbhd_rec_center (radius : Z) (include_center : bool) : bool := false.")),
    ("cell_nbhd_skeleton", CELL, c_nbhd_skeleton, _fb("Definition gen_cell_nbhd_skeleton_ok : bool := false.")),
    ("vor_export_code", VOR, c_vor_export, _fb("Definition gen_vor_export (triangles : list (Z * Z * Z)) : list (Z * Z * Z) := [].")),
    ("vor_connect_code", VOR, c_vor_connect,
     _fb("Definition gen_vor_connect (exported triangles : list (Z * Z * Z)) : list (Z * ((Z * Z) * Z)) := [].")),
    ("net_connect_code", NET, c_net_connect, _fb("Definition gen_net_connect (neighbors : list Z) : list (Z * Z) := [].")),
]
