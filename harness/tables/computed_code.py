"""T1 (code level) for mesa/experimental/mesa_signals/mesa_signal.py - the methods Model/Computed.v
transcribes are TRANSLATED from the working tree into Gallina state transformers over the model's state:

  gen_obs_get        BaseObservable.__get__        (value; _add_parent + PROCESSING_SIGNALS.add when evaluating)
  gen_obs_set        Observable.__set__            (cycle test, notify, store, clear condition)
  gen_comp_get       Computable.__get__            (cached value, call, register returned value, notify when changed)
  gen_set_dirty      Computed._set_dirty           (dirty test, mark, cascade)
  gen_add_parent     Computed._add_parent          (subscribe, remember)
  gen_remove_parents Computed._remove_parents      (unsubscribe, forget - in this order)
  gen_call           Computed.__call__             (dirty / first tests, comparison loop only if not changed, rebuild
                                                    order, clean, return)
  gen_cmp_changed    the test inside the comparison loop of __call__

Control flow (if / else nesting, the conditions with their and / or / not structure, the ORDER of the statements,
which variables a branch re-binds, what is returned / raised) comes from the source; the leaves are a fixed
dictionary  source statement text -> model primitive  (object plumbing: getattr / setattr / notify / observe ...).
A statement or condition that is not in the dictionary makes the construct translator-broken.  The loop nest of
__call__, the try/finally blocks and Computable.__set__ cannot be translated (weak references, for/else/break,
exceptions): they are checked verbatim (gen_signal_skeleton_ok).  Proofs/ComputedBridge.v proves
`model function = generated function`."""
import ast

import pyexpr
import translate as T

SRC = "mesa/experimental/mesa_signals/mesa_signal.py"
C = "Computed."          # Model/Computed.v is required, not imported: everything is qualified

HEADER = """From Mesa Require Model.Computed.
(* C17: leaves of the translated signal code (object plumbing of mesa_signal.py as model primitives) *)
Definition sig_cur_some (c : option nat) : bool := match c with Some _ => true | None => false end.
Definition sig_cur_get (c : option nat) : nat := match c with Some j => j | None => O end.
Definition sig_cached (st : Computed.state) (k : nat) : option Z :=
  if Computed.first st k then None else Some (Computed.value st k).      (* computed._value, None before the first run *)
Definition sig_changed (old : option Z) (v : Z) : bool :=
  match old with None => true | Some x => negb (v =? x) end.              (* new_value != old_value *)
Definition sig_get (old : option Z) : Z := match old with Some x => x | None => 0 end.
Definition sig_subscribe (st : Computed.state) (j : nat) (s : Computed.src) : Computed.state :=
  Computed.upd_subs st (Computed.upds (Computed.subs st) s (Computed.subs st s ++ [j])).
Definition sig_remember (prog : list Computed.cdef) (st : Computed.state) (j : nat) (s : Computed.src) (v : Z) : Computed.state :=
  Computed.upd_parents st (Computed.updn (Computed.parents st) j
     (Computed.padd (Computed.parents st j) (Computed.owner_of prog s) s v)).
Definition sig_unsubscribe_parents (prog : list Computed.cdef) (st : Computed.state) (j : nat) : Computed.state :=
  Computed.upd_subs st (fun s => if existsb (Z.eqb (Computed.owner_of prog s)) (map fst (Computed.parents st j))
                                 then Computed.remove_nat j (Computed.subs st s) else Computed.subs st s).
Definition sig_forget (st : Computed.state) (j : nat) : Computed.state :=
  Computed.upd_parents st (Computed.updn (Computed.parents st) j []).
Definition sig_store_set (st : Computed.state) (o nm v : Z) : Computed.state :=
  Computed.upd_store st (fun o' n' => if (o' =? o) && (n' =? nm) then v else Computed.store st o' n').
Definition sig_mark (st : Computed.state) (c : nat) (b : bool) : Computed.state :=
  Computed.upd_dirty st (Computed.updn (Computed.dirty st) c b).
Definition sig_loop (changed : bool) (r : Computed.state * bool) : Computed.state * bool := (fst r, changed || snd r).
"""


class SigTr(pyexpr.Tr):
    """imperative block -> functional Gallina over an implicit state variable `st`.
    atoms : unparse(expression) -> (gallina text, kind)       kind in Z | bool | optZ
    prims : unparse(statement)  -> ('st', text)               st := text
                                   ('bind', name, kind, text) '(st, name) := text
                                   ('skip',)                  no effect on the model state"""

    def __init__(self, atoms, prims, ret, end=None, raises=None):
        super().__init__()
        self.atoms = atoms
        self.prims = prims
        self.ret = ret            # value text -> Gallina result
        self.end = end            # result when control reaches the end of the function (None: not allowed)
        self.raises = raises
        self.scope = {}

    def expr(self, e):
        key = ast.unparse(e)
        if key in self.atoms:
            return self.atoms[key]
        if isinstance(e, ast.Name) and e.id in self.scope:
            return e.id, self.scope[e.id]
        if isinstance(e, (ast.Name, ast.Attribute, ast.Call, ast.Subscript)):
            raise pyexpr.Unsupported(f"expression not in the dictionary: {key}")
        return super().expr(e)

    def _assigned(self, stmts):
        out = []
        for s in stmts:
            for n in ast.walk(s):
                key = None
                if isinstance(n, ast.Assign) and len(n.targets) == 1 and isinstance(n.targets[0], ast.Name):
                    key = n.targets[0].id
                if isinstance(n, ast.stmt):
                    p = self.prims.get(ast.unparse(n))
                    if p and p[0] == "bind":
                        key = p[1]
                if key and key in self.scope and key not in out:
                    out.append(key)
        return out

    def block(self, stmts, cont):
        if not stmts:
            return cont()
        s, rest = stmts[0], list(stmts[1:])
        if isinstance(s, ast.Expr) and isinstance(s.value, ast.Constant) and isinstance(s.value.value, str):
            return self.block(rest, cont)
        if isinstance(s, ast.Global):
            return self.block(rest, cont)
        key = ast.unparse(s)
        if key in self.prims:
            p = self.prims[key]
            if p[0] == "skip":
                return self.block(rest, cont)
            if p[0] == "st":
                return f"(let st := {p[1]} in\n {self.block(rest, cont)})"
            if p[0] == "bind":
                self.scope[p[1]] = p[2]
                return f"(let '(st, {p[1]}) := {p[3]} in\n {self.block(rest, cont)})"
        if isinstance(s, ast.Return):
            t, k = self.expr(s.value)
            return self.ret(t, k)
        if isinstance(s, ast.Raise):
            if self.raises is None:
                raise pyexpr.Unsupported("raise")
            return self.raises
        if isinstance(s, ast.Assign) and len(s.targets) == 1 and isinstance(s.targets[0], ast.Name):
            t, k = self.expr(s.value)
            self.scope[s.targets[0].id] = k
            return f"(let {s.targets[0].id} := {t} in\n {self.block(rest, cont)})"
        if isinstance(s, ast.If):
            c = self.bexpr(s.test)
            body, orelse = list(s.body), list(s.orelse)
            bt, ot = self._terminates(body), bool(orelse) and self._terminates(orelse)
            if bt and ot:
                return f"(if {c} then {self.block(body, self._noend)} else {self.block(orelse, self._noend)})"
            if bt:
                return f"(if {c} then {self.block(body, self._noend)} else {self.block(orelse + rest, cont)})"
            if ot:
                return f"(if {c} then {self.block(body + rest, cont)} else {self.block(orelse, self._noend)})"
            vs = self._assigned(body + orelse)
            tup = "(" + ", ".join(["st"] + vs) + ")" if vs else "st"
            pat = "'" + tup if vs else "st"
            saved = dict(self.scope)
            a = self.block(body, lambda: tup)
            self.scope = dict(saved)
            b = self.block(orelse, lambda: tup)
            self.scope = saved
            return f"(let {pat} := (if {c} then {a} else {b}) in\n {self.block(rest, cont)})"
        raise pyexpr.Unsupported(f"statement not in the dictionary: {key[:80]}")

    def _noend(self):
        raise pyexpr.Unsupported("control reaches the end of a branch that should return")

    def bexpr(self, e):
        t, k = self.expr(e)
        if k != "bool":
            raise pyexpr.Unsupported(f"a boolean was expected: {ast.unparse(e)}")
        return t


def _cls(name):
    return T._find_class(T._parse(SRC), name)


KEEP = ("CURRENT_COMPUTED", "PROCESSING_SIGNALS")     # module globals a method may assign: part of the interface


def _norm(fn):
    """the function modulo what does not matter: local variables (and `except ... as` names) renamed v0, v1, ...
    in order of first binding (pyexpr.local_names), the TEXT of exception messages replaced by '<msg>'; docstrings,
    comments and formatting are not in the ast / are skipped by the translator.  Parameters and the module
    globals CURRENT_COMPUTED / PROCESSING_SIGNALS keep their names."""
    import copy

    fn = copy.deepcopy(fn)
    names = pyexpr.local_names(fn, KEEP)
    for n in ast.walk(fn):
        if isinstance(n, ast.ExceptHandler) and n.name and n.name not in names:
            names.append(n.name)
    mapping = {n: f"v{i}" for i, n in enumerate(names)}
    fn = pyexpr._Renamer(mapping).visit(fn)
    for n in ast.walk(fn):
        if isinstance(n, ast.ExceptHandler) and n.name in mapping:
            n.name = mapping[n.name]
        if isinstance(n, ast.Raise) and isinstance(n.exc, ast.Call):
            n.exc.args = [ast.Constant("<msg>") if isinstance(a, (ast.Constant, ast.JoinedStr)) else a for a in n.exc.args]
    return ast.fix_missing_locations(fn)


def _fn(cls, name, params):
    fn = T._find_func(_cls(cls), name)
    got = [a.arg for a in fn.args.args]
    if got != params:
        raise T.Broken(f"unexpected parameters of {cls}.{name}: {got}")
    return _norm(fn)


def _run(tr, fn, what):
    try:
        end = (lambda: tr.end) if tr.end is not None else tr._noend
        return tr.block(list(fn.body), end)
    except pyexpr.Unsupported as e:
        raise T.Broken(f"{what} is outside the translated subset: {e}") from None


CUR_SOME = {"CURRENT_COMPUTED is not None": ("(sig_cur_some cur)", "bool"),
            "CURRENT_COMPUTED is None": ("(negb (sig_cur_some cur))", "bool")}
INSIDE = {"CURRENT_COMPUTED is not None": ("inside", "bool"),
          "CURRENT_COMPUTED is None": ("(negb inside)", "bool")}


def _pair(t, k):
    return f"(st, {t})"


def c_obs_get():
    fn = _fn("BaseObservable", "__get__", ["self", "instance", "owner"])
    atoms = dict(CUR_SOME)
    atoms["getattr(instance, self.private_name)"] = (f"({C}store st o nm)", "Z")
    prims = {
        "CURRENT_COMPUTED._add_parent(instance, self.public_name, v0)":
            ("st", f"{C}add_parent prog st (sig_cur_get cur) ({C}SObs o nm) v0"),
        "PROCESSING_SIGNALS.add(_hashable_signal(instance, self.public_name))":
            ("st", f"{C}upd_ps st ((o, nm) :: {C}ps st)"),
    }
    body = _run(SigTr(atoms, prims, _pair), fn, "BaseObservable.__get__")
    return (f"Definition gen_obs_get (prog : list {C}cdef) (cur : option nat) (st : {C}state) (o nm : Z) : {C}state * Z :=\n  {body}.")


def c_obs_set():
    fn = _fn("Observable", "__set__", ["self", "instance", "value"])
    atoms = dict(INSIDE)
    atoms["_hashable_signal(instance, self.public_name) in PROCESSING_SIGNALS"] = (f"({C}ps_mem o nm ({C}ps st))", "bool")
    prims = {
        "super().__set__(instance, value)": ("st", f"{C}notify prog st ({C}SObs o nm)"),
        "setattr(instance, self.private_name, value)": ("st", "sig_store_set st o nm value"),
        "PROCESSING_SIGNALS.clear()": ("st", f"{C}upd_ps st []"),
    }
    tr = SigTr(atoms, prims, _pair, end="(Some st)", raises="None")
    body = _run(tr, fn, "Observable.__set__")
    return (f"Definition gen_obs_set (prog : list {C}cdef) (inside : bool) (st : {C}state) (o nm value : Z) : option {C}state :=\n  {body}.")


def c_comp_get():
    fn = _fn("Computable", "__get__", ["self", "instance", "owner"])
    atoms = dict(CUR_SOME)
    # locals in binding order: v0 = the Computed, v1 = its cached value, v2 = the value returned by the call
    atoms["v0._value"] = ("(sig_cached st k)", "optZ")
    atoms["v2 != v1"] = ("(sig_changed v1 v2)", "bool")
    atoms["v1 != v2"] = ("(sig_changed v1 v2)", "bool")
    atoms["v2 == v1"] = ("(negb (sig_changed v1 v2))", "bool")
    atoms["v1 == v2"] = ("(negb (sig_changed v1 v2))", "bool")
    prims = {
        "v0 = getattr(instance, self.private_name)": ("skip",),
        "v2 = v0()": ("bind", "v2", "Z", "call st k"),
        "CURRENT_COMPUTED._add_parent(instance, self.public_name, v2)":
            ("st", f"{C}add_parent prog st (sig_cur_get cur) ({C}SComp k) v2"),
        "instance.notify(self.public_name, v1, v2, 'change')": ("st", f"{C}notify prog st ({C}SComp k)"),
    }

    def ret(t, k):
        return f"(st, sig_get {t})" if k == "optZ" else f"(st, {t})"
    body = _run(SigTr(atoms, prims, ret), fn, "Computable.__get__")
    return (f"Definition gen_comp_get (prog : list {C}cdef) (call : {C}state -> nat -> {C}state * Z) (cur : option nat) "
            f"(st : {C}state) (k : nat) : {C}state * Z :=\n  {body}.")


def c_set_dirty():
    fn = _fn("Computed", "_set_dirty", ["self", "signal"])
    atoms = {"self._is_dirty": (f"({C}dirty st c)", "bool")}
    prims = {
        "self._is_dirty = True": ("st", "sig_mark st c true"),
        "self.owner.notify(self.name, self._value, None, 'change')": ("st", "notify_own st"),
    }
    body = _run(SigTr(atoms, prims, _pair, end="st"), fn, "Computed._set_dirty")
    return (f"Definition gen_set_dirty (notify_own : {C}state -> {C}state) (st : {C}state) (c : nat) : {C}state :=\n  {body}.")


TRY_REMEMBER = ("try:\n    self.parents[parent][name] = current_value\n"
                "except KeyError:\n    self.parents[parent] = {name: current_value}")


def c_add_parent():
    fn = _fn("Computed", "_add_parent", ["self", "parent", "name", "current_value"])
    prims = {
        "parent.observe(name, All(), self._set_dirty)": ("st", "sig_subscribe st j s"),
        TRY_REMEMBER: ("st", "sig_remember prog st j s current_value"),
    }
    body = _run(SigTr({}, prims, _pair, end="st"), fn, "Computed._add_parent")
    return (f"Definition gen_add_parent (prog : list {C}cdef) (st : {C}state) (j : nat) (s : {C}src) (current_value : Z) : {C}state :=\n  {body}.")


FOR_UNSUB = "for v0 in self.parents:\n    v0.unobserve(All(), All(), self._set_dirty)"


def c_remove_parents():
    fn = _fn("Computed", "_remove_parents", ["self"])
    prims = {
        FOR_UNSUB: ("st", "sig_unsubscribe_parents prog st j"),
        "self.parents.clear()": ("st", "sig_forget st j"),
    }
    body = _run(SigTr({}, prims, _pair, end="st"), fn, "Computed._remove_parents")
    return (f"Definition gen_remove_parents (prog : list {C}cdef) (st : {C}state) (j : nat) : {C}state :=\n  {body}.")


# locals of __call__ in binding order: v0 changed, v1 parent, v2 old, v3 name, v4 old_value, v5 outer, v6 new_value, v7 e
LOOP_SKELETON = """for v1 in self.parents.keyrefs():
    if (v1 := v1()) is not None:
        for v3, v4 in self.parents[v1].items():
            v5, CURRENT_COMPUTED = (CURRENT_COMPUTED, None)
            try:
                v6 = getattr(v1, v3)
            finally:
                CURRENT_COMPUTED = v5
            if COND:
                v0 = True
                break
        else:
            continue
        break
    else:
        v0 = True
        break"""
TRY_EVAL = ("try:\n    self._value = self.func(*self.args, **self.kwargs)\nexcept Exception as v7:\n    raise v7\n"
            "finally:\n    CURRENT_COMPUTED = v2")


def _call_fn():
    return _fn("Computed", "__call__", ["self"])


def _loop(fn):
    loops = [n for n in ast.walk(fn) if isinstance(n, ast.For) and ast.unparse(n.iter) == "self.parents.keyrefs()"]
    if len(loops) != 1:
        raise T.Broken(f"expected one loop over self.parents.keyrefs(), found {len(loops)}")
    loop = loops[0]
    tests = [n for n in ast.walk(loop) if isinstance(n, ast.If) and isinstance(n.test, ast.Compare)
             or isinstance(n, ast.If) and isinstance(n.test, (ast.BoolOp, ast.UnaryOp))]
    tests = [n for n in tests if "v6" in ast.unparse(n.test) and "v4" in ast.unparse(n.test)]
    if len(tests) != 1:
        raise T.Broken(f"expected one test on new_value inside the comparison loop, found {len(tests)}")
    return loop, tests[0]


def c_cmp_changed():
    _, test = _loop(_call_fn())
    try:
        t = pyexpr.Tr().bexpr(test.test)
    except pyexpr.Unsupported as e:
        raise T.Broken(f"comparison test outside the translated subset: {e}") from None
    return f"Definition gen_cmp_changed (v6 v4 : Z) : bool :=\n  {t}."


def c_call():
    fn = _call_fn()
    loop, test = _loop(fn)
    atoms = {"self._is_dirty": (f"({C}dirty st j)", "bool"), "self._first": (f"({C}first st j)", "bool"),
             "self._value": (f"({C}value st j)", "Z")}
    prims = {
        "self._first = False": ("st", f"{C}upd_first st ({C}updn ({C}first st) j false)"),
        ast.unparse(loop): ("bind", "v0", "bool", "sig_loop v0 (cmp st)"),
        "self._remove_parents()": ("st", f"{C}remove_parents prog st j"),
        "v2 = CURRENT_COMPUTED": ("skip",),
        "CURRENT_COMPUTED = self": ("skip",),
        TRY_EVAL: ("st", "evalf st"),
        "self._is_dirty = False": ("st", "sig_mark st j false"),
    }
    body = _run(SigTr(atoms, prims, _pair), fn, "Computed.__call__")
    return (f"Definition gen_call (prog : list {C}cdef) (cmp : {C}state -> {C}state * bool) (evalf : {C}state -> {C}state) "
            f"(st : {C}state) (j : nat) : {C}state * Z :=\n  {body}.")


SET_SKELETON = [
    "if not isinstance(value, Computed):\n    raise ValueError('<msg>')",
    "setattr(instance, self.private_name, value)",
    "value.name = self.public_name",
    "value.owner = instance",
    "getattr(instance, self.public_name)",
]
BASE_SET = ["instance.notify(self.public_name, getattr(instance, self.private_name, self.fallback_value), value, 'change')"]


def _stmts(fn):
    return [ast.unparse(s) for s in fn.body
            if not (isinstance(s, ast.Expr) and isinstance(s.value, ast.Constant) and isinstance(s.value.value, str))]


def c_skeleton():
    """what cannot be translated, statement for statement MODULO the names of locals, exception message texts,
    docstrings, comments and formatting (_norm): the for/else/break nest over weak references in __call__ (with the
    translated test cut out), the evaluation try/finally, Computable.__set__ (install = forced read),
    BaseObservable.__set__ (the notify Observable.__set__ calls through super())"""
    fn = _call_fn()
    loop, test = _loop(fn)
    txt = ast.unparse(loop).replace("if " + ast.unparse(test.test) + ":", "if COND:", 1)
    if txt != LOOP_SKELETON:
        got, want = txt.splitlines(), LOOP_SKELETON.splitlines()
        d = [f"{a!r} != {b!r}" for a, b in zip(got, want) if a != b] or [f"{len(got)} lines, expected {len(want)}"]
        raise T.Broken("comparison loop of Computed.__call__ changed: " + d[0][:200])
    if _stmts(_fn("Computable", "__set__", ["self", "instance", "value"])) != SET_SKELETON:
        raise T.Broken("Computable.__set__ changed")
    if _stmts(_fn("BaseObservable", "__set__", ["self", "instance", "value"])) != BASE_SET:
        raise T.Broken("BaseObservable.__set__ changed")
    return "Definition gen_signal_skeleton_ok : bool := true."


def _fb(sig):
    return lambda: sig


CONSTRUCTS = [
    ("signal_skeleton", SRC, c_skeleton, _fb("Definition gen_signal_skeleton_ok : bool := false.")),
    ("signal_obs_get_code", SRC, c_obs_get,
     _fb(f"Definition gen_obs_get (prog : list {C}cdef) (cur : option nat) (st : {C}state) (o nm : Z) : {C}state * Z := (st, 0).")),
    ("signal_obs_set_code", SRC, c_obs_set,
     _fb(f"Definition gen_obs_set (prog : list {C}cdef) (inside : bool) (st : {C}state) (o nm value : Z) : option {C}state := None.")),
    ("signal_comp_get_code", SRC, c_comp_get,
     _fb(f"Definition gen_comp_get (prog : list {C}cdef) (call : {C}state -> nat -> {C}state * Z) (cur : option nat) (st : {C}state) (k : nat) : {C}state * Z := (st, 0).")),
    ("signal_set_dirty_code", SRC, c_set_dirty,
     _fb(f"Definition gen_set_dirty (notify_own : {C}state -> {C}state) (st : {C}state) (c : nat) : {C}state := st.")),
    ("signal_add_parent_code", SRC, c_add_parent,
     _fb(f"Definition gen_add_parent (prog : list {C}cdef) (st : {C}state) (j : nat) (s : {C}src) (current_value : Z) : {C}state := st.")),
    ("signal_remove_parents_code", SRC, c_remove_parents,
     _fb(f"Definition gen_remove_parents (prog : list {C}cdef) (st : {C}state) (j : nat) : {C}state := st.")),
    ("signal_cmp_changed_code", SRC, c_cmp_changed,
     _fb("Definition gen_cmp_changed (new_value old_value : Z) : bool := false.")),
    ("signal_call_code", SRC, c_call,
     _fb(f"Definition gen_call (prog : list {C}cdef) (cmp : {C}state -> {C}state * bool) (evalf : {C}state -> {C}state) (st : {C}state) (j : nat) : {C}state * Z := (st, 0).")),
]
