"""T1 (code level) for C08 - the legacy grids of mesa/space.py.  Regenerated from the working tree on every run:

  pure functions (harness/pyexpr.py)   gen_torus_adj, gen_distance_squared, gen_is_cell_empty,
                                       gen_move_to_empty_branch (the `== 0` test and the cutoff branch),
                                       gen_closest_step / gen_closest (the selection loop of
                                       move_agent_to_one_of(selection="closest"))
  method bodies as a statement DSL     gen_body_single_place / _single_remove / _multi_place / _multi_remove /
  (lg_stmt, interpreted in             _grid_move / _single_move: every statement of SingleGrid/MultiGrid.place_agent /
   Proofs/LegacyGridBridge.v)          remove_agent, _Grid.move_agent and SingleGrid.move_agent is translated (fail
                                       closed) into an instruction; the bridge lemmas prove that interpreting them
                                       IS the model function, by case analysis (so re-ordering independent
                                       statements or re-shaping an if/else keeps checking, a semantic change breaks)
  verbatim skeletons (glue only)       gen_swap_pos_skeleton_ok, gen_move_to_empty_skeleton_ok,
                                       gen_move_one_of_skeleton_ok

Loaded after legacy_nbhd_code.py (file-name order): gen_out_of_bounds is reused from there."""
import ast

import pyexpr
import translate as T

SRC = "mesa/space.py"
ATTRS = {"width": "w", "height": "h", "torus": "torus"}

HEADER = """(* --- C08 code-level T1 (harness/tables/legacy_space_code.py) --- *)
Definition gen_is_default (l : list Z) : bool := match l with [] => true | _ => false end.

(* statement DSL for the bodies of the legacy-grid place / remove / move methods *)
Inductive lg_cond :=
| LCBuilt                 (* self._empties_built *)
| LCCellEmpty             (* self.is_cell_empty(pos) *)
| LCAgentPosNone          (* agent.pos is None *)
| LCAgentInCell           (* agent in self._grid[x][y] *)
| LCOccNone               (* occupant is None        (occupant = self._grid[x][y]) *)
| LCOccIsAgent            (* occupant is agent *)
| LCNot (c : lg_cond) | LCAnd (a b : lg_cond) | LCOr (a b : lg_cond).
Inductive lg_idx := LIPos | LIAgentPos.          (* self._empty_mask[pos] / [agent.pos] *)
Inductive lg_stmt :=
| LSBindPosAgent          (* pos = agent.pos   /   (pos := agent.pos) *)
| LSTorusAdj              (* pos = self.torus_adj(pos) *)
| LSUnpack                (* x, y = pos *)
| LSBindOccupant          (* occupant = self._grid[x][y] *)
| LSCellSetAgent          (* self._grid[x][y] = agent *)
| LSCellSetDefault        (* self._grid[x][y] = self.default_val() *)
| LSCellAppend            (* self._grid[x][y].append(agent) *)
| LSCellRemove            (* self._grid[x][y].remove(agent) *)
| LSEmptiesDiscard        (* self._empties.discard(pos) *)
| LSEmptiesAdd            (* self._empties.add(pos) *)
| LSMask (i : lg_idx) (v : bool)   (* self._empty_mask[i] = v *)
| LSPosSet                (* agent.pos = pos *)
| LSPosClear              (* agent.pos = None *)
| LSCallRemove            (* self.remove_agent(agent) *)
| LSCallPlace             (* self.place_agent(agent, pos) *)
| LSCallSuperMove         (* super().move_agent(agent, pos) *)
| LSRaise (k : Z)         (* raise Exception(<message of kind k>) *)
| LSReturn
| LSIf (c : lg_cond) (th el : list lg_stmt)."""


def _cls(name):
    return T._find_class(T._parse(SRC), name)


def _params(fn, want):
    got = [a.arg for a in fn.args.args]
    if got != want:
        raise T.Broken(f"unexpected parameters of {fn.name}: {got}")


def _nodoc(stmts):
    return [s for s in stmts if not (isinstance(s, ast.Expr) and isinstance(s.value, ast.Constant) and isinstance(s.value.value, str))]


def _rename(fn, mapping):
    """a deep copy of fn with the LOCAL names of `mapping` renamed (parameters are interface: never renamed)"""
    import copy
    return pyexpr._Renamer({k: v for k, v in mapping.items() if k != v}).visit(copy.deepcopy(fn))


def _vnorm(fn):
    """fn with every local variable renamed v0, v1, ... in order of first binding (pyexpr.local_names)"""
    return _rename(fn, {n: f"v{i}" for i, n in enumerate(pyexpr.local_names(fn))})


def _canon_by_order(fn, ref):
    """rename the locals of fn (order of first binding) onto the names the reference source uses, so that the
    role-specific checks below can be written with readable names and still ignore how the locals are called"""
    cur = pyexpr.local_names(fn)
    if len(cur) != len(ref):
        raise T.Broken(f"{fn.name}: {len(cur)} local variables ({cur}), the transcribed code has {len(ref)} ({ref})")
    tmp = _rename(fn, {n: f"__t{i}" for i, n in enumerate(cur)})         # two steps: a swap of names must not collide
    return _rename(tmp, {f"__t{i}": r for i, r in enumerate(ref)})


def _canon_body(fn):
    """place / remove / move bodies: rename by ROLE - the variable holding the position (bound from agent.pos),
    the two unpacked coordinates, the occupant read from the cell"""
    for n in ast.walk(fn):
        tgt = None
        if isinstance(n, ast.Assign) and len(n.targets) == 1 and isinstance(n.targets[0], ast.Name) and ast.unparse(n.value) == "agent.pos":
            tgt = n.targets[0].id
        elif isinstance(n, ast.NamedExpr) and ast.unparse(n.value) == "agent.pos":
            tgt = n.target.id
        if tgt is not None and tgt != "pos":
            fn = _rename(fn, {tgt: "pos"})
            break
    for n in ast.walk(fn):
        if isinstance(n, ast.Assign) and len(n.targets) == 1 and isinstance(n.targets[0], ast.Tuple) and len(n.targets[0].elts) == 2 \
                and all(isinstance(e, ast.Name) for e in n.targets[0].elts) and ast.unparse(n.value) == "pos":
            a, b = (e.id for e in n.targets[0].elts)
            tmp = _rename(fn, {a: "__x", b: "__y"})
            fn = _rename(tmp, {"__x": "x", "__y": "y"})
            break
    for n in ast.walk(fn):
        if isinstance(n, ast.Assign) and len(n.targets) == 1 and isinstance(n.targets[0], ast.Name) and ast.unparse(n.value) == "self._grid[x][y]":
            fn = _rename(fn, {n.targets[0].id: "occupant"})
            break
    return fn


def _msg(txt):
    """the text of a statement with the MESSAGE of every raise / warn abstracted"""
    import re
    txt = re.sub(r"raise (\w+)\(.*\)$", r"raise \1(<msg>)", txt, flags=re.S)
    return re.sub(r"\bwarn\(.*?, (\w+Warning)", r"warn(<msg>, \1", txt, flags=re.S)


def _oob_call(args):
    if len(args) != 1 or args[0][1] != "tuple":
        raise pyexpr.Unsupported("out_of_bounds argument")
    return f"(gen_out_of_bounds w h {args[0][0]})", "bool"


# ------------------------------------------------------------------ pure functions
def c_torus_adj():
    fn = T._find_func(_cls("_Grid"), "torus_adj")
    _params(fn, ["self", "pos"])
    tr = pyexpr.Tr(bool_names=["torus"], attr_map=ATTRS, tuple_names=["pos"], call_map={"self.out_of_bounds": _oob_call})
    try:
        body = tr.body(list(fn.body), "option tuple")
    except pyexpr.Unsupported as e:
        raise T.Broken(f"torus_adj is outside the translated subset: {e}") from None
    return f"Definition gen_torus_adj (w h : Z) (torus : bool) (pos : Z * Z) : option (Z * Z) :=\n  {body}."


def c_torus_adj_2d():
    fn = T._find_func(_cls("_HexGrid"), "torus_adj_2d")
    _params(fn, ["self", "pos"])
    tr = pyexpr.Tr(attr_map=ATTRS, tuple_names=["pos"])
    try:
        body = tr.body(list(fn.body), "tuple")
    except pyexpr.Unsupported as e:
        raise T.Broken(f"torus_adj_2d is outside the translated subset: {e}") from None
    return f"Definition gen_torus_adj_2d (w h : Z) (pos : Z * Z) : Z * Z :=\n  {body}."


def c_distance_squared():
    fn = T._find_func(_cls("_Grid"), "_distance_squared")
    _params(fn, ["self", "pos1", "pos2"])
    tr = pyexpr.Tr(bool_names=["torus"], attr_map=ATTRS, tuple_names=["pos1", "pos2"])
    try:
        body = tr.body(list(fn.body), "Z")
    except pyexpr.Unsupported as e:
        raise T.Broken(f"_distance_squared is outside the translated subset: {e}") from None
    return f"Definition gen_distance_squared (w h : Z) (torus : bool) (pos1 pos2 : Z * Z) : Z :=\n  {body}."


class _CellTr(pyexpr.Tr):
    """adds  self._grid[x][y] == self.default_val()  ->  gen_is_default (cell (x, y))"""

    def expr(self, e):
        if isinstance(e, ast.Compare) and len(e.ops) == 1 and isinstance(e.ops[0], ast.Eq):
            sides = [ast.unparse(e.left), ast.unparse(e.comparators[0])]
            if "self.default_val()" in sides:
                other = e.left if sides[1] == "self.default_val()" else e.comparators[0]
                if (isinstance(other, ast.Subscript) and isinstance(other.value, ast.Subscript)
                        and ast.unparse(other.value.value) == "self._grid"):
                    x, kx = self.expr(other.value.slice)
                    y, ky = self.expr(other.slice)
                    if kx == "Z" and ky == "Z":
                        return f"(gen_is_default (cell ({x}, {y})))", "bool"
                raise pyexpr.Unsupported("comparison with default_val() of something that is not self._grid[x][y]")
        return super().expr(e)


def c_is_cell_empty():
    fn = T._find_func(_cls("_Grid"), "is_cell_empty")
    _params(fn, ["self", "pos"])
    tr = _CellTr(attr_map=ATTRS, tuple_names=["pos"])
    try:
        body = tr.body(list(fn.body), "bool")
    except pyexpr.Unsupported as e:
        raise T.Broken(f"is_cell_empty is outside the translated subset: {e}") from None
    return f"Definition gen_is_cell_empty (cell : Z * Z -> list Z) (pos : Z * Z) : bool :=\n  {body}."


class _CutoffTr(pyexpr.Tr):
    """the float comparison  num_empty_cells > self.cutoff_empties  is an INPUT of the model (`above_cutoff`)"""

    def expr(self, e):
        if isinstance(e, ast.Compare) and "cutoff_empties" in ast.unparse(e):
            if ast.unparse(e) in ("num_empty_cells > self.cutoff_empties", "self.cutoff_empties < num_empty_cells"):
                return "above_cutoff", "bool"
            raise pyexpr.Unsupported(f"cutoff comparison {ast.unparse(e)!r}")
        return super().expr(e)


MTE_SKELETON = [
    "v0 = len(self.empties)",
    "<if no empty cells: raise>",
    "<if cutoff>",
    "self.remove_agent(agent)",
    "self.place_agent(agent, v1)",
]
MTE_SAMPLING = ["while True:\n    v1 = (agent.random.randrange(self.width), agent.random.randrange(self.height))\n"
                "    if self.is_cell_empty(v1):\n        break"]
MTE_CHOICE = ["v1 = agent.random.choice(sorted(self.empties))"]


def _move_to_empty_parts():
    fn = T._find_func(_cls("_Grid"), "move_to_empty")
    _params(fn, ["self", "agent"])
    fn = _rename(fn, {n: c for n, c in zip(pyexpr.local_names(fn), ["num_empty_cells", "new_pos"])})
    body = _nodoc(fn.body)
    ifs = [s for s in body if isinstance(s, ast.If)]
    if len(ifs) != 2 or not ifs[1].orelse:
        raise T.Broken("move_to_empty: expected `if <no empty cells>: raise` and `if <cutoff>: ... else: ...`")
    return fn, body, ifs


def c_move_to_empty_branch():
    fn, body, ifs = _move_to_empty_parts()
    synth = [ifs[0],
             ast.If(test=ifs[1].test, body=[ast.Return(value=ast.Constant(value=True))],
                    orelse=[ast.Return(value=ast.Constant(value=False))])]
    tr = _CutoffTr(bool_names=["above_cutoff"], attr_map=ATTRS)
    try:
        text = tr.body(synth, "option bool")
    except pyexpr.Unsupported as e:
        raise T.Broken(f"move_to_empty branch logic outside the translated subset: {e}") from None
    return ("Definition gen_move_to_empty_branch (num_empty_cells : Z) (above_cutoff : bool) : option bool :=\n"
            f"  {text}.")


def c_move_to_empty_skeleton():
    """the glue of move_to_empty, modulo the names of its locals, the exception message, docstrings, comments"""
    fn0 = T._find_func(_cls("_Grid"), "move_to_empty")
    _params(fn0, ["self", "agent"])
    fn = _vnorm(fn0)
    body = _nodoc(fn.body)
    ifs = [s for s in body if isinstance(s, ast.If)]
    if len(ifs) != 2 or not ifs[1].orelse:
        raise T.Broken("move_to_empty: expected two top-level ifs")
    got = ["<if no empty cells: raise>" if s is ifs[0] else "<if cutoff>" if s is ifs[1] else ast.unparse(s) for s in body]
    if got != MTE_SKELETON:
        raise T.Broken(f"statement skeleton of move_to_empty changed: {got}")
    if len(ifs[0].body) != 1 or not isinstance(ifs[0].body[0], ast.Raise) or not ast.unparse(ifs[0].body[0]).startswith("raise Exception(") or ifs[0].orelse:
        raise T.Broken("move_to_empty: the first `if` no longer just raises an Exception")
    if [ast.unparse(s) for s in ifs[1].body] != MTE_SAMPLING or [ast.unparse(s) for s in ifs[1].orelse] != MTE_CHOICE:
        raise T.Broken("move_to_empty: the sampling loop / the choice among sorted(self.empties) changed")
    return "Definition gen_move_to_empty_skeleton_ok : bool := true."


# ------------------------------------------------------------------ move_agent_to_one_of: the "closest" loop
def _one_of_parts():
    fn = T._find_func(_cls("_Grid"), "move_agent_to_one_of")
    _params(fn, ["self", "agent", "pos", "selection", "handle_empty"])
    fn = _canon_by_order(fn, ["chosen_pos", "current_pos", "closest_pos", "min_distance", "p", "distance"])
    body = _nodoc(fn.body)
    if len(body) != 1 or not isinstance(body[0], ast.If) or ast.unparse(body[0].test) != "pos":
        raise T.Broken("move_agent_to_one_of: expected one top-level `if pos:`")
    top = body[0]
    if len(top.body) != 2 or not isinstance(top.body[0], ast.If):
        raise T.Broken("move_agent_to_one_of: expected the selection dispatch followed by the move")
    disp = top.body[0]
    if ast.unparse(disp.test) != "selection == 'random'" or len(disp.orelse) != 1 or not isinstance(disp.orelse[0], ast.If) \
            or ast.unparse(disp.orelse[0].test) != "selection == 'closest'":
        raise T.Broken("move_agent_to_one_of: selection dispatch changed")
    closest = disp.orelse[0]
    loops = [s for s in closest.body if isinstance(s, ast.For)]
    if len(loops) != 1:
        raise T.Broken("move_agent_to_one_of: expected one loop in the 'closest' branch")
    return fn, top, disp, closest, loops[0]


def c_closest():
    fn, top, disp, closest, loop = _one_of_parts()
    if ast.unparse(loop.target) != "p" or ast.unparse(loop.iter) != "pos" or loop.orelse:
        raise T.Broken("closest loop header changed")
    lb = list(loop.body)
    if len(lb) != 2 or not isinstance(lb[0], ast.Assign) or ast.unparse(lb[0].targets[0]) != "distance" or not isinstance(lb[1], ast.If):
        raise T.Broken("closest loop body changed shape")
    first = lb[1]
    if len(first.orelse) != 1 or not isinstance(first.orelse[0], ast.If) or first.orelse[0].orelse:
        raise T.Broken("closest loop: expected if / elif without else")
    second = first.orelse[0]
    reset = sorted(ast.unparse(s) for s in first.body)
    if reset != sorted(["min_distance = distance", "closest_pos.clear()", "closest_pos.append(p)"]) or \
            [ast.unparse(s) for s in first.body].index("closest_pos.clear()") > [ast.unparse(s) for s in first.body].index("closest_pos.append(p)"):
        raise T.Broken(f"closest loop: the 'strictly nearer' branch changed: {reset}")
    if [ast.unparse(s) for s in second.body] != ["closest_pos.append(p)"]:
        raise T.Broken("closest loop: the 'equally near' branch changed")
    # the first test must hold against the initial min_distance = float('inf')
    t1 = first.test
    ok_inf = isinstance(t1, ast.Compare) and len(t1.ops) == 1 and (
        (isinstance(t1.ops[0], ast.Lt) and ast.unparse(t1.left) == "distance" and ast.unparse(t1.comparators[0]) == "min_distance")
        or (isinstance(t1.ops[0], ast.Gt) and ast.unparse(t1.left) == "min_distance" and ast.unparse(t1.comparators[0]) == "distance"))
    if not ok_inf:
        raise T.Broken("closest loop: first test is not `distance < min_distance`")

    def d2(args):
        if len(args) != 2 or any(k != "tuple" for _, k in args):
            raise pyexpr.Unsupported("_distance_squared arguments")
        return f"(gen_distance_squared w h torus {args[0][0]} {args[1][0]})", "Z"
    tr = pyexpr.Tr(bool_names=["torus"], attr_map=ATTRS, tuple_names=["p", "current_pos"], call_map={"self._distance_squared": d2})
    try:
        dist, k = tr.expr(lb[0].value)
        c1 = tr.bexpr(first.test)
        c2 = tr.bexpr(second.test)
    except pyexpr.Unsupported as e:
        raise T.Broken(f"closest loop outside the translated subset: {e}") from None
    if k != "Z":
        raise T.Broken("distance is not an integer expression")
    return (
        "Definition gen_closest_step (w h : Z) (torus : bool) (current_pos : Z * Z)\n"
        "           (acc : option Z * list (Z * Z)) (p : Z * Z) : option Z * list (Z * Z) :=\n"
        f"  let distance := {dist} in\n"
        "  match fst acc with\n"
        "  | None => (Some distance, [p])                    (* min_distance = float('inf') *)\n"
        "  | Some min_distance =>\n"
        f"    if {c1} then (Some distance, [p])\n"
        f"    else if {c2} then (Some min_distance, snd acc ++ [p]) else acc\n"
        "  end.\n"
        "Definition gen_closest (w h : Z) (torus : bool) (current_pos : Z * Z) (pos : list (Z * Z)) : list (Z * Z) :=\n"
        "  snd (fold_left (gen_closest_step w h torus current_pos) pos (None, []))."
    )


ONE_OF_CLOSEST_GLUE = ["current_pos = agent.pos", "closest_pos = []", "min_distance = float('inf')", "agent.random.shuffle(pos)",
                       "<loop>", "chosen_pos = agent.random.choice(closest_pos)"]


def c_one_of_skeleton():
    fn, top, disp, closest, loop = _one_of_parts()
    if [ast.unparse(s) for s in disp.body] != ["chosen_pos = agent.random.choice(pos)"]:
        raise T.Broken("move_agent_to_one_of: the 'random' branch changed")
    got = ["<loop>" if s is loop else ast.unparse(s) for s in closest.body]
    if got != ONE_OF_CLOSEST_GLUE:
        raise T.Broken(f"move_agent_to_one_of: glue of the 'closest' branch changed: {got}")
    bad = closest.orelse
    if len(bad) != 1 or not isinstance(bad[0], ast.Raise) or not ast.unparse(bad[0]).startswith("raise ValueError("):
        raise T.Broken("move_agent_to_one_of: an unknown selection no longer raises ValueError")
    if ast.unparse(top.body[1]) != "self.move_agent(agent, chosen_pos)":
        raise T.Broken("move_agent_to_one_of: the final move changed")
    el = top.orelse
    if len(el) != 1 or not isinstance(el[0], ast.If) or ast.unparse(el[0].test) != "handle_empty == 'warning'":
        raise T.Broken("move_agent_to_one_of: handle_empty dispatch changed")
    w = el[0]
    if len(w.body) != 1 or not ast.unparse(w.body[0]).startswith("warn(") or "RuntimeWarning" not in ast.unparse(w.body[0]):
        raise T.Broken("move_agent_to_one_of: handle_empty='warning' no longer warns")
    if len(w.orelse) != 1 or not isinstance(w.orelse[0], ast.If) or ast.unparse(w.orelse[0].test) != "handle_empty == 'error'" \
            or w.orelse[0].orelse or len(w.orelse[0].body) != 1 or not isinstance(w.orelse[0].body[0], ast.Raise) \
            or not ast.unparse(w.orelse[0].body[0]).startswith("raise ValueError("):
        raise T.Broken("move_agent_to_one_of: handle_empty='error' no longer raises ValueError")
    return "Definition gen_move_one_of_skeleton_ok : bool := true."


SWAP_SKELETON = [
    "agents_no_pos = []",
    "if (pos_a := agent_a.pos) is None:\n    agents_no_pos.append(agent_a)",
    "if (pos_b := agent_b.pos) is None:\n    agents_no_pos.append(agent_b)",
    "<if agents_no_pos: raise ... not on the grid>",
    "if pos_a == pos_b:\n    return",
    "self.remove_agent(agent_a)",
    "self.remove_agent(agent_b)",
    "self.place_agent(agent_a, pos_b)",
    "self.place_agent(agent_b, pos_a)",
]


def c_swap_skeleton():
    fn = T._find_func(_cls("_Grid"), "swap_pos")
    _params(fn, ["self", "agent_a", "agent_b"])
    fn = _canon_by_order(fn, ["agents_no_pos", "pos_a", "pos_b", "a"])
    got = []
    for s in _nodoc(fn.body):
        if isinstance(s, ast.If) and ast.unparse(s.test) == "agents_no_pos" and not s.orelse and isinstance(s.body[-1], ast.Raise) \
                and ast.unparse(s.body[-1]).startswith("raise Exception(") \
                and all(isinstance(b, (ast.Assign, ast.Raise)) for b in s.body):
            got.append("<if agents_no_pos: raise ... not on the grid>")
        else:
            got.append(ast.unparse(s))
    if got != SWAP_SKELETON:
        diff = [f"{a!r} != {b!r}" for a, b in zip(got, SWAP_SKELETON) if a != b] or [f"{len(got)} statements"]
        raise T.Broken("statement skeleton of swap_pos changed: " + diff[0][:200])
    return "Definition gen_swap_pos_skeleton_ok : bool := true."


# ------------------------------------------------------------------ method bodies -> lg_stmt
RAISE_KINDS = {"Cell not empty": 2}


def _cond(e):
    u = ast.unparse(e)
    if isinstance(e, ast.BoolOp):
        parts = [_cond(v) for v in e.values]
        ctor = "LCAnd" if isinstance(e.op, ast.And) else "LCOr"
        out = parts[0]
        for p in parts[1:]:
            out = f"({ctor} {out} {p})"
        return out
    if isinstance(e, ast.UnaryOp) and isinstance(e.op, ast.Not):
        return f"(LCNot {_cond(e.operand)})"
    table = {
        "self._empties_built": "LCBuilt",
        "self.is_cell_empty(pos)": "LCCellEmpty",
        "agent.pos is None": "LCAgentPosNone",
        "agent.pos is not None": "(LCNot LCAgentPosNone)",
        "agent in self._grid[x][y]": "LCAgentInCell",
        "agent not in self._grid[x][y]": "(LCNot LCAgentInCell)",
        "occupant is None": "LCOccNone",
        "occupant is not None": "(LCNot LCOccNone)",
        "occupant is agent": "LCOccIsAgent",
        "occupant is not agent": "(LCNot LCOccIsAgent)",
    }
    if u in table:
        return table[u]
    raise T.Broken(f"condition outside the statement DSL: {u!r}")


STMTS = {
    "pos = agent.pos": "LSBindPosAgent",
    "pos = self.torus_adj(pos)": "LSTorusAdj",
    "x, y = pos": "LSUnpack",
    "occupant = self._grid[x][y]": "LSBindOccupant",
    "self._grid[x][y] = agent": "LSCellSetAgent",
    "self._grid[x][y] = self.default_val()": "LSCellSetDefault",
    "self._grid[x][y].append(agent)": "LSCellAppend",
    "self._grid[x][y].remove(agent)": "LSCellRemove",
    "self._empties.discard(pos)": "LSEmptiesDiscard",
    "self._empties.add(pos)": "LSEmptiesAdd",
    "self._empty_mask[pos] = True": "(LSMask LIPos true)",
    "self._empty_mask[pos] = False": "(LSMask LIPos false)",
    "self._empty_mask[agent.pos] = True": "(LSMask LIAgentPos true)",
    "self._empty_mask[agent.pos] = False": "(LSMask LIAgentPos false)",
    # fixes/C08-5: the mask is indexed with the unpacked coordinates as plain ints (bool / NumPy / int-subclass coordinates);
    # int(x), int(y) of the unpacked `pos` is the cell `pos` names
    "self._empty_mask[int(x), int(y)] = True": "(LSMask LIPos true)",
    "self._empty_mask[int(x), int(y)] = False": "(LSMask LIPos false)",
    "agent.pos = pos": "LSPosSet",
    "agent.pos = None": "LSPosClear",
    "self.remove_agent(agent)": "LSCallRemove",
    "self.place_agent(agent, pos)": "LSCallPlace",
    "super().move_agent(agent, pos)": "LSCallSuperMove",
    "return": "LSReturn",
    "return None": "LSReturn",
}


def _stmts(body):
    out = []
    for s in _nodoc(body):
        u = ast.unparse(s)
        if u in STMTS:
            out.append(STMTS[u])
        elif isinstance(s, ast.Raise):
            # the only rejection these bodies contain is the occupied-cell one; its message text is free
            if not u.startswith("raise Exception("):
                raise T.Broken(f"raise statement outside the DSL: {u!r}")
            out.append("(LSRaise 2)")
        elif isinstance(s, ast.If):
            test = s.test
            # `if (pos := agent.pos) is None:` binds pos, then tests it
            if isinstance(test, ast.Compare) and isinstance(test.left, ast.NamedExpr) and ast.unparse(test.left) == "(pos := agent.pos)":
                out.append("LSBindPosAgent")
                test = ast.Compare(left=ast.parse("agent.pos", mode="eval").body, ops=test.ops, comparators=test.comparators)
            out.append(f"(LSIf {_cond(test)} {_lst(_stmts(s.body))} {_lst(_stmts(s.orelse))})")
        elif isinstance(s, ast.Pass):
            continue
        else:
            raise T.Broken(f"statement outside the DSL: {u!r}")
    return out


def _lst(items):
    return "[" + "; ".join(items) + "]"


def _body(cls, fn_name, params, gen_name, decorators=()):
    def ex():
        fn = T._find_func(_cls(cls), fn_name)
        _params(fn, params)
        decs = [ast.unparse(d) for d in fn.decorator_list]
        if decs != list(decorators):
            raise T.Broken(f"decorators of {cls}.{fn_name} changed: {decs}")
        return f"Definition {gen_name} : list lg_stmt :=\n  {_lst(_stmts(_canon_body(fn).body))}."

    def fb():
        return f"Definition {gen_name} : list lg_stmt := [LSRaise 99]."
    return (gen_name.replace("gen_", "") + "_code", SRC, ex, fb)


WARN = ("warn_if_agent_has_position_already",)
CONSTRUCTS = [
    ("grid_torus_adj_code", SRC, c_torus_adj,
     lambda: "Definition gen_torus_adj (w h : Z) (torus : bool) (pos : Z * Z) : option (Z * Z) := None."),
    ("hexgrid_torus_adj_2d_code", SRC, c_torus_adj_2d,
     lambda: "Definition gen_torus_adj_2d (w h : Z) (pos : Z * Z) : Z * Z := (-1, -1)."),
    ("grid_distance_squared_code", SRC, c_distance_squared,
     lambda: "Definition gen_distance_squared (w h : Z) (torus : bool) (pos1 pos2 : Z * Z) : Z := -1."),
    ("grid_is_cell_empty_code", SRC, c_is_cell_empty,
     lambda: "Definition gen_is_cell_empty (cell : Z * Z -> list Z) (pos : Z * Z) : bool := false."),
    ("grid_move_to_empty_branch_code", SRC, c_move_to_empty_branch,
     lambda: "Definition gen_move_to_empty_branch (num_empty_cells : Z) (above_cutoff : bool) : option bool := None."),
    ("grid_move_to_empty_skeleton", SRC, c_move_to_empty_skeleton, lambda: "Definition gen_move_to_empty_skeleton_ok : bool := false."),
    ("grid_closest_code", SRC, c_closest,
     lambda: "Definition gen_closest (w h : Z) (torus : bool) (current_pos : Z * Z) (pos : list (Z * Z)) : list (Z * Z) := []."),
    ("grid_move_one_of_skeleton", SRC, c_one_of_skeleton, lambda: "Definition gen_move_one_of_skeleton_ok : bool := false."),
    ("grid_swap_pos_skeleton", SRC, c_swap_skeleton, lambda: "Definition gen_swap_pos_skeleton_ok : bool := false."),
    _body("SingleGrid", "place_agent", ["self", "agent", "pos"], "gen_body_single_place", WARN),
    _body("SingleGrid", "remove_agent", ["self", "agent"], "gen_body_single_remove"),
    _body("MultiGrid", "place_agent", ["self", "agent", "pos"], "gen_body_multi_place", WARN),
    _body("MultiGrid", "remove_agent", ["self", "agent"], "gen_body_multi_remove"),
    _body("_Grid", "move_agent", ["self", "agent", "pos"], "gen_body_grid_move"),
    _body("SingleGrid", "move_agent", ["self", "agent", "pos"], "gen_body_single_move"),
]
