"""T1 extractors for C01 (coq/Model/Rng.v):

  mte_choice_sorted    _Grid.move_to_empty: the argument of `agent.random.choice(...)` in the small-grid branch must be
                       `sorted(self.empties)` (true) or a plain `list/tuple(self.empties)` (false); anything else is
                       a broken construct.  The permutation-invariance theorem needs `true`.
  global_rng_sites     every call in mesa/ (library and the bundled examples; visualization and tests excluded) that
                       draws from, seeds or reads a PROCESS-GLOBAL generator: `random.<fn>(...)` on the stdlib module,
                       `from random import <fn>`, `np.random.<fn>(...)` other than the Generator constructors, and
                       calls of networkx generators that take `seed=` without passing one.  Emitted as a list of
                       (file index, line); the theorem C01_no_global_generator_sites states that it is empty.
"""
import ast
import os

from translate import REPO, Broken, _find_class, _find_func, _parse

NP_OK = {"default_rng", "Generator", "SeedSequence", "BitGenerator", "PCG64", "PCG64DXSM", "MT19937", "Philox", "SFC64", "RandomState"}
STD_OK = {"Random", "SystemRandom"}


def c_mte_choice_sorted():
    tree = _parse("mesa/space.py")
    fn = _find_func(_find_class(tree, "_Grid"), "move_to_empty")
    hits = []
    for n in ast.walk(fn):
        if isinstance(n, ast.Call) and isinstance(n.func, ast.Attribute) and n.func.attr == "choice":
            hits.append(n)
    if len(hits) != 1 or len(hits[0].args) != 1:
        raise Broken(f"expected exactly one `.choice(<one argument>)` call in _Grid.move_to_empty, found {len(hits)}")
    arg = hits[0].args[0]
    if not (isinstance(arg, ast.Call) and isinstance(arg.func, ast.Name) and len(arg.args) == 1 and not arg.keywords):
        raise Broken("argument of choice(...) is not <name>(self.empties): " + ast.unparse(arg))
    inner = arg.args[0]
    if not (isinstance(inner, ast.Attribute) and inner.attr in ("empties", "_empties") and isinstance(inner.value, ast.Name) and inner.value.id == "self"):
        raise Broken("argument of choice(...) is not built from self.empties: " + ast.unparse(arg))
    if arg.func.id == "sorted":
        v = "true"
    elif arg.func.id in ("list", "tuple"):
        v = "false"
    else:
        raise Broken("unknown wrapper around self.empties: " + ast.unparse(arg))
    return f"Definition gen_mte_choice_sorted : bool := {v}."


def fb_mte_choice_sorted():
    return "Definition gen_mte_choice_sorted : bool := false."


def _py_files():
    out = []
    root = os.path.join(REPO, "mesa")
    for d, dirs, files in os.walk(root):
        dirs[:] = sorted(x for x in dirs if x not in ("__pycache__", "visualization"))
        for fn in sorted(files):
            if fn.endswith(".py"):
                out.append(os.path.relpath(os.path.join(d, fn), REPO))
    return out


def _nx_seedable():
    try:
        import inspect

        import networkx as nx
    except Exception:  # noqa: BLE001
        return None
    names = set()
    for name in dir(nx):
        f = getattr(nx, name, None)
        if callable(f):
            try:
                if "seed" in inspect.signature(f).parameters:
                    names.add(name)
            except (TypeError, ValueError):
                pass
    return names


def scan_global_sites():
    """-> list of (relative file, line, text)"""
    nxs = _nx_seedable()
    if nxs is None:
        raise Broken("networkx not importable: cannot decide which generators take seed=")
    sites = []
    for rel in _py_files():
        tree = _parse(rel)
        std_alias, np_alias, nprandom_alias, nx_alias = set(), set(), set(), set()
        for n in ast.walk(tree):
            if isinstance(n, ast.Import):
                for a in n.names:
                    if a.name == "random":
                        std_alias.add(a.asname or "random")
                    elif a.name == "numpy":
                        np_alias.add(a.asname or "numpy")
                    elif a.name == "numpy.random":
                        (nprandom_alias if a.asname else np_alias).add(a.asname or "numpy")
                    elif a.name == "networkx":
                        nx_alias.add(a.asname or "networkx")
            elif isinstance(n, ast.ImportFrom):
                if n.module == "random" and n.level == 0:
                    for a in n.names:
                        if a.name not in STD_OK:
                            sites.append((rel, n.lineno, f"from random import {a.name}"))
                elif n.module == "numpy" and n.level == 0:
                    for a in n.names:
                        if a.name == "random":
                            nprandom_alias.add(a.asname or "random")
                elif n.module == "numpy.random" and n.level == 0:
                    for a in n.names:
                        if a.name not in NP_OK:
                            sites.append((rel, n.lineno, f"from numpy.random import {a.name}"))
        # a function parameter / local called `random` shadows the module: only flag when the name is not bound locally
        for fn_or_mod in [tree] + [x for x in ast.walk(tree) if isinstance(x, (ast.FunctionDef, ast.AsyncFunctionDef, ast.Lambda))]:
            pass
        shadow = {}
        for f in ast.walk(tree):
            if isinstance(f, (ast.FunctionDef, ast.AsyncFunctionDef)):
                names = {a.arg for a in f.args.args + f.args.kwonlyargs + f.args.posonlyargs}
                for x in ast.walk(f):
                    if isinstance(x, ast.Name) and isinstance(x.ctx, ast.Store):
                        names.add(x.id)
                for x in ast.walk(f):
                    shadow.setdefault(id(x), set()).update(names)
        for n in ast.walk(tree):
            if not isinstance(n, ast.Attribute):
                continue
            v = n.value
            local = shadow.get(id(n), set())
            # random.<fn>
            if isinstance(v, ast.Name) and v.id in std_alias and v.id not in local and n.attr not in STD_OK:
                sites.append((rel, n.lineno, f"{v.id}.{n.attr}"))
            # np.random.<fn>
            if isinstance(v, ast.Attribute) and v.attr == "random" and isinstance(v.value, ast.Name) and v.value.id in np_alias and n.attr not in NP_OK:
                sites.append((rel, n.lineno, f"{v.value.id}.random.{n.attr}"))
            if isinstance(v, ast.Name) and v.id in nprandom_alias and v.id not in local and n.attr not in NP_OK:
                sites.append((rel, n.lineno, f"{v.id}.{n.attr} (numpy.random)"))
        for n in ast.walk(tree):
            if isinstance(n, ast.Call) and isinstance(n.func, ast.Attribute) and isinstance(n.func.value, ast.Name) \
                    and n.func.value.id in nx_alias and n.func.attr in nxs:
                if not any(k.arg == "seed" for k in n.keywords) and not any(k.arg is None for k in n.keywords):
                    sites.append((rel, n.lineno, f"{n.func.value.id}.{n.func.attr}(...) without seed="))
    return sorted(set(sites))


def c_global_rng_sites():
    files = _py_files()
    sites = scan_global_sites()
    body = "; ".join(f"({files.index(f)}, {ln})" for f, ln, _ in sites)
    comment = "".join(f"\n   {f}:{ln}: {t}" for f, ln, t in sites)
    return f"(* sites that touch a process-global generator:{comment or ' none'} *)\nDefinition gen_global_rng_sites : list (Z * Z) := [{body}]."


def fb_global_rng_sites():
    return "Definition gen_global_rng_sites : list (Z * Z) := [(-1, -1)]."


def _is_setexpr(e, setnames):
    if isinstance(e, (ast.Set, ast.SetComp)):
        return True
    if isinstance(e, ast.Call):
        if ast.unparse(e.func) in ("set", "frozenset"):
            return True
        if isinstance(e.func, ast.Attribute) and e.func.attr in ("union", "intersection", "difference", "symmetric_difference"):
            return True
    if isinstance(e, ast.BinOp) and isinstance(e.op, (ast.Sub, ast.BitAnd, ast.BitOr, ast.BitXor)):
        def viewish(x):
            return (isinstance(x, ast.Call) and isinstance(x.func, ast.Attribute) and x.func.attr in ("keys", "items")) \
                or _is_setexpr(x, setnames)
        if viewish(e.left) or viewish(e.right):
            return True
    return isinstance(e, ast.Name) and e.id in setnames


def scan_unordered_iteration():
    """places in mesa/ (visualization excluded) where the ELEMENTS of a set / dict-view difference are consumed in iteration
    order - `for`, a comprehension, list()/tuple()/next()/iter()/enumerate()/zip(), random choice/sample/shuffle - without
    going through sorted(): the order of such a collection of objects depends on memory addresses, i.e. on what ran earlier
    in the process.  A local name counts when it is bound to such an expression in the same function."""
    out = []
    for rel in _py_files():
        tree = _parse(rel)
        for f in [n for n in ast.walk(tree) if isinstance(n, (ast.FunctionDef, ast.AsyncFunctionDef))]:
            setnames = set()
            for n in ast.walk(f):
                if isinstance(n, ast.Assign) and len(n.targets) == 1 and isinstance(n.targets[0], ast.Name) and _is_setexpr(n.value, set()):
                    setnames.add(n.targets[0].id)
            for n in ast.walk(f):
                it = None
                if isinstance(n, (ast.For, ast.comprehension)):
                    it = n.iter
                elif isinstance(n, ast.Call) and ast.unparse(n.func) in ("list", "tuple", "next", "iter", "enumerate", "zip") and n.args:
                    it = n.args[0]
                elif isinstance(n, ast.Call) and isinstance(n.func, ast.Attribute) and n.func.attr in ("choice", "sample", "shuffle", "choices") and n.args:
                    it = n.args[0]
                if it is not None and _is_setexpr(it, setnames):
                    out.append((rel, it.lineno, f"{f.name}: iterates {ast.unparse(it)[:70]}"))
    return sorted(set(out))


def c_unordered_iteration_sites():
    files = _py_files()
    sites = scan_unordered_iteration()
    body = "; ".join(f"({files.index(f)}, {ln})" for f, ln, _ in sites)
    comment = "".join(f"\n   {f}:{ln}: {t}" for f, ln, t in sites)
    return (f"(* iteration over sets / dict-view differences without a stable order:{comment or ' none'} *)\n"
            f"Definition gen_unordered_iteration_sites : list (Z * Z) := [{body}].")


HEADER = ""
CONSTRUCTS = [
    ("unordered_iteration_sites", "mesa/**/*.py", c_unordered_iteration_sites,
     lambda: "Definition gen_unordered_iteration_sites : list (Z * Z) := [(-1, -1)]."),
    ("mte_choice_sorted", "mesa/space.py", c_mte_choice_sorted, fb_mte_choice_sorted),
    ("global_rng_sites", "mesa/**/*.py", c_global_rng_sites, fb_global_rng_sites),
]
