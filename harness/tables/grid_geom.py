"""T1 extractors for C07 (cell-space geometry), loaded by harness/translate.py.

Re-read from $VERIF_REPO on every run with `ast`, fail closed (translate.Broken):
  * the 2-D offset lists of OrthogonalMooreGrid / OrthogonalVonNeumannGrid._connect_cells_2d
  * HexGrid._connect_cells_2d: even_offsets, odd_offsets, and the parity selector
        i = cell.coordinate[<axis>] ; offsets = <A> if i % 2 else <B>
  * Cell._neighborhood / Cell.get_neighborhood: the parameter tuple a `functools.cache`
    decorator keys on (None when the function is not decorated with `cache`),
    and whether Cell.neighborhood is a cached_property.
"""
import ast
import os
import sys

sys.path.insert(0, os.path.dirname(os.path.dirname(os.path.abspath(__file__))))
import translate as T  # noqa: E402

HEADER = """Inductive cparam := CSelf | CRadius | CCenter.
"""

GRID = "mesa/discrete_space/grid.py"
CELL = "mesa/discrete_space/cell.py"


def _uses_2d_helper(fn):
    """the body must hand `offsets` to self._connect_single_cell_2d for every cell of all_cells"""
    loops = [n for n in fn.body if isinstance(n, ast.For)]
    if len(loops) != 1:
        raise T.Broken("expected exactly one for-loop over the cells")
    lp = loops[0]
    if not (isinstance(lp.iter, ast.Attribute) and lp.iter.attr == "all_cells"):
        raise T.Broken("loop is not over self.all_cells")
    return lp


def _offset_table(cls, var, name):
    tree = T._parse(GRID)
    fn = T._find_func(T._find_class(tree, cls), "_connect_cells_2d")
    pairs = T._int_pairs(T._one_assignment(fn, var))
    lp = _uses_2d_helper(fn)
    calls = [n for n in ast.walk(lp) if isinstance(n, ast.Call) and isinstance(n.func, ast.Attribute)
             and n.func.attr == "_connect_single_cell_2d"]
    if len(calls) != 1:
        raise T.Broken("expected one call of _connect_single_cell_2d in the loop")
    return f"Definition {name} : list (Z * Z) := {T._pairs_lit(pairs)}."


def c_moore2d():
    return _offset_table("OrthogonalMooreGrid", "offsets", "gen_moore_offsets_2d")


def c_vn2d():
    return _offset_table("OrthogonalVonNeumannGrid", "offsets", "gen_vn_offsets_2d")


def c_hex_even():
    return _offset_table("HexGrid", "even_offsets", "gen_hex_even_offsets")


def c_hex_odd():
    return _offset_table("HexGrid", "odd_offsets", "gen_hex_odd_offsets")


def c_hex_selector():
    """loop body of HexGrid._connect_cells_2d:
         <p> = cell.coordinate[K];  offsets = X if <test over p> else Y;  self._connect_single_cell_2d(cell, offsets)
    with {X, Y} = {even_offsets, odd_offsets}.  The test is TRANSLATED with pyexpr (an int-valued test is read with
    Python truthiness, != 0), so that harmless rewrites (`i % 2 == 1`, `i % 2 != 0`, swapped branches under the
    negated test) are followed; Proofs re-check the touching theorem for whatever comes out."""
    import pyexpr

    tree = T._parse(GRID)
    fn = T._find_func(T._find_class(tree, "HexGrid"), "_connect_cells_2d")
    lp = _uses_2d_helper(fn)
    body = lp.body
    if len(body) != 3:
        raise T.Broken("loop body is not `i = ...; offsets = ...; connect`")
    a0, a1 = body[0], body[1]
    if not (isinstance(a0, ast.Assign) and len(a0.targets) == 1 and isinstance(a0.targets[0], ast.Name)):
        raise T.Broken("first statement is not an assignment to a name")
    pv = a0.targets[0].id
    v = a0.value
    if not (isinstance(v, ast.Subscript) and isinstance(v.value, ast.Attribute) and v.value.attr == "coordinate"
            and isinstance(v.value.value, ast.Name) and v.value.value.id == lp.target.id
            and isinstance(v.slice, ast.Constant) and isinstance(v.slice.value, int)):
        raise T.Broken("parity variable is not cell.coordinate[<int>]")
    axis = v.slice.value
    if axis not in (0, 1):
        raise T.Broken("parity axis is neither 0 nor 1")
    if not (isinstance(a1, ast.Assign) and len(a1.targets) == 1 and isinstance(a1.targets[0], ast.Name)
            and a1.targets[0].id == "offsets" and isinstance(a1.value, ast.IfExp)):
        raise T.Broken("offsets is not chosen by a conditional expression")
    ife = a1.value
    names = {n.id for n in ast.walk(ife.test) if isinstance(n, ast.Name)}
    if names != {pv}:
        raise T.Broken(f"selector test mentions {sorted(names)}, expected only {pv}")
    try:
        t, k = pyexpr.Tr().expr(ife.test)
    except pyexpr.Unsupported as e:
        raise T.Broken(f"selector test outside the translated subset: {e}") from None
    cond = t if k == "bool" else f"(negb ({t} =? 0))" if k == "Z" else None
    if cond is None:
        raise T.Broken("selector test is neither int nor bool")
    if not (isinstance(ife.body, ast.Name) and isinstance(ife.orelse, ast.Name)):
        raise T.Broken("selector branches are not plain names")
    br = (ife.body.id, ife.orelse.id)
    if br == ("even_offsets", "odd_offsets"):
        body_even = True
    elif br == ("odd_offsets", "even_offsets"):
        body_even = False
    else:
        raise T.Broken(f"selector branches are {br}")
    call = body[2]
    if not (isinstance(call, ast.Expr) and isinstance(call.value, ast.Call)):
        raise T.Broken("third statement is not the connect call")
    cv = call.value
    ok = False
    for kw in cv.keywords:
        if kw.arg == "offsets" and isinstance(kw.value, ast.Name) and kw.value.id == "offsets":
            ok = True
    if len(cv.args) == 2 and isinstance(cv.args[1], ast.Name) and cv.args[1].id == "offsets":
        ok = True
    if not ok or not (cv.args and isinstance(cv.args[0], ast.Name) and cv.args[0].id == lp.target.id):
        raise T.Broken("the chosen offsets / the cell are not what is passed on")
    return (f"Definition gen_hex_parity_axis : Z := {axis}.\n"
            f"Definition gen_hex_select ({pv} : Z) : bool := {cond}.\n"
            f"Definition gen_hex_body_is_even_table : bool := {'true' if body_even else 'false'}.")


def _cache_params(fname, defname, must_cache=False):
    tree = T._parse(CELL)
    fn = T._find_func(T._find_class(tree, "Cell"), fname)
    params = [a.arg for a in fn.args.args]
    if fn.args.vararg or fn.args.kwarg or fn.args.kwonlyargs or fn.args.posonlyargs:
        raise T.Broken("unexpected parameter kinds")
    m = {"self": "CSelf", "radius": "CRadius", "include_center": "CCenter"}
    if sorted(params) != sorted(m):
        raise T.Broken(f"unexpected parameter list {params}")
    decs = []
    for d in fn.decorator_list:
        if isinstance(d, ast.Name):
            decs.append(d.id)
        elif isinstance(d, ast.Attribute):
            decs.append(d.attr)
        else:
            raise T.Broken("decorator of unknown shape")
    known = {"cache"}
    if any(d not in known for d in decs):
        raise T.Broken(f"unknown decorator(s) {decs}")
    if "cache" in decs:
        # functools.cache keys on every argument of the call
        return f"Definition {defname} : option (list cparam) := Some [" + "; ".join(m[p] for p in params) + "]."
    if must_cache:
        # without the memo the recursion of _neighborhood visits degree^radius cells: the modelled (memoised)
        # shape no longer corresponds; reported through T1 (the driver bounds every query by a CPU budget)
        raise T.Broken(f"Cell.{fname} is not memoised (no functools.cache): un-cached recursion, exponential in the radius")
    return f"Definition {defname} : option (list cparam) := None."


def c_inner_cache():
    return _cache_params("_neighborhood", "gen_cell_inner_cache", must_cache=True)


def c_get_cache():
    return _cache_params("get_neighborhood", "gen_cell_get_cache")


def c_prop_cached():
    tree = T._parse(CELL)
    fn = T._find_func(T._find_class(tree, "Cell"), "neighborhood")
    decs = [d.id if isinstance(d, ast.Name) else getattr(d, "attr", "?") for d in fn.decorator_list]
    if decs == ["cached_property"]:
        v = "true"
    elif decs == ["property"]:
        v = "false"
    else:
        raise T.Broken(f"Cell.neighborhood decorated with {decs}")
    return f"Definition gen_cell_nbhd_cached_property : bool := {v}."


def _fb(text):
    return lambda: text


CONSTRUCTS = [
    ("moore_offsets_2d", GRID, c_moore2d, _fb("Definition gen_moore_offsets_2d : list (Z * Z) := [].")),
    ("vn_offsets_2d", GRID, c_vn2d, _fb("Definition gen_vn_offsets_2d : list (Z * Z) := [].")),
    ("hex_even_offsets", GRID, c_hex_even, _fb("Definition gen_hex_even_offsets : list (Z * Z) := [].")),
    ("hex_odd_offsets", GRID, c_hex_odd, _fb("Definition gen_hex_odd_offsets : list (Z * Z) := [].")),
    ("hex_selector", GRID, c_hex_selector,
     _fb("Definition gen_hex_parity_axis : Z := 0.\nDefinition gen_hex_select (i : Z) : bool := false.\n"
         "Definition gen_hex_body_is_even_table : bool := false.")),
    ("cell_inner_cache", CELL, c_inner_cache, _fb("Definition gen_cell_inner_cache : option (list cparam) := Some [].")),
    ("cell_get_cache", CELL, c_get_cache, _fb("Definition gen_cell_get_cache : option (list cparam) := Some [].")),
    ("cell_nbhd_cached_property", CELL, c_prop_cached, _fb("Definition gen_cell_nbhd_cached_property : bool := true.")),
]
