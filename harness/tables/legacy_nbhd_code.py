"""T1 (code level) for mesa/space.py:_Grid - the bounds test and the two offset loop nests of
get_neighborhood are TRANSLATED from the working tree into executable Gallina (harness/pyexpr.py);
Proofs/LegacyNbhdBridge.v proves that they are the functions the hand-written model uses."""
import ast

import pyexpr
import translate as T

SRC = "mesa/space.py"
HEADER = "From Mesa Require Import Common.ListX."
ATTRS = {"width": "w", "height": "h", "torus": "torus"}


def _grid():
    return T._find_class(T._parse(SRC), "_Grid")


def c_oob():
    fn = T._find_func(_grid(), "out_of_bounds")
    if [a.arg for a in fn.args.args] != ["self", "pos"]:
        raise T.Broken("unexpected parameters of out_of_bounds")
    tr = pyexpr.Tr(bool_names=["torus"], attr_map=ATTRS, tuple_names=["pos"])
    try:
        body = tr.body(list(fn.body), "bool")
    except pyexpr.Unsupported as e:
        raise T.Broken(f"out_of_bounds is outside the translated subset: {e}") from None
    return f"Definition gen_out_of_bounds (w h : Z) (pos : Z * Z) : bool :=\n  {body}."


def _split(fn=None):
    fn = fn or T._find_func(_grid(), "get_neighborhood")
    if [a.arg for a in fn.args.args] != ["self", "pos", "moore", "include_center", "radius"]:
        raise T.Broken("unexpected parameters of get_neighborhood")
    ifs = [n for n in fn.body if isinstance(n, ast.If) and isinstance(n.test, ast.BoolOp)
           and isinstance(n.test.op, ast.And) and n.orelse]
    if len(ifs) != 1:
        raise T.Broken(f"expected one top-level `if <interior guard>: ... else: ...`, found {len(ifs)}")
    unpack = [n for n in fn.body if isinstance(n, ast.Assign) and ast.unparse(n) == "x, y = pos"]
    init = [n for n in fn.body if isinstance(n, ast.Assign) and ast.unparse(n) == "neighborhood = {}"]
    if len(unpack) != 1 or len(init) != 1:
        raise T.Broken("expected `x, y = pos` and `neighborhood = {}` before the loops")
    return ifs[0]


def _tr():
    def oob(args):
        if len(args) != 1 or args[0][1] != "tuple":
            raise pyexpr.Unsupported("out_of_bounds argument")
        return f"(gen_out_of_bounds w h {args[0][0]})", "bool"
    tr = pyexpr.Tr(bool_names=["torus", "moore"], attr_map=ATTRS, call_map={"self.out_of_bounds": oob})
    tr.range_names = {}
    return tr


def c_guard():
    node = _split()
    try:
        g = _tr().bexpr(node.test)
    except pyexpr.Unsupported as e:
        raise T.Broken(f"interior guard outside the translated subset: {e}") from None
    return f"Definition gen_fast_guard (w h x y radius : Z) : bool :=\n  {g}."


def c_fast():
    node = _split()
    try:
        t = _tr().collect(list(node.body), "neighborhood")
    except pyexpr.Unsupported as e:
        raise T.Broken(f"interior loop outside the translated subset: {e}") from None
    return f"Definition gen_nb_fast (moore : bool) (x y radius : Z) : list (Z * Z) :=\n  {t}."


def c_slow():
    node = _split()
    try:
        t = _tr().collect(list(node.orelse), "neighborhood")
    except pyexpr.Unsupported as e:
        raise T.Broken(f"border loop outside the translated subset: {e}") from None
    return f"Definition gen_nb_slow (w h : Z) (torus moore : bool) (x y radius : Z) : list (Z * Z) :=\n  {t}."


SKELETON = [   # statements modulo local-variable names (pyexpr.normalized_statements), message texts and docstrings
    "v0 = <cache key tuple>",          # the tuple itself is extracted separately (grid_cache_key)
    "v1 = self._neighborhood_cache.get(v0, None)",
    "if v1 is not None:\n    return v1",
    "if self.out_of_bounds(pos):\n    raise Exception(<msg>)",
    "v1 = {}",
    "v2, v3 = pos",
    "<loops>",
    "if not include_center:\n    v1.pop(pos, None)",
    "self._neighborhood_cache[v0] = tuple(v1.keys())",
    "return tuple(v1.keys())",
]


def c_skeleton():
    """everything of get_neighborhood that is NOT translated expression by expression must be, statement for
    statement, what Model/LegacyNbhd.v:get_neighborhood transcribes (cache lookup first, bounds test, the
    loops, pop(pos) unless include_center, cache store, return).  Compared modulo the names of local variables,
    the text of the exception message, docstrings, comments and formatting."""
    import re

    fn = T._find_func(_grid(), "get_neighborhood")
    node = _split(fn)
    body = [st for st in fn.body
            if not (isinstance(st, ast.Expr) and isinstance(st.value, ast.Constant) and isinstance(st.value.value, str))]
    norm = pyexpr.normalized_statements(fn)
    if len(norm) != len(body):
        raise T.Broken("cannot align normalised statements")
    got = []
    for st, txt in zip(body, norm):
        if st is node:
            got.append("<loops>")
        elif isinstance(st, ast.Assign) and isinstance(st.value, ast.Tuple) and ast.unparse(st.targets[0]) == "cache_key":
            got.append("v0 = <cache key tuple>")
        else:
            got.append(re.sub(r"raise Exception\((['\"]).*\1\)", "raise Exception(<msg>)", txt))
    if got != SKELETON:
        diff = [f"{a!r} != {b!r}" for a, b in zip(got, SKELETON) if a != b] or [f"{len(got)} statements, expected {len(SKELETON)}"]
        raise T.Broken("statement skeleton of get_neighborhood changed: " + diff[0][:200])
    return "Definition gen_nbhd_skeleton_ok : bool := true."


CONSTRUCTS = [
    ("grid_nbhd_skeleton", SRC, c_skeleton, lambda: "Definition gen_nbhd_skeleton_ok : bool := false."),
    ("grid_out_of_bounds_code", SRC, c_oob, lambda: "Definition gen_out_of_bounds (w h : Z) (pos : Z * Z) : bool := true."),
    ("grid_nbhd_guard_code", SRC, c_guard, lambda: "Definition gen_fast_guard (w h x y radius : Z) : bool := false."),
    ("grid_nbhd_fast_code", SRC, c_fast, lambda: "Definition gen_nb_fast (moore : bool) (x y radius : Z) : list (Z * Z) := []."),
    ("grid_nbhd_slow_code", SRC, c_slow, lambda: "Definition gen_nb_slow (w h : Z) (torus moore : bool) (x y radius : Z) : list (Z * Z) := []."),
]
