"""T1 (code level) for the cell spaces (C06 / C18 cell-space sites): the methods of
mesa/discrete_space/cell.py, cell_agent.py, discrete_space.py and grid.py that Model/CellSpace.v transcribes by
hand are TRANSLATED from the working tree into executable Gallina on every run; Proofs/CellSpaceBridge.v proves
that each translated method is the function of the hand-written model (`model function = gen function`).

The methods mutate objects and raise, so the pure-expression translator harness/pyexpr.py is extended here by a
small statement translator (class Eff, a subclass of pyexpr.Tr) that threads the model state `s` explicitly:

  Python (self = a Cell c)                     Gallina
    self._agents / self.agents                   CS.content s c            (the property `agents` is translated too)
    self.capacity                                CS.e_cap e c              (Optional[int]: truthiness = CS.opt_truthy)
    self.empty = b                               let s := CS.set_flag s c b in
    self._agents.append(x)                       let s := CS.set_content s c (CS.content s c ++ [x]) in
    self._agents.remove(x)                       if CS.memz x .. then let s := .. remove_first .. else (s, Some E_NOTIN)
  Python (self = an agent a)
    self._mesa_cell / self.cell (getter)         CS.ptr s a                (the getters are checked to be `return self._mesa_cell`)
    self._mesa_cell = v                          let s := CS.set_ptr s a v in
    self.cell = v                                run gen_cell_setter, propagate what it raises
    X.add_agent(self) / X.remove_agent(self)     match X with None => (s, Some E_ATTR) | Some c_ => run gen_..., propagate
    X.connections.get(d)                         match X with None => (s, Some E_ATTR) | Some c_ => CS.e_conn e c_ d
    super().remove()                             let s := CS.set_reg s a false in      (Agent.remove: deregister)
    raise Exc(..)                                (s, Some kind)   kind fixed by method + exception class + position
    for _ in range(k): <re-bind one name / raise>   CS.loop_n (Z.to_nat k) (fun v => ...) v
  a method that returns normally yields (s, None).

Everything is fail closed: anything outside this subset is translator-broken."""
import ast

import pyexpr
import translate as T

CELL = "mesa/discrete_space/cell.py"
AGENT = "mesa/discrete_space/cell_agent.py"
SPACE = "mesa/discrete_space/discrete_space.py"
GRID = "mesa/discrete_space/grid.py"
HEADER = "From Mesa Require Import Common.CellState."
U = pyexpr.Unsupported


class Eff(pyexpr.Tr):
    def __init__(self, self_kind, self_name, vars_, raise_kinds=()):
        super().__init__(bool_names=[k for k, v in vars_.items() if v == "bool"])
        self.self_kind = self_kind          # 'cell' | 'agent' | 'space'
        self.self_name = self_name          # the Gallina variable standing for self
        self.vars = dict(vars_)             # python name -> kind
        self.raise_kinds = list(raise_kinds)  # [(exception class, Gallina kind)] in source order
        self.raise_i = 0
        self.fresh = 0
        self.mode = "state"                 # 'state': results are (s, option kind); 'loop': inl value / inr kind
        self.loop_var = None

    @staticmethod
    def v(name):
        """Gallina identifier of a Python-level name (parameter or local): prefixed, so that no local can capture the
        translator's own variables e, s, a, c, c_<n>, er, k_"""
        return "v_" + name

    # ------------------------------------------------------------ expressions
    def expr(self, e):
        sn = self.self_name
        if isinstance(e, ast.Constant) and e.value is None:
            return "None", "ocell"
        if isinstance(e, ast.Name):
            if e.id == "self":
                return sn, "Z"
            if e.id in self.vars:
                return self.v(e.id), self.vars[e.id]
            raise U(f"unknown name {e.id}")
        if isinstance(e, ast.Attribute) and isinstance(e.value, ast.Name) and e.value.id == "self":
            if self.self_kind == "cell":
                m = {"_agents": (f"(CS.content s {sn})", "list"), "agents": (f"(gen_cell_agents s {sn})", "list"),
                     "capacity": (f"(CS.e_cap e {sn})", "cap"), "is_empty": (f"(gen_is_empty s {sn})", "bool")}
            elif self.self_kind == "agent":
                m = {"_mesa_cell": (f"(CS.ptr s {sn})", "ocell"), "cell": (f"(CS.ptr s {sn})", "ocell"),
                     "DIRECTION_MAP": ("(CS.e_dirs e)", "dirmap")}
            else:
                m = {}
            if e.attr in m:
                return m[e.attr]
            raise U(f"self.{e.attr}")
        if isinstance(e, ast.Attribute) and e.attr == "agents" and not (isinstance(e.value, ast.Name) and e.value.id == "self"):
            t, k = self.expr(e.value)
            if k != "ocell":
                raise U("agents of something that is not an optional cell")
            self.fresh += 1
            c = f"c_{self.fresh}"
            return f"(match {t} with Some {c} => gen_cell_agents s {c} | None => [] end)", "list"
        if isinstance(e, ast.Attribute) and e.attr == "is_empty":
            t, k = self.expr(e.value)
            if k != "Z":
                raise U("is_empty of something that is not a cell")
            return f"(gen_is_empty s {t})", "bool"
        if isinstance(e, ast.Call) and not e.keywords:
            f = e.func
            if isinstance(f, ast.Name) and f.id == "len" and len(e.args) == 1:
                t, k = self.expr(e.args[0])
                if k != "list":
                    raise U("len of a non-list")
                return f"(CS.zlen {t})", "Z"
            if isinstance(f, ast.Attribute) and f.attr == "copy" and not e.args:
                t, k = self.expr(f.value)
                if k != "list":
                    raise U("copy of a non-list")
                return t, "list"
            if isinstance(f, ast.Attribute) and f.attr == "lower" and not e.args:
                t, k = self.expr(f.value)
                if k != "name":
                    raise U("lower of a non-string")
                return f"(CS.lower {t})", "name"
        if isinstance(e, ast.Subscript):
            t, k = self.expr(e.value)
            i, ki = self.expr(e.slice)
            if k == "dirmap" and ki == "name":
                return f"(CS.dir_get {t} {i})", "vec"
            raise U("subscript")
        if isinstance(e, ast.Compare) and len(e.ops) == 1:
            a, ka = self.expr(e.left)
            b, kb = self.expr(e.comparators[0])
            op = type(e.ops[0])
            if ka == "ocell" and kb == "ocell" and op in (ast.Is, ast.IsNot, ast.Eq, ast.NotEq):
                t = f"(CS.opt_eqb {a} {b})"
                return (t if op in (ast.Is, ast.Eq) else f"(negb {t})"), "bool"
            if ka == "Z" and kb == "cap":
                if op is ast.Eq:
                    return f"(CS.opt_eqb (Some {a}) {b})", "bool"
                sym = {ast.Lt: "<?", ast.LtE: "<=?", ast.Gt: ">?", ast.GtE: ">=?"}.get(op)
                if sym:
                    return f"({a} {sym} CS.opt_val {b})", "bool"
            if ka == "Z" and kb == "list" and op in (ast.In, ast.NotIn):
                t = f"(CS.memz {a} {b})"
                return (t if op is ast.In else f"(negb {t})"), "bool"
            if ka == "name" and kb == "dirmap" and op in (ast.In, ast.NotIn):
                t = f"(CS.dir_mem {b} {a})"
                return (t if op is ast.In else f"(negb {t})"), "bool"
            if ka == "Z" and kb == "Z":
                return super().expr(e)
            raise U("comparison")
        if isinstance(e, ast.BoolOp):
            parts = []
            for v in e.values:
                t, k = self.expr(v)
                if k == "cap":
                    t = f"(CS.opt_truthy {t})"
                elif k != "bool":
                    raise U("and/or operand")
                parts.append(t)
            op = " && " if isinstance(e.op, ast.And) else " || "
            out = parts[0]
            for t in parts[1:]:
                out = f"({out}{op}{t})"
            return out, "bool"
        if isinstance(e, ast.UnaryOp) and isinstance(e.op, ast.Not):
            t, k = self.expr(e.operand)
            if k == "cap":
                t, k = f"(CS.opt_truthy {t})", "bool"
            if k != "bool":
                raise U("not of a non-boolean")
            return f"(negb {t})", "bool"
        if isinstance(e, (ast.Constant, ast.BinOp, ast.IfExp)) or (isinstance(e, ast.UnaryOp)):
            return super().expr(e)
        raise U(type(e).__name__ + ": " + ast.unparse(e)[:40])

    def bexpr(self, e):
        t, k = self.expr(e)
        if k == "cap":
            return f"(CS.opt_truthy {t})"
        if k != "bool":
            raise U("a boolean was expected")
        return t

    # ------------------------------------------------------------ results
    def _end(self):
        return "(s, None)" if self.mode == "state" else f"(inl {self.v(self.loop_var)})"

    def _raise(self, kind):
        return f"(s, Some {kind})" if self.mode == "state" else f"(inr {kind})"

    def _bind(self, call, rest):
        if self.mode != "state":
            raise U("a call that changes the state inside a loop body")
        return f"(match {call} with (s, Some er) => (s, Some er) | (s, None) => {rest} end)"

    def _with_cell(self, x, body_of):
        """use the Optional[Cell] expression x as a cell: AttributeError when it is None"""
        t, k = self.expr(x)
        if k != "ocell":
            raise U("method call on something that is not an optional cell")
        self.fresh += 1
        c = f"c_{self.fresh}"
        return f"(match {t} with None => {self._raise('CS.E_ATTR')} | Some {c} => {body_of(c)} end)"

    # ------------------------------------------------------------ statements
    def stmts(self, body):
        if not body:
            return self._end()
        st, rest = body[0], list(body[1:])
        if isinstance(st, ast.Expr) and isinstance(st.value, ast.Constant) and isinstance(st.value.value, str):
            return self.stmts(rest)
        if isinstance(st, ast.Pass):
            return self.stmts(rest)
        if isinstance(st, ast.Return) and st.value is None:
            return self._end()
        if isinstance(st, ast.Raise):
            if self.raise_i >= len(self.raise_kinds):
                raise U("more raise statements than expected")
            cls, kind = self.raise_kinds[self.raise_i]
            self.raise_i += 1
            exc = st.exc
            got = ast.unparse(exc.func) if isinstance(exc, ast.Call) else ast.unparse(exc) if exc else ""
            if got != cls:
                raise U(f"raise {got}, expected {cls}")
            return self._raise(kind)
        if isinstance(st, ast.If):
            c = self.bexpr(st.test)
            saved = dict(self.vars)
            then_t = self.stmts(list(st.body) + ([] if self._terminates(st.body) else rest))
            self.vars = dict(saved)
            els = list(st.orelse)
            else_t = self.stmts(els + ([] if (els and self._terminates(els)) else rest))
            self.vars = saved
            return f"(if {c} then {then_t} else {else_t})"
        if isinstance(st, ast.Assign) and len(st.targets) == 1:
            tg, v = st.targets[0], st.value
            # x = X.connections.get(d)
            if isinstance(tg, ast.Name) and isinstance(v, ast.Call) and isinstance(v.func, ast.Attribute) and v.func.attr == "get" \
                    and isinstance(v.func.value, ast.Attribute) and v.func.value.attr == "connections" and len(v.args) == 1 and not v.keywords:
                d, kd = self.expr(v.args[0])
                if kd not in ("vec",):
                    raise U("connections.get of a non-direction")
                name = tg.id

                def k(c):
                    self.vars[name] = "ocell"
                    return f"(let {self.v(name)} := CS.e_conn e {c} {d} in {self.stmts(rest)})"
                return self._with_cell(v.func.value.value, k)
            if isinstance(tg, ast.Name):
                t, k = self.expr(v)
                self.vars[tg.id] = k
                return f"(let {self.v(tg.id)} := {t} in {self.stmts(rest)})"
            if isinstance(tg, ast.Attribute) and isinstance(tg.value, ast.Name) and tg.value.id == "self":
                t, k = self.expr(v)
                sn = self.self_name
                if self.self_kind == "cell" and tg.attr == "empty" and k == "bool" and self.mode == "state":
                    return f"(let s := CS.set_flag s {sn} {t} in {self.stmts(rest)})"
                if self.self_kind == "agent" and tg.attr == "_mesa_cell" and k == "ocell" and self.mode == "state":
                    return f"(let s := CS.set_ptr s {sn} {t} in {self.stmts(rest)})"
                if self.self_kind == "agent" and tg.attr == "cell" and k == "ocell":
                    return self._bind(f"gen_cell_setter e s {sn} {t}", self.stmts(rest))
            raise U("assignment " + ast.unparse(st)[:50])
        if isinstance(st, ast.Expr) and isinstance(st.value, ast.Call) and not st.value.keywords:
            call = st.value
            f = call.func
            src = ast.unparse(call)
            if src == "super().remove()" and self.self_kind == "agent" and self.mode == "state":
                return f"(let s := CS.set_reg s {self.self_name} false in {self.stmts(rest)})"
            if isinstance(f, ast.Attribute) and ast.unparse(f.value) == "self._agents" and self.self_kind == "cell" \
                    and len(call.args) == 1 and self.mode == "state":
                x, kx = self.expr(call.args[0])
                sn = self.self_name
                if kx != "Z":
                    raise U("list element")
                if f.attr == "append":
                    return f"(let s := CS.set_content s {sn} (CS.content s {sn} ++ [{x}]) in {self.stmts(rest)})"
                if f.attr == "remove":
                    return (f"(if CS.memz {x} (CS.content s {sn}) then "
                            f"(let s := CS.set_content s {sn} (CS.remove_first {x} (CS.content s {sn})) in {self.stmts(rest)}) "
                            f"else {self._raise('CS.E_NOTIN')})")
            if isinstance(f, ast.Attribute) and f.attr in ("add_agent", "remove_agent") and len(call.args) == 1 \
                    and ast.unparse(call.args[0]) == "self" and self.self_kind == "agent":
                gen = "gen_add_agent" if f.attr == "add_agent" else "gen_remove_agent"
                return self._with_cell(f.value, lambda c: self._bind(f"{gen} e s {c} {self.self_name}", self.stmts(rest)))
            raise U("call " + src[:50])
        if isinstance(st, ast.For) and not st.orelse and isinstance(st.iter, ast.Call) and ast.unparse(st.iter.func) == "range" \
                and len(st.iter.args) == 1 and not st.iter.keywords and self.mode == "state":
            n, kn = self.expr(st.iter.args[0])
            if kn != "Z":
                raise U("range bound")
            # the body may re-bind exactly one (already bound) name
            assigned = sorted({t.id for a in ast.walk(ast.Module(body=list(st.body), type_ignores=[])) if isinstance(a, ast.Assign)
                               for t in a.targets if isinstance(t, ast.Name)})
            if len(assigned) != 1 or assigned[0] not in self.vars:
                raise U("loop body must re-bind exactly one bound name")
            v = assigned[0]
            kind_v = self.vars[v]
            self.mode, self.loop_var = "loop", v
            body_t = self.stmts(list(st.body))
            self.mode, self.loop_var = "state", None
            self.vars[v] = kind_v
            pv = self.v(v)
            return (f"(match CS.loop_n (Z.to_nat {n}) (fun {pv} => {body_t}) {pv} with "
                    f"inr k_ => (s, Some k_) | inl {pv} => {self.stmts(rest)} end)")
        raise U("statement " + ast.unparse(st)[:60])


# ---------------------------------------------------------------- locating the methods
def _cls(src, name):
    return T._find_class(T._parse(src), name)


def _method(src, cls, name, setter=False, getter=False):
    c = _cls(src, cls)
    out = []
    for n in c.body:
        if isinstance(n, ast.FunctionDef) and n.name == name:
            decos = [ast.unparse(d) for d in n.decorator_list]
            if setter and decos == [f"{name}.setter"]:
                out.append(n)
            elif getter and decos == ["property"]:
                out.append(n)
            elif not setter and not getter and not decos:
                out.append(n)
    if len(out) != 1:
        raise T.Broken(f"{cls}.{name}: expected exactly one definition, found {len(out)}")
    return out[0]


def _params(fn, expected):
    got = [a.arg for a in fn.args.args]
    if got != expected or fn.args.vararg or fn.args.kwarg or fn.args.kwonlyargs:
        raise T.Broken(f"{fn.name}: parameters {got}, expected {expected}")


def _wrap(what, f):
    try:
        return f()
    except pyexpr.Unsupported as e:
        raise T.Broken(f"{what} is outside the translated subset: {e}") from None


def _body(fn):
    return [s for s in fn.body if not (isinstance(s, ast.Expr) and isinstance(s.value, ast.Constant) and isinstance(s.value.value, str))]


def _ret_expr(fn, tr, kind):
    b = _body(fn)
    if len(b) != 1 or not isinstance(b[0], ast.Return) or b[0].value is None:
        raise T.Broken(f"{fn.name}: expected a single `return <expression>`")
    t, k = tr.expr(b[0].value)
    if k != kind:
        raise pyexpr.Unsupported(f"returns {k}, expected {kind}")
    return t


# ---------------------------------------------------------------- cell.py
def c_cell_agents():
    fn = _method(CELL, "Cell", "agents", getter=True)
    _params(fn, ["self"])
    t = _wrap("Cell.agents", lambda: _ret_expr(fn, Eff("cell", "c", {}), "list"))
    return f"Definition gen_cell_agents (s : CS.state) (c : Z) : list Z :=\n  {t}."


def c_is_empty():
    fn = _method(CELL, "Cell", "is_empty", getter=True)
    _params(fn, ["self"])
    t = _wrap("Cell.is_empty", lambda: _ret_expr(fn, Eff("cell", "c", {}), "bool"))
    return f"Definition gen_is_empty (s : CS.state) (c : Z) : bool :=\n  {t}."


def c_is_full():
    fn = _method(CELL, "Cell", "is_full", getter=True)
    _params(fn, ["self"])
    t = _wrap("Cell.is_full", lambda: _ret_expr(fn, Eff("cell", "c", {}), "bool"))
    return f"Definition gen_is_full (e : CS.env) (s : CS.state) (c : Z) : bool :=\n  {t}."


def c_add_agent():
    fn = _method(CELL, "Cell", "add_agent")
    _params(fn, ["self", "agent"])
    t = _wrap("Cell.add_agent", lambda: Eff("cell", "c", {"agent": "Z"}, [("Exception", "CS.E_FULL")]).stmts(_body(fn)))
    return f"Definition gen_add_agent (e : CS.env) (s : CS.state) (c v_agent : Z) : CS.state * option Z :=\n  {t}."


def c_remove_agent():
    fn = _method(CELL, "Cell", "remove_agent")
    _params(fn, ["self", "agent"])
    t = _wrap("Cell.remove_agent", lambda: Eff("cell", "c", {"agent": "Z"}).stmts(_body(fn)))
    return f"Definition gen_remove_agent (e : CS.env) (s : CS.state) (c v_agent : Z) : CS.state * option Z :=\n  {t}."


# ---------------------------------------------------------------- cell_agent.py
def c_getters():
    """`self.cell` is read as the pointer: both getters must be `return self._mesa_cell`, and BasicMovement /
    CellAgent / FixedAgent / Grid2DMovingAgent must have the bases the dispatch of the model assumes"""
    for cls in ("HasCell", "FixedCell"):
        fn = _method(AGENT, cls, "cell", getter=True)
        if pyexpr.normalized_statements(fn) != ["return self._mesa_cell"]:
            raise T.Broken(f"{cls}.cell getter is not `return self._mesa_cell`")
    bases = {"FixedCell": ["HasCell"], "CellAgent": ["Agent", "HasCell", "BasicMovement"],
             "FixedAgent": ["Agent", "FixedCell"], "Grid2DMovingAgent": ["CellAgent"]}
    for cls, want in bases.items():
        got = [ast.unparse(b) for b in _cls(AGENT, cls).bases]
        if got != want:
            raise T.Broken(f"class {cls} has bases {got}, expected {want}")
    return "Definition gen_cell_getters_ok : bool := true."


def c_cell_setter():
    fn = _method(AGENT, "HasCell", "cell", setter=True)
    _params(fn, ["self", "cell"])
    t = _wrap("HasCell.cell setter", lambda: Eff("agent", "a", {"cell": "ocell"}).stmts(_body(fn)))
    return f"Definition gen_cell_setter (e : CS.env) (s : CS.state) (a : Z) (v_cell : option Z) : CS.state * option Z :=\n  {t}."


def c_fixed_setter():
    fn = _method(AGENT, "FixedCell", "cell", setter=True)
    _params(fn, ["self", "cell"])
    t = _wrap("FixedCell.cell setter", lambda: Eff("agent", "a", {"cell": "ocell"}, [("ValueError", "CS.E_FIXED")]).stmts(_body(fn)))
    return f"Definition gen_fixed_setter (e : CS.env) (s : CS.state) (a : Z) (v_cell : option Z) : CS.state * option Z :=\n  {t}."


def c_move_to():
    fn = _method(AGENT, "BasicMovement", "move_to")
    _params(fn, ["self", "cell"])
    t = _wrap("move_to", lambda: Eff("agent", "a", {"cell": "ocell"}).stmts(_body(fn)))
    return f"Definition gen_move_to (e : CS.env) (s : CS.state) (a : Z) (v_cell : option Z) : CS.state * option Z :=\n  {t}."


def c_move_relative():
    fn = _method(AGENT, "BasicMovement", "move_relative")
    _params(fn, ["self", "direction"])
    t = _wrap("move_relative", lambda: Eff("agent", "a", {"direction": "vec"}, [("ValueError", "CS.E_NODIR")]).stmts(_body(fn)))
    return f"Definition gen_move_relative (e : CS.env) (s : CS.state) (a : Z) (v_direction : list Z) : CS.state * option Z :=\n  {t}."


def c_move2d():
    fn = _method(AGENT, "Grid2DMovingAgent", "move")
    _params(fn, ["self", "direction", "distance"])
    if [ast.unparse(d) for d in fn.args.defaults] != ["1"]:
        raise T.Broken("move: default of distance is not 1")
    t = _wrap("Grid2DMovingAgent.move", lambda: Eff("agent", "a", {"direction": "name", "distance": "Z"},
                                                     [("ValueError", "CS.E_BADDIR"), ("ValueError", "CS.E_NODIR")]).stmts(_body(fn)))
    return f"Definition gen_move2d (e : CS.env) (s : CS.state) (a : Z) (v_direction : list Z) (v_distance : Z) : CS.state * option Z :=\n  {t}."


def c_cellagent_remove():
    fn = _method(AGENT, "CellAgent", "remove")
    _params(fn, ["self"])
    t = _wrap("CellAgent.remove", lambda: Eff("agent", "a", {}).stmts(_body(fn)))
    return f"Definition gen_cellagent_remove (e : CS.env) (s : CS.state) (a : Z) : CS.state * option Z :=\n  {t}."


def c_fixedagent_remove():
    fn = _method(AGENT, "FixedAgent", "remove")
    _params(fn, ["self"])
    t = _wrap("FixedAgent.remove", lambda: Eff("agent", "a", {}).stmts(_body(fn)))
    return f"Definition gen_fixedagent_remove (e : CS.env) (s : CS.state) (a : Z) : CS.state * option Z :=\n  {t}."


# ---------------------------------------------------------------- discrete_space.py / grid.py
def c_empties():
    fn = _method(SPACE, "DiscreteSpace", "empties", getter=True)
    _params(fn, ["self"])
    b = _body(fn)
    ok = (len(b) == 1 and isinstance(b[0], ast.Return) and isinstance(b[0].value, ast.Call)
          and ast.unparse(b[0].value.func) == "self.all_cells.select" and len(b[0].value.args) == 1
          and not b[0].value.keywords and isinstance(b[0].value.args[0], ast.Lambda))
    if not ok:
        raise T.Broken("empties is not `return self.all_cells.select(lambda cell: ...)`")
    lam = b[0].value.args[0]
    if len(lam.args.args) != 1:
        raise T.Broken("empties: the filter takes one argument")
    x = lam.args.args[0].arg
    t = _wrap("empties filter", lambda: Eff("space", "sp", {x: "Z"}).bexpr(lam.body))
    return f"Definition gen_empties (e : CS.env) (s : CS.state) : list Z :=\n  filter (fun {Eff.v(x)} => {t}) (CS.cells_dom e)."


GRID_SKELETON = ["if self._try_random:\n    while True:\n        v0 = self.all_cells.select_random_cell()\n"
                 "        if <accepts>:\n            return v0\nelse:\n    return super().select_random_empty_cell()"]
SPACE_SKELETON = ["return self.random.choice(list(self.empties))"]
RANDOM_CELL_SKELETON = ["return self.random.choice(self.cells)"]


def _grid_loop():
    fn = _method(GRID, "Grid", "select_random_empty_cell")
    _params(fn, ["self"])
    b = _body(fn)
    if len(b) != 1 or not isinstance(b[0], ast.If):
        raise T.Broken("Grid.select_random_empty_cell is not one if/else")
    wh = [n for n in b[0].body if isinstance(n, ast.While)]
    if len(wh) != 1 or len(wh[0].body) != 2 or not isinstance(wh[0].body[1], ast.If):
        raise T.Broken("Grid.select_random_empty_cell: expected `while True:` with a draw and a test")
    return fn, b[0], wh[0].body[1]


def _drawn_name():
    """the local the rejection-sampling loop binds the drawn cell to (any name)"""
    fn, top, test = _grid_loop()
    wh = [n for n in top.body if isinstance(n, ast.While)][0]
    draw = wh.body[0]
    if not (isinstance(draw, ast.Assign) and len(draw.targets) == 1 and isinstance(draw.targets[0], ast.Name)):
        raise T.Broken("Grid.select_random_empty_cell: the loop does not start with `<name> = <draw>`")
    return draw.targets[0].id, test


def c_try_random_accepts():
    name, test = _drawn_name()
    t = _wrap("rejection-sampling test", lambda: Eff("space", "sp", {name: "Z"}).bexpr(test.test))
    return f"Definition gen_try_random_accepts (s : CS.state) ({Eff.v(name)} : Z) : bool :=\n  {t}."


def c_random_empty_skeleton():
    """the statements around the translated acceptance test (random draws and `while True` are not translatable):
    Grid draws from all cells until the test accepts, or defers to DiscreteSpace, which draws from `empties`;
    CellCollection.select_random_cell draws from the collection's cells.  Compared modulo the names of local variables,
    docstrings, comments and formatting (pyexpr.normalized_statements)."""
    fn, top, test = _grid_loop()
    saved = test.test
    test.test = ast.Name(id="<accepts>", ctx=ast.Load())
    try:
        got = pyexpr.normalized_statements(fn)
    finally:
        test.test = saved
    if got != GRID_SKELETON:
        raise T.Broken("statement skeleton of Grid.select_random_empty_cell changed: " + repr(got)[:200])
    fn2 = _method(SPACE, "DiscreteSpace", "select_random_empty_cell")
    if pyexpr.normalized_statements(fn2) != SPACE_SKELETON:
        raise T.Broken("DiscreteSpace.select_random_empty_cell is not `return self.random.choice(list(self.empties))`")
    fn3 = _method("mesa/discrete_space/cell_collection.py", "CellCollection", "select_random_cell")
    if pyexpr.normalized_statements(fn3) != RANDOM_CELL_SKELETON:
        raise T.Broken("CellCollection.select_random_cell is not `return self.random.choice(self.cells)`")
    return "Definition gen_random_empty_skeleton_ok : bool := true."


def _fb(sig, val):
    return lambda: f"Definition {sig} :=\n  {val}."


_ST = "CS.state * option Z"
CONSTRUCTS = [
    ("cell_agents_code", CELL, c_cell_agents, _fb("gen_cell_agents (s : CS.state) (c : Z) : list Z", "[0]")),
    ("cell_is_empty_code", CELL, c_is_empty, _fb("gen_is_empty (s : CS.state) (c : Z) : bool", "false")),
    ("cell_is_full_code", CELL, c_is_full, _fb("gen_is_full (e : CS.env) (s : CS.state) (c : Z) : bool", "true")),
    ("cell_add_agent_code", CELL, c_add_agent, _fb(f"gen_add_agent (e : CS.env) (s : CS.state) (c v_agent : Z) : {_ST}", "(s, Some 0)")),
    ("cell_remove_agent_code", CELL, c_remove_agent, _fb(f"gen_remove_agent (e : CS.env) (s : CS.state) (c v_agent : Z) : {_ST}", "(s, Some 0)")),
    ("cell_getters", AGENT, c_getters, lambda: "Definition gen_cell_getters_ok : bool := false."),
    ("cell_setter_code", AGENT, c_cell_setter, _fb(f"gen_cell_setter (e : CS.env) (s : CS.state) (a : Z) (v_cell : option Z) : {_ST}", "(s, Some 0)")),
    ("fixed_setter_code", AGENT, c_fixed_setter, _fb(f"gen_fixed_setter (e : CS.env) (s : CS.state) (a : Z) (v_cell : option Z) : {_ST}", "(s, Some 0)")),
    ("move_to_code", AGENT, c_move_to, _fb(f"gen_move_to (e : CS.env) (s : CS.state) (a : Z) (v_cell : option Z) : {_ST}", "(s, Some 0)")),
    ("move_relative_code", AGENT, c_move_relative, _fb(f"gen_move_relative (e : CS.env) (s : CS.state) (a : Z) (v_direction : list Z) : {_ST}", "(s, Some 0)")),
    ("move2d_code", AGENT, c_move2d, _fb(f"gen_move2d (e : CS.env) (s : CS.state) (a : Z) (v_direction : list Z) (v_distance : Z) : {_ST}", "(s, Some 0)")),
    ("cellagent_remove_code", AGENT, c_cellagent_remove, _fb(f"gen_cellagent_remove (e : CS.env) (s : CS.state) (a : Z) : {_ST}", "(s, Some 0)")),
    ("fixedagent_remove_code", AGENT, c_fixedagent_remove, _fb(f"gen_fixedagent_remove (e : CS.env) (s : CS.state) (a : Z) : {_ST}", "(s, Some 0)")),
    ("empties_code", SPACE, c_empties, _fb("gen_empties (e : CS.env) (s : CS.state) : list Z", "[]")),
    ("try_random_accepts_code", GRID, c_try_random_accepts, _fb("gen_try_random_accepts (s : CS.state) (v_cell : Z) : bool", "true")),
    ("random_empty_skeleton", GRID, c_random_empty_skeleton, lambda: "Definition gen_random_empty_skeleton_ok : bool := false."),
]
