"""T1 (code level) for C01 (coq/Model/Rng.v, coq/Model/Seed.v):

  rng_sites            every constructor call, inside the mesa package (library + bundled examples, visualization excluded), of a
                       class that carries a generator - AgentSet, CellCollection, Cell (also through `cell_klass(...)`),
                       DiscreteSpace and its subclasses (incl. `super().__init__(...)` inside them), the experimental
                       ContinuousSpace - or of GroupBy, with the KIND of expression handed over as `random`
                       (keyword or the documented positional slot):
                         KSelfRandom        self.random           (the enclosing object's own generator)
                         KModelRandom       model.random / self.model.random
                         KPassThrough       the `random` parameter of the enclosing __init__
                         KFirstAgentOrNone  the local `rng` of the legacy `.agents` properties (agents[0].random, None if empty)
                         KNoParam           the class has no generator (GroupBy)
                         KOmitted           nothing is passed                      )  never allowed
                         KOther             anything else (Random(), None, ...)    )
                       and the SITE (which modelled function the call is in).  -> gen_rng_sites
  model_init_code      Model.__init__: which of seed / rng is given, what random.Random and default_rng are seeded with,
                       what is recorded in _seed - translated statement by statement (tables.SeedTr below)
  reset_randomizer_code / reset_rng_code    likewise; in particular whether `self.random` is re-seeded IN PLACE
                       (`self.random.seed(x)`) or re-bound (`self.random = random.Random(x)`)
  model_init_skeleton  the residual glue statements of Model.__init__ (verbatim)
"""
import ast
import os

import pyexpr
import translate as T

SRC = "mesa/model.py"

HEADER = """Inductive rng_kind := KSelfRandom | KModelRandom | KPassThrough | KFirstAgentOrNone | KNoParam | KOmitted | KOther.
Inductive rng_site := SModelInit | SRegisterAgent | SCreateAgents | SSelect | SShuffle | SSort | SGroupBy | SGroupByCtor
  | SSpaceAgents | SAllCells | SCellSelect | SCellNbhd | SLegacyAgents | SExpSpaceAgents | SSpaceCtor | SExample | SOtherSite."""

# (file, class, function) -> site of the model
SITES = {
    ("mesa/model.py", "Model", "__init__"): "SModelInit",
    ("mesa/model.py", "Model", "register_agent"): "SRegisterAgent",
    ("mesa/agent.py", "Agent", "create_agents"): "SCreateAgents",
    ("mesa/agent.py", "AgentSet", "select"): "SSelect",
    ("mesa/agent.py", "AgentSet", "shuffle"): "SShuffle",
    ("mesa/agent.py", "AgentSet", "sort"): "SSort",
    ("mesa/agent.py", "AgentSet", "groupby"): "SGroupBy",
    ("mesa/discrete_space/discrete_space.py", "DiscreteSpace", "agents"): "SSpaceAgents",
    ("mesa/discrete_space/discrete_space.py", "DiscreteSpace", "all_cells"): "SAllCells",
    ("mesa/discrete_space/cell_collection.py", "CellCollection", "select"): "SCellSelect",
    ("mesa/discrete_space/cell.py", "Cell", "get_neighborhood"): "SCellNbhd",
    ("mesa/space.py", "_Grid", "agents"): "SLegacyAgents",
    ("mesa/space.py", "ContinuousSpace", "agents"): "SLegacyAgents",
    ("mesa/space.py", "NetworkGrid", "agents"): "SLegacyAgents",
    ("mesa/experimental/continuous_space/continuous_space.py", "ContinuousSpace", "agents"): "SExpSpaceAgents",
}
ROOTS = {("mesa/agent.py", "AgentSet"), ("mesa/discrete_space/cell_collection.py", "CellCollection"),
         ("mesa/discrete_space/cell.py", "Cell"), ("mesa/discrete_space/discrete_space.py", "DiscreteSpace"),
         ("mesa/experimental/continuous_space/continuous_space.py", "ContinuousSpace")}
NOPARAM = {("mesa/agent.py", "GroupBy")}
# position of `random` among the positional arguments (after self) where a class accepts it positionally
POSITIONAL = {"AgentSet": 1, "CellCollection": 1, "Cell": 2}


def _py_files():
    out = []
    root = os.path.join(T.REPO, "mesa")
    for d, dirs, files in os.walk(root):
        dirs[:] = sorted(x for x in dirs if x not in ("__pycache__", "visualization"))
        for fn in sorted(files):
            if fn.endswith(".py"):
                out.append(os.path.relpath(os.path.join(d, fn), T.REPO))
    return out


def _module_of(rel):
    return rel[:-3].replace("/", ".").removesuffix(".__init__")


def _class_table(files):
    """(file, class) -> list of base names (as written); module -> {name: (file, class)} of classes and re-exports"""
    trees = {f: T._parse(f) for f in files}
    classes = {}
    for f, tree in trees.items():
        for n in ast.walk(tree):
            if isinstance(n, ast.ClassDef):
                classes[(f, n.name)] = [ast.unparse(b) for b in n.bases]
    return trees, classes


def _resolve_factory(files, trees, classes):
    """returns resolve(file, name_text) -> (file, class) or None, following `from mesa... import X` (incl. package re-exports)"""
    mod_file = {_module_of(f): f for f in files}
    exports = {}

    def names_of(f, depth=0):
        if f in exports:
            return exports[f]
        exports[f] = d = {}
        for n in trees[f].body:
            if isinstance(n, ast.ClassDef):
                d[n.name] = (f, n.name)
        for n in ast.walk(trees[f]):
            if isinstance(n, ast.ImportFrom) and depth < 6:
                if n.level == 0:
                    modname = n.module or ""
                else:   # relative import: resolve against the package of this file
                    pkg = _module_of(f).split(".")
                    if not f.endswith("__init__.py"):
                        pkg = pkg[:-1]
                    pkg = pkg[:len(pkg) - (n.level - 1)]
                    modname = ".".join(pkg + ([n.module] if n.module else []))
                if not modname.startswith("mesa"):
                    continue
                src = mod_file.get(modname)
                if src is None:
                    continue
                src_names = names_of(src, depth + 1)
                for a in n.names:
                    if a.name in src_names:
                        d.setdefault(a.asname or a.name, src_names[a.name])
        return d

    def resolve(f, text):
        text = text.split("[")[0]
        parts = text.split(".")
        if len(parts) == 1:
            return names_of(f).get(parts[0])
        if parts[0] == "mesa":     # mesa.discrete_space.OrthogonalVonNeumannGrid
            m = mod_file.get(".".join(parts[:-1]))
            return names_of(m).get(parts[-1]) if m else None
        return None

    return resolve


def _carrier(cls, classes, resolve, seen=()):
    """is (file, class) a generator-carrying class?  -> 'root name' | None"""
    if cls in ROOTS:
        return cls[1]
    if cls in seen or cls not in classes:
        return None
    for b in classes[cls]:
        r = resolve(cls[0], b)
        if r is not None:
            c = _carrier(r, classes, resolve, seen + (cls,))
            if c:
                return c
    return None


def scan_sites():
    """-> list of (file, line, site, kind, text)"""
    files = _py_files()
    trees, classes = _class_table(files)
    resolve = _resolve_factory(files, trees, classes)
    out = []

    def kind_of(expr, fn_params, fn_node, first_arg=None):
        if expr is None:
            return "KOmitted"
        t = ast.unparse(expr)
        if t == "self.random":
            return "KSelfRandom"
        if t in ("model.random", "self.model.random"):
            return "KModelRandom"
        if t == "random" and "random" in fn_params:
            return "KPassThrough"
        if isinstance(expr, ast.Name) and fn_node is not None and expr.id not in fn_params and first_arg is not None:
            # a LOCAL variable (whatever it is called): the legacy `.agents` fall-back - it must be bound exactly twice, to
            # <the list handed to AgentSet>[0].random and to None (names of locals do not matter)
            binds = sorted(ast.unparse(a) for a in ast.walk(fn_node) if isinstance(a, ast.Assign)
                           and len(a.targets) == 1 and ast.unparse(a.targets[0]) == expr.id)
            if binds == sorted([f"{expr.id} = None", f"{expr.id} = {first_arg}[0].random"]):
                return "KFirstAgentOrNone"
            return "KOther"
        return "KOther"

    for f in files:
        tree = trees[f]
        def visit(node, cls, fn):
            for child in ast.iter_child_nodes(node):
                if isinstance(child, ast.ClassDef):
                    visit(child, child, None)
                elif isinstance(child, (ast.FunctionDef, ast.AsyncFunctionDef)):
                    visit(child, cls, fn if fn is not None else child)   # nested helpers belong to the method they are in
                else:
                    if isinstance(child, ast.Call):
                        handle(child, cls, fn)
                    visit(child, cls, fn)

        def handle(call, cls, fn):
            ftxt = ast.unparse(call.func)
            cname = cls.name if cls is not None else ""
            fname = fn.name if fn is not None else ""
            params = [a.arg for a in fn.args.args + fn.args.kwonlyargs] if fn is not None else []
            target = None
            if ftxt.endswith("cell_klass"):
                target = "Cell"
            elif ftxt == "super().__init__" and cls is not None and _carrier((f, cname), classes, resolve) and (f, cname) not in ROOTS:
                target = "super"
            else:
                r = resolve(f, ftxt)
                if r is not None:
                    if r in NOPARAM:
                        target = "GroupBy"
                    else:
                        target = _carrier(r, classes, resolve)
            if target is None:
                return
            if target == "GroupBy":
                kind, expr = "KNoParam", None
            else:
                expr = next((k.value for k in call.keywords if k.arg == "random"), None)
                if expr is None and target in POSITIONAL and len(call.args) > POSITIONAL[target] \
                        and not any(isinstance(a, ast.Starred) for a in call.args):
                    expr = call.args[POSITIONAL[target]]
                if expr is None and any(k.arg is None for k in call.keywords):
                    kind = "KOther"     # **kwargs: cannot be decided statically
                else:
                    first = ast.unparse(call.args[0]) if call.args and isinstance(call.args[0], ast.Name) else None
                    kind = kind_of(expr, params, fn, first)
            site = SITES.get((f, cname, fname))
            if site is None:
                if target == "GroupBy":
                    site = "SGroupByCtor"
                elif f.startswith("mesa/examples/"):
                    site = "SExample"
                elif target in ("Cell", "super"):
                    site = "SSpaceCtor"
                else:
                    site = "SOtherSite"
            elif target == "GroupBy":
                site = "SGroupByCtor"
            out.append((f, call.lineno, site, kind, f"{ftxt}(... random={ast.unparse(expr) if expr is not None else '<none>'})"))

        visit(tree, None, None)
    return files, sorted(out)


def c_rng_sites():
    files, sites = scan_sites()
    if not sites:
        raise T.Broken("no constructor call of a generator-carrying class found: the scan no longer understands the package")
    seen = {s[2] for s in sites}
    missing = sorted(set(SITES.values()) - seen)
    if missing:
        raise T.Broken(f"modelled sites without a constructor call: {missing}")
    body = ";\n  ".join(f"(({files.index(f)}, {ln}), ({site}, {kind}))" for f, ln, site, kind, _ in sites)
    comment = "".join(f"\n   {f}:{ln}: {site} {kind}  {txt}" for f, ln, site, kind, txt in sites)
    return f"(*{comment} *)\nDefinition gen_rng_sites : list ((Z * Z) * (rng_site * rng_kind)) := [\n  {body}]."


# ------------------------------------------------------------------------------------------------------------
class SeedTr(pyexpr.Tr):
    """pyexpr for the seed handling of mesa/model.py.  Values of `seed`, `rng`, `self._seed` are `option Z`
    (None = Python None); `x is None` / `x is not None` are booleans; a `try: <constructor call> ... except TypeError:`
    is a conditional on whether that constructor accepts the value (an input: std_ok for random.Random, np_ok for
    numpy's default_rng); what is drawn in a fall-back is an input (drawn_np, drawn_std).  Effects are collected in
    let-bound names:  random_arg (self.random = random.Random(x)),  reseed_arg (self.random.seed(x), in place),
    rng_arg (self.rng = np.random.default_rng(x)),  seed_rec (self._seed = x) - each `option (option Z)`, None = the
    statement was not executed on this path."""

    OPT = {"seed", "rng"}

    def __init__(self, glue=()):
        super().__init__()
        self.glue = list(glue)
        self.glue_seen = []

    def oexpr(self, e):
        """option Z valued expressions"""
        if isinstance(e, ast.Name) and e.id in self.OPT:
            return e.id
        if isinstance(e, ast.Constant) and e.value is None:
            return "(@None Z)"
        if isinstance(e, ast.IfExp):
            return f"(if {self.bexpr(e.test)} then {self.oexpr(e.body)} else {self.oexpr(e.orelse)})"
        t = ast.unparse(e)
        if t == "self._seed":
            return "cur_seed"
        if t == "int(self.rng.integers(np.iinfo(np.int32).max))":
            return "(Some drawn_np)"
        if t == "self.random.randint(0, sys.maxsize)":
            return "(Some drawn_std)"
        raise pyexpr.Unsupported(f"seed-valued expression {t}")

    def expr(self, e):
        if isinstance(e, ast.Compare) and len(e.ops) == 1 and isinstance(e.ops[0], (ast.Is, ast.IsNot)) \
                and isinstance(e.comparators[0], ast.Constant) and e.comparators[0].value is None:
            v = self.oexpr(e.left)
            t = f"(match {v} with None => true | Some _ => false end)"
            return (t if isinstance(e.ops[0], ast.Is) else f"(negb {t})"), "bool"
        return super().expr(e)

    def stmts(self, stmts, final):
        if not stmts:
            return final
        s, rest = stmts[0], stmts[1:]
        if isinstance(s, ast.Expr) and isinstance(s.value, ast.Constant) and isinstance(s.value.value, str):
            return self.stmts(rest, final)
        if isinstance(s, ast.Raise):
            return "None"
        if isinstance(s, ast.If):
            c = self.bexpr(s.test)
            return f"(if {c} then {self.stmts(list(s.body) + rest, final)} else {self.stmts(list(s.orelse) + rest, final)})"
        if isinstance(s, ast.Try):
            if len(s.handlers) != 1 or ast.unparse(s.handlers[0].type) != "TypeError" or s.orelse or s.finalbody or not s.body:
                raise pyexpr.Unsupported("try statement of an unknown shape")
            first = ast.unparse(s.body[0].value) if isinstance(s.body[0], (ast.Assign, ast.AnnAssign)) else ""
            if first.startswith("random.Random("):
                flag = "std_ok"
            elif first.startswith("np.random.default_rng("):
                flag = "np_ok"
            else:
                raise pyexpr.Unsupported("the call that may raise TypeError must be the first statement of the try body")
            return f"(if {flag} then {self.stmts(list(s.body) + rest, final)} else {self.stmts(list(s.handlers[0].body) + rest, final)})"
        tgt = val = None
        if isinstance(s, ast.Assign) and len(s.targets) == 1:
            tgt, val = ast.unparse(s.targets[0]), s.value
        elif isinstance(s, ast.AnnAssign) and s.value is not None:
            tgt, val = ast.unparse(s.target), s.value
        if tgt == "self.random":
            if not (isinstance(val, ast.Call) and ast.unparse(val.func) == "random.Random" and len(val.args) == 1 and not val.keywords):
                raise pyexpr.Unsupported("self.random = " + ast.unparse(val))
            return f"(let random_arg := Some {self.oexpr(val.args[0])} in {self.stmts(rest, final)})"
        if tgt == "self.rng":
            if not (isinstance(val, ast.Call) and ast.unparse(val.func) == "np.random.default_rng" and len(val.args) == 1 and not val.keywords):
                raise pyexpr.Unsupported("self.rng = " + ast.unparse(val))
            return f"(let rng_arg := Some {self.oexpr(val.args[0])} in {self.stmts(rest, final)})"
        if tgt == "self._seed":
            return f"(let seed_rec := Some {self.oexpr(val)} in {self.stmts(rest, final)})"
        if tgt in self.OPT:
            return f"(let {tgt} := {self.oexpr(val)} in {self.stmts(rest, final)})"
        if isinstance(s, ast.Expr) and isinstance(s.value, ast.Call) and ast.unparse(s.value.func) == "self.random.seed" \
                and len(s.value.args) == 1 and not s.value.keywords:
            return f"(let reseed_arg := Some {self.oexpr(s.value.args[0])} in {self.stmts(rest, final)})"
        txt = ast.unparse(s)
        if txt in self.glue:
            self.glue_seen.append(txt)
            return self.stmts(rest, final)
        raise pyexpr.Unsupported(f"statement outside the translated subset and not listed as glue: {txt[:90]}")


INIT = "(let random_arg := @None (option Z) in let reseed_arg := @None (option Z) in let rng_arg := @None (option Z) in let seed_rec := @None (option Z) in "
RESULT = "(random_arg, reseed_arg, rng_arg, seed_rec)"
RTYPE = "(option (option Z) * option (option Z) * option (option Z) * option (option Z))"

GLUE_INIT = [
    "super().__init__(*args, **kwargs)",
    "self.running = True",
    "self.steps: int = 0",
    "self._rng = self.rng.bit_generator.state",
    "self._user_step = self.step",
    "self.step = self._wrapped_step",
    "self._agents = {}",
    "self._agents_by_type: dict[type[Agent], AgentSet] = {}",
    "self._all_agents = AgentSet([], random=self.random)",
]
GLUE_RESET_RNG = ["self._rng = self.rng.bit_generator.state"]


def _model_fn(name):
    return T._find_func(T._find_class(T._parse(SRC), "Model"), name)


def _translate(name, glue, params_expected):
    fn = _model_fn(name)
    params = [a.arg for a in fn.args.args + fn.args.kwonlyargs]
    if params != params_expected:
        raise T.Broken(f"unexpected parameters of Model.{name}: {params}")
    # statements modulo the names of local variables (pyexpr.normalized_statements does the same renaming), docstrings,
    # comments, formatting and the text of the exception message (a `raise` is translated to None whatever it says)
    import copy

    fn = pyexpr._Renamer({n: f"v{i}" for i, n in enumerate(pyexpr.local_names(fn))}).visit(copy.deepcopy(fn))
    tr = SeedTr(glue)
    try:
        body = tr.stmts(list(fn.body), f"Some {RESULT}")
    except pyexpr.Unsupported as e:
        raise T.Broken(f"Model.{name} is outside the translated subset: {e}") from None
    return body, tr


def c_model_init():
    body, _ = _translate("__init__", GLUE_INIT, ["self", "seed", "rng"])
    return ("Definition gen_model_init (seed rng : option Z) (std_ok np_ok : bool) (drawn_np drawn_std : Z) (cur_seed : option Z)\n"
            f"  : option {RTYPE} :=\n  {INIT}{body}).")


GLUE_INIT_SEQUENCE = [     # in source order, with the branch each occurrence is in
    "super().__init__(*args, **kwargs)",
    "self.running = True",
    "self.steps: int = 0",
    "self._rng = self.rng.bit_generator.state",      # seed is None branch
    "self._rng = self.rng.bit_generator.state",      # rng is None branch
    "self._user_step = self.step",
    "self.step = self._wrapped_step",
    "self._agents = {}",
    "self._agents_by_type: dict[type[Agent], AgentSet] = {}",
    "self._all_agents = AgentSet([], random=self.random)",
]


def c_init_skeleton():
    """the residual glue statements of Model.__init__ (everything SeedTr does not translate), in source order and with
    their multiplicity, modulo local-variable names, docstrings, comments, formatting and message texts"""
    import copy

    fn = _model_fn("__init__")
    fn = pyexpr._Renamer({n: f"v{i}" for i, n in enumerate(pyexpr.local_names(fn))}).visit(copy.deepcopy(fn))
    _translate("__init__", GLUE_INIT, ["self", "seed", "rng"])     # fails closed on anything neither translated nor glue
    seen = []

    def walk(stmts):
        for st in stmts:
            if isinstance(st, ast.If):
                walk(st.body)
                walk(st.orelse)
            elif isinstance(st, ast.Try):
                walk(st.body)
                for h in st.handlers:
                    walk(h.body)
            else:
                txt = ast.unparse(st)
                if txt in GLUE_INIT:
                    seen.append(txt)

    walk(fn.body)
    if seen != GLUE_INIT_SEQUENCE:
        diff = [f"{a!r} where {b!r} was expected" for a, b in zip(seen, GLUE_INIT_SEQUENCE) if a != b] \
            or [f"{len(seen)} glue statements, expected {len(GLUE_INIT_SEQUENCE)}"]
        raise T.Broken("glue statements of Model.__init__ changed: " + diff[0][:200])
    return "Definition gen_model_init_skeleton_ok : bool := true."


def c_reset_randomizer():
    body, _ = _translate("reset_randomizer", [], ["self", "seed"])
    return ("Definition gen_reset_randomizer (seed : option Z) (cur_seed : option Z) (rng : option Z) (std_ok np_ok : bool) (drawn_np drawn_std : Z)\n"
            f"  : option {RTYPE} :=\n  {INIT}{body}).")


def c_reset_rng():
    body, _ = _translate("reset_rng", GLUE_RESET_RNG, ["self", "rng"])
    return ("Definition gen_reset_rng (rng : option Z) (seed cur_seed : option Z) (std_ok np_ok : bool) (drawn_np drawn_std : Z)\n"
            f"  : option {RTYPE} :=\n  {INIT}{body}).")


def c_agent_props():
    """Agent.random / Agent.rng are PROPERTIES that read the model's generators at every access (so a re-bound model.rng
    - reset_rng makes a new Generator by design - is what every agent sees): bodies must be exactly these returns"""
    cls = T._find_class(T._parse("mesa/agent.py"), "Agent")
    got = {}
    for name, want in (("random", "return self.model.random"), ("rng", "return self.model.rng")):
        fn = T._find_func(cls, name)
        if not any(ast.unparse(d) == "property" for d in fn.decorator_list):
            raise T.Broken(f"Agent.{name} is not a property")
        got[name] = pyexpr.normalized_statements(fn) == [want]
    for st in ast.walk(T._find_func(cls, "__init__")):
        if isinstance(st, (ast.Assign, ast.AnnAssign)) and ast.unparse(st.targets[0] if isinstance(st, ast.Assign) else st.target) in ("self.random", "self.rng"):
            raise T.Broken("Agent.__init__ caches a generator")
    return ("Definition gen_agent_random_is_models : bool := " + ("true" if got["random"] else "false") + ".\n"
            "Definition gen_agent_rng_is_models : bool := " + ("true" if got["rng"] else "false") + ".")


_FB = f"None"
CONSTRUCTS = [
    ("agent_generator_props", "mesa/agent.py", c_agent_props,
     lambda: "Definition gen_agent_random_is_models : bool := false.\nDefinition gen_agent_rng_is_models : bool := false."),
    ("rng_sites", "mesa/**/*.py", c_rng_sites,
     lambda: "Definition gen_rng_sites : list ((Z * Z) * (rng_site * rng_kind)) := [((-1, -1), (SOtherSite, KOther))]."),
    ("model_init_code", SRC, c_model_init,
     lambda: "Definition gen_model_init (seed rng : option Z) (std_ok np_ok : bool) (drawn_np drawn_std : Z) (cur_seed : option Z)\n"
             f"  : option {RTYPE} := None."),
    ("model_init_skeleton", SRC, c_init_skeleton, lambda: "Definition gen_model_init_skeleton_ok : bool := false."),
    ("reset_randomizer_code", SRC, c_reset_randomizer,
     lambda: "Definition gen_reset_randomizer (seed : option Z) (cur_seed : option Z) (rng : option Z) (std_ok np_ok : bool) (drawn_np drawn_std : Z)\n"
             f"  : option {RTYPE} := None."),
    ("reset_rng_code", SRC, c_reset_rng,
     lambda: "Definition gen_reset_rng (rng : option Z) (seed cur_seed : option Z) (std_ok np_ok : bool) (drawn_np drawn_std : Z)\n"
             f"  : option {RTYPE} := None."),
]
