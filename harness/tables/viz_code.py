"""T1 (code level) for mesa/visualization: the functions Model/Viz.v transcribes by hand are TRANSLATED from
the working tree into executable Gallina on every run; Proofs/VizBridge.v proves `model function = generated
function` and Properties/C20.v restates the headline theorems about the generated code.

  solara_viz.py          _check_model_params   -> gen_check_* (both any(), both loop bodies, the whole function)
                         check_param_is_fixed  -> gen_check_param_is_fixed
                         split_model_params    -> gen_split_step / gen_split_model_params
  mpl_space_drawing.py   collect_agent_data    -> gen_agent_loc, gen_collect_mark (which pop feeds which column)
                         _scatter              -> gen_scatter (mask arithmetic, both loops, the scatter call)
                         draw_hex_grid         -> gen_hex_center_x / _y      (units: x sqrt3/2, y 1/2)
                         _get_hexmesh          -> gen_mesh_centres           (loop order and centre formula)
                         draw_property_layers  -> gen_layer_image_cmap / _color, gen_hex_layer_colors
  altair_components.py   _get_agent_data_*     -> gen_altair_xy_old / _new / _cont  + loop-header skeleton
                         _draw_grid            -> gen_altair_enc_dict / gen_altair_enc_flags (source dict of the encodings)

The vocabulary (types, select, pop_*, is_slider, ...) is coq/Common/VizTypes.v, imported locally in a Section so
that no name leaks into Generated/Tables.v.  Everything outside the translated subset is `Broken` (fail closed)."""
import ast
import re

import pyexpr
import translate as T

SOLARA = "mesa/visualization/solara_viz.py"
MPL = "mesa/visualization/mpl_space_drawing.py"
ALTAIR = "mesa/visualization/components/altair_components.py"
HEADER = "From Mesa Require Common.ListX Common.VizTypes."


def _wrap(name, text):
    return (f"Section sec_{name}.\nImport Mesa.Common.ListX Mesa.Common.VizTypes.\n{text}\nEnd sec_{name}.")


def _nodoc(body):
    return [s for s in body if not (isinstance(s, ast.Expr) and isinstance(s.value, ast.Constant) and isinstance(s.value.value, str))]


# --- statements are compared / translated MODULO the names of local variables: every extractor first renames the
# locals that play a role (found by what they are assigned / iterate over) to canonical names; docstrings and
# comments never matter (ast), exception message texts are not compared (error codes come from the position)
def _canon(fn, roles):
    """roles: [(canonical name, finder)]; finder(fn) -> actual local name or None.  Applied one after the other, so a
    later finder may use the canonical names of earlier roles."""
    import copy

    fn = copy.deepcopy(fn)
    for canon, finder in roles:
        actual = finder(fn)
        if actual is None:
            raise T.Broken(f"{fn.name}: no local variable plays the role of `{canon}`")
        if actual != canon:
            clash = [n for n in ast.walk(fn) if isinstance(n, ast.Name) and n.id == canon]
            if clash:
                raise T.Broken(f"{fn.name}: `{canon}` is used for something else")
            fn = pyexpr._Renamer({actual: canon}).visit(fn)
    # every other local gets a positional name, so that no choice of name can clash with the generated binders
    keep = {c for c, _ in roles}
    rest = {n: f"loc{i}_" for i, n in enumerate(pyexpr.local_names(fn, keep=keep))}
    return pyexpr._Renamer(rest).visit(fn)


def _assigned(pattern):
    """the name assigned a value whose source text matches `pattern` (first in source order)"""
    def f(fn):
        for n in ast.walk(fn):
            if isinstance(n, ast.Assign) and len(n.targets) == 1 and isinstance(n.targets[0], ast.Name) \
                    and re.fullmatch(pattern, ast.unparse(n.value), re.S):
                return n.targets[0].id
        return None
    return f


def _loop_var(iter_pattern, index=None, nth=0):
    """the target (or its index-th component, possibly nested like (1, 0)) of the nth loop / comprehension over `iter_pattern`"""
    def f(fn):
        k = 0
        for n in ast.walk(fn):
            if isinstance(n, (ast.For, ast.comprehension)) and re.fullmatch(iter_pattern, ast.unparse(n.iter), re.S):
                if k == nth:
                    t = n.target
                    for i in (index if isinstance(index, tuple) else (() if index is None else (index,))):
                        if not isinstance(t, ast.Tuple) or i >= len(t.elts):
                            return None
                        t = t.elts[i]
                    return t.id if isinstance(t, ast.Name) else None
                k += 1
        return None
    return f


def _guard(f):
    def g():
        try:
            return f()
        except pyexpr.Unsupported as e:
            raise T.Broken(f"outside the translated subset: {e}") from None
    return g


# =============================================================================== _check_model_params
KINDS = {"POSITIONAL_ONLY": "PosOnly", "POSITIONAL_OR_KEYWORD": "PosOrKw", "VAR_POSITIONAL": "VarPos",
         "KEYWORD_ONLY": "KwOnly", "VAR_KEYWORD": "VarKw"}
E_VARARGS, E_MISSING, E_INVALID, E_POSONLY = 1, 2, 3, 4


def _message_prefix(s):
    """literal beginning of the message of `raise ValueError(<str or f-string>)` (for the harness only)"""
    if not (isinstance(s, ast.Raise) and isinstance(s.exc, ast.Call) and ast.unparse(s.exc.func) == "ValueError" and len(s.exc.args) == 1):
        raise pyexpr.Unsupported("raise of something else than ValueError(message)")
    a = s.exc.args[0]
    if isinstance(a, ast.Constant) and isinstance(a.value, str):
        return a.value
    if isinstance(a, ast.JoinedStr) and a.values and isinstance(a.values[0], ast.Constant):
        return a.values[0].value
    raise pyexpr.Unsupported("error message is not a (formatted) string literal")


class CheckTr(pyexpr.Tr):
    """expressions over one inspect.Parameter `param`, its `name`, the given names `model_params`"""

    def __init__(self):
        super().__init__()
        self.kind_sets = {}        # tuple-valued names: keyword_kinds -> [PosOrKw, KwOnly]
        self.options = {}          # option-valued names: param -> "(lookup_param s name)"
        self.where = "top"         # top | sig (loop over the signature) | given (loop over the given names)
        self.messages = []         # (literal message prefix, error code) in source order
        self.lex_posonly = set()

    def mark_lexical(self, stmts, inside=False):
        """raise statements that stand lexically inside an `if` testing for POSITIONAL_ONLY"""
        for st in stmts:
            if isinstance(st, ast.Raise) and inside:
                self.lex_posonly.add(id(st))
            elif isinstance(st, ast.If):
                self.mark_lexical(st.body, inside or "POSITIONAL_ONLY" in ast.unparse(st.test))
                self.mark_lexical(st.orelse, inside)

    def raise_code(self, s, posonly=False):
        """the error code of a raise is decided by WHERE it stands (which loop, lexically under which test), never by
        the wording of its message"""
        code = {"top": E_VARARGS, "sig": E_POSONLY if id(s) in self.lex_posonly else E_MISSING, "given": E_INVALID}[self.where]
        if (_message_prefix(s), code) not in self.messages:
            self.messages.append((_message_prefix(s), code))
        return str(code)

    def _kind(self, text):
        m = re.fullmatch(r"inspect\.Parameter\.(\w+)", text)
        if not m or m.group(1) not in KINDS:
            raise pyexpr.Unsupported(f"not a parameter kind: {text}")
        return KINDS[m.group(1)]

    def expr(self, e):
        if isinstance(e, ast.Compare) and len(e.ops) == 1:
            l, r, op = ast.unparse(e.left), ast.unparse(e.comparators[0]), e.ops[0]
            neg = isinstance(op, (ast.NotEq, ast.IsNot, ast.NotIn))
            wrap = (lambda t: f"(negb {t})") if neg else (lambda t: t)
            m = re.fullmatch(r"(\w+)\.kind", l)
            if m and isinstance(op, (ast.Eq, ast.NotEq, ast.Is, ast.IsNot)) and r.startswith("inspect.Parameter."):
                return wrap(f"(is_kind {self._kind(r)} {m.group(1)})"), "bool"
            if m and isinstance(op, (ast.In, ast.NotIn)):
                ks = self.kind_sets.get(r)
                if ks is None and isinstance(e.comparators[0], (ast.Tuple, ast.List, ast.Set)):
                    ks = [self._kind(ast.unparse(x)) for x in e.comparators[0].elts]
                if not ks:
                    raise pyexpr.Unsupported(f"membership in {r}")
                t = " || ".join(f"is_kind {k} {m.group(1)}" for k in ks)
                return wrap(f"({t})"), "bool"
            m = re.fullmatch(r"(\w+)\.default", l)
            if m and r == "inspect.Parameter.empty" and isinstance(op, (ast.Eq, ast.NotEq, ast.Is, ast.IsNot)):
                return (f"(pdef {m.group(1)})" if neg else f"(negb (pdef {m.group(1)}))"), "bool"
            if l == "name" and r == "'self'" and isinstance(op, (ast.Eq, ast.NotEq)):
                return wrap("(name =? SELF)"), "bool"
            if l == "name" and r == "model_params" and isinstance(op, (ast.In, ast.NotIn)):
                return wrap("(memz name ps)"), "bool"
            raise pyexpr.Unsupported(f"comparison {ast.unparse(e)}")
        if isinstance(e, ast.BoolOp) and isinstance(e.op, ast.And) and isinstance(e.values[0], ast.Compare):
            c = e.values[0]
            # `param is not None and <rest>` over an option-valued name
            if (len(c.ops) == 1 and isinstance(c.ops[0], ast.IsNot) and isinstance(c.left, ast.Name) and c.left.id in self.options
                    and ast.unparse(c.comparators[0]) == "None"):
                rest = e.values[1] if len(e.values) == 2 else ast.BoolOp(op=ast.And(), values=e.values[1:])
                t = self.bexpr(rest)
                return f"(match {self.options[c.left.id]} with Some {c.left.id} => {t} | None => false end)", "bool"
        return super().expr(e)

    def code(self, stmts, posonly=False):
        """loop body / function tail -> Z: the code of the ValueError raised, 0 when control falls through / continues"""
        if not stmts:
            return "0"
        s, rest = stmts[0], stmts[1:]
        if isinstance(s, ast.Continue):
            return "0"
        if isinstance(s, ast.Raise):
            return self.raise_code(s, posonly)
        if isinstance(s, ast.If):
            c = self.bexpr(s.test)
            inner = posonly or "POSITIONAL_ONLY" in ast.unparse(s.test)
            then_t = self.code(list(s.body) + ([] if self._terminates(s.body) else rest), inner)
            els = list(s.orelse)
            else_t = self.code(els + ([] if (els and self._terminates(els)) else rest), posonly)
            return f"(if {c} then {then_t} else {else_t})"
        if isinstance(s, ast.Assign) and len(s.targets) == 1 and isinstance(s.targets[0], ast.Name):
            name = s.targets[0].id
            if ast.unparse(s.value) in ("model_parameters.get(name)", "model_parameters.get(name, None)"):
                self.options[name] = "(lookup_param s name)"
                return self.code(rest, posonly)
            t = self.bexpr(s.value)
            self.bool_names.add(name)
            return f"(let {name} := {t} in {self.code(rest, posonly)})"
        raise pyexpr.Unsupported(f"statement {ast.unparse(s)[:50]}")


def _check_fn():
    fn = T._find_func(T._parse(SOLARA), "_check_model_params")
    if [a.arg for a in fn.args.args] != ["init_func", "model_params"]:
        raise T.Broken("unexpected parameters of _check_model_params")
    return _canon(fn, [
        ("model_parameters", _assigned(r"inspect\.signature\(init_func\)\.parameters")),
        ("name", _loop_var(r"model_parameters\.items\(\)", 0)),
        ("param", _loop_var(r"model_parameters\.items\(\)", 1)),
    ])


def _translate_check():
    fn = _check_fn()
    body = _nodoc(fn.body)
    if not body or ast.unparse(body[0]) != "model_parameters = inspect.signature(init_func).parameters":
        raise T.Broken("the signature is not read first")
    tr = CheckTr()
    defs = []
    bound = []          # boolean names bound so far (parameters of the generated loop bodies)
    counters = {"any": 0}

    def params():
        return "(s : list param) (ps : list Z)" + "".join(f" ({b} : bool)" for b in bound)

    def args():
        return "s ps" + "".join(f" {b}" for b in bound)

    def go(stmts, nloop):
        if not stmts:
            return "0"
        st, rest = stmts[0], stmts[1:]
        if isinstance(st, ast.Assign) and len(st.targets) == 1 and isinstance(st.targets[0], ast.Name):
            name, v = st.targets[0].id, st.value
            if (isinstance(v, ast.Call) and ast.unparse(v.func) == "any" and len(v.args) == 1 and isinstance(v.args[0], ast.GeneratorExp)
                    and len(v.args[0].generators) == 1 and not v.args[0].generators[0].ifs
                    and ast.unparse(v.args[0].generators[0].iter) == "model_parameters.values()"
                    and isinstance(v.args[0].generators[0].target, ast.Name)):
                var = v.args[0].generators[0].target.id
                cond = tr.bexpr(v.args[0].elt)
                counters["any"] += 1
                dname = f"gen_check_any{counters['any']}"
                defs.append(f"Definition {dname} ({var} : param) : bool :=\n  {cond}.")
                tr.bool_names.add(name)
                out = f"(let {name} := existsb {dname} s in "
                bound.append(name)
                return out + go(rest, nloop) + ")"
            if isinstance(v, ast.Tuple) and all(ast.unparse(x).startswith("inspect.Parameter.") for x in v.elts):
                tr.kind_sets[name] = [tr._kind(ast.unparse(x)) for x in v.elts]
                return go(rest, nloop)
            raise pyexpr.Unsupported(f"assignment {ast.unparse(st)[:60]}")
        if isinstance(st, ast.If) and not st.orelse and len(st.body) == 1 and isinstance(st.body[0], ast.Raise):
            tr.where = "top"
            return f"(if {tr.bexpr(st.test)} then {tr.raise_code(st.body[0])} else {go(rest, nloop)})"
        if isinstance(st, ast.For) and not st.orelse:
            it, tg = ast.unparse(st.iter), ast.unparse(st.target)
            fname = f"gen_check_loop{nloop}_body"
            if it == "model_parameters.items()" and tg in ("(name, param)", "name, param"):
                tr.where = "sig"
                tr.mark_lexical(list(st.body))
                defs.append(f"Definition {fname} {params()} (param : param) : Z :=\n  let name := pn param in\n  {tr.code(list(st.body))}.")
                over = "s"
            elif it == "model_params" and isinstance(st.target, ast.Name):
                tr.where = "given"
                var = st.target.id
                body2 = [pyexpr._Renamer({var: "name"}).visit(x) for x in __import__("copy").deepcopy(list(st.body))] if var != "name" else list(st.body)
                defs.append(f"Definition {fname} {params()} (name : Z) : Z :=\n  {tr.code(body2)}.")
                over = "ps"
            else:
                raise pyexpr.Unsupported(f"loop `for {tg} in {it}`")
            return (f"(let r := first_raise ({fname} {args()}) {over} in if negb (r =? 0) then r else {go(rest, nloop + 1)})")
        raise pyexpr.Unsupported(f"statement {ast.unparse(st)[:60]}")

    main = go(body[1:], 1)
    defs.append(f"Definition gen_check_model_params (s : list param) (ps : list Z) : Z :=\n  {main}.")
    return defs, tr.messages


@_guard
def c_check():
    defs, _ = _translate_check()
    return _wrap("check", "\n".join(defs))


def check_messages():
    """[(literal beginning of the message, error code)] of the ValueErrors of _check_model_params, for the harness:
    the observer classifies a raised error by these, so rewording a message in the source changes nothing"""
    try:
        return _translate_check()[1]
    except Exception:  # noqa: BLE001
        return []


def fb_check():
    return _wrap("check", "Definition gen_check_model_params (s : list param) (ps : list Z) : Z := 0.")


# =============================================================================== check_param_is_fixed / split
class FixedTr(pyexpr.Tr):
    def expr(self, e):
        t = ast.unparse(e)
        if t == "isinstance(param, Slider)":
            return "(is_slider param)", "bool"
        if t == "isinstance(param, dict)":
            return "(is_dict param)", "bool"
        if t == "'type' in param":
            return "(has_type param)", "bool"
        if t == "'type' not in param":
            return "(negb (has_type param))", "bool"
        return super().expr(e)

    def obody(self, stmts):
        """-> option bool; falling off the end is Python's implicit None"""
        if not stmts:
            return "None"
        s, rest = stmts[0], stmts[1:]
        if isinstance(s, ast.Return):
            if s.value is None or ast.unparse(s.value) == "None":
                return "None"
            return f"(Some {self.bexpr(s.value)})"
        if isinstance(s, ast.If):
            els = list(s.orelse)
            return (f"(if {self.bexpr(s.test)} then {self.obody(list(s.body) + ([] if self._terminates(s.body) else rest))} "
                    f"else {self.obody(els + ([] if (els and self._terminates(els)) else rest))})")
        raise pyexpr.Unsupported(f"statement {ast.unparse(s)[:50]}")


@_guard
def c_fixed():
    fn = T._find_func(T._parse(SOLARA), "check_param_is_fixed")
    if [a.arg for a in fn.args.args] != ["param"]:
        raise T.Broken("unexpected parameters of check_param_is_fixed")
    return _wrap("fixed", f"Definition gen_check_param_is_fixed (param : pvalue) : option bool :=\n  {FixedTr().obody(_nodoc(fn.body))}.")


@_guard
def c_split():
    fn = T._find_func(T._parse(SOLARA), "split_model_params")
    if [a.arg for a in fn.args.args] != ["model_params"]:
        raise T.Broken("unexpected parameters of split_model_params")
    fn = _canon(fn, [("k", _loop_var(r"model_params\.items\(\)", 0)), ("v", _loop_var(r"model_params\.items\(\)", 1))])
    body = _nodoc(fn.body)
    dicts = []
    i = 0
    while i < len(body) and isinstance(body[i], ast.Assign) and ast.unparse(body[i].value) == "{}" and isinstance(body[i].targets[0], ast.Name):
        dicts.append(body[i].targets[0].id)
        i += 1
    if len(dicts) != 2 or len(body) != 4:
        raise T.Broken("expected two empty dicts, one loop, one return")
    loop, ret = body[2], body[3]
    if not (isinstance(loop, ast.For) and ast.unparse(loop.target) in ("(k, v)", "k, v") and ast.unparse(loop.iter) == "model_params.items()" and not loop.orelse):
        raise T.Broken("loop is not `for k, v in model_params.items()`")

    def comp(name):
        return ["fst acc", "snd acc"][dicts.index(name)]

    def branch(stmts):
        if len(stmts) != 1 or not (isinstance(stmts[0], ast.Assign) and isinstance(stmts[0].targets[0], ast.Subscript)
                                   and ast.unparse(stmts[0].targets[0].slice) == "k" and ast.unparse(stmts[0].value) == "v"):
            raise pyexpr.Unsupported("branch is not `<dict>[k] = v`")
        d = ast.unparse(stmts[0].targets[0].value)
        if d not in dicts:
            raise pyexpr.Unsupported(f"unknown dict {d}")
        parts = [f"{comp(x)} ++ [kv]" if x == d else comp(x) for x in dicts]
        return f"({parts[0]}, {parts[1]})"

    if len(loop.body) != 1 or not isinstance(loop.body[0], ast.If):
        raise T.Broken("loop body is not one if/else")
    test = loop.body[0].test
    neg = False
    if isinstance(test, ast.UnaryOp) and isinstance(test.op, ast.Not):
        neg, test = True, test.operand
    if ast.unparse(test) != "check_param_is_fixed(v)":
        raise T.Broken("condition is not check_param_is_fixed(v)")
    c = "truthy (gen_check_param_is_fixed (snd kv))"
    if neg:
        c = f"negb ({c})"
    step = f"if {c} then {branch(loop.body[0].body)} else {branch(loop.body[0].orelse)}"
    if not (isinstance(ret, ast.Return) and isinstance(ret.value, ast.Tuple) and [ast.unparse(x) for x in ret.value.elts] in ([dicts[0], dicts[1]], [dicts[1], dicts[0]])):
        raise T.Broken("return is not the pair of the two dicts")
    r0, r1 = (comp(ast.unparse(x)).replace("acc", "r") for x in ret.value.elts)
    # which of the returned components is documented as (user-adjustable, fixed) is fixed by the names
    return _wrap("split",
                 f"Definition gen_split_step (acc : list (Z * pvalue) * list (Z * pvalue)) (kv : Z * pvalue) :=\n  {step}.\n"
                 f"Definition gen_split_model_params (ps : list (Z * pvalue)) : list (Z * pvalue) * list (Z * pvalue) :=\n"
                 f"  let r := fold_left gen_split_step ps ([], []) in ({r0}, {r1}).")


# =============================================================================== hex centres, mesh, layers
class GeoTr(pyexpr.Tr):
    """integer arithmetic in the drawing units: x_spacing = 2 (units of sqrt3/2), y_spacing = 3 (units of 1/2);
    `(b) * e` with a boolean b is b2z b * e; `x_spacing / 2` is 1"""

    def __init__(self, subst):
        super().__init__()
        self.subst = subst

    def expr(self, e):
        t = ast.unparse(e)
        if t in self.subst:
            return self.subst[t], "Z"
        if isinstance(e, ast.BinOp) and isinstance(e.op, ast.Mult):
            a, ka = self.expr(e.left)
            b, kb = self.expr(e.right)
            if ka == "bool":
                a, ka = f"(b2z {a})", "Z"
            if kb == "bool":
                b, kb = f"(b2z {b})", "Z"
            if ka == kb == "Z":
                return f"({a} * {b})", "Z"
        return super().expr(e)


UNITS = {"x_spacing": "np.sqrt(3) * size", "y_spacing": "1.5 * size"}


def _assigns(fn):
    out = {}
    for n in ast.walk(fn):
        if isinstance(n, ast.Assign) and len(n.targets) == 1:
            out.setdefault(ast.unparse(n.targets[0]), []).append(n.value)
    return out


def _one(asg, target, where):
    v = asg.get(target, [])
    if len(v) != 1:
        raise T.Broken(f"{where}: expected exactly one assignment to {target}, found {len(v)}")
    return v[0]


@_guard
def c_hex_center():
    fn = _canon(T._find_func(T._parse(MPL), "draw_hex_grid"), [
        ("arguments", _assigned(r"collect_agent_data\(.*\)")),
        ("size", _assigned(r"1\.0")),
        ("x_spacing", _assigned(r"np\.sqrt\(3\) \* size")),
        ("y_spacing", _assigned(r"1\.5 \* size")),
        ("loc", _assigned(r"arguments\['loc'\]\.astype\(float\)")),
    ])
    asg = _assigns(fn)
    for k, v in UNITS.items():
        if ast.unparse(_one(asg, k, "draw_hex_grid")) != v:
            raise T.Broken(f"draw_hex_grid: {k} is not {v}")
    if ast.unparse(_one(asg, "size", "draw_hex_grid")) != "1.0":
        raise T.Broken("draw_hex_grid: size is not 1.0")
    tr = GeoTr({"loc[:, 0]": "x", "loc[:, 1]": "y", "x_spacing": "2", "y_spacing": "3", "x_spacing / 2": "1"})
    # the y column must be rewritten AFTER the x column (x uses the untransformed row number)
    order = [ast.unparse(n.targets[0]) for n in ast.walk(fn) if isinstance(n, ast.Assign) and ast.unparse(n.targets[0]) in ("loc[:, 0]", "loc[:, 1]")]
    if order != ["loc[:, 0]", "loc[:, 1]"]:
        raise T.Broken(f"draw_hex_grid: centre columns assigned in the order {order}")
    x, _ = tr.expr(_one(asg, "loc[:, 0]", "draw_hex_grid"))
    y, _ = tr.expr(_one(asg, "loc[:, 1]", "draw_hex_grid"))
    return _wrap("hexc", f"Definition gen_hex_center_x (x y : Z) : Z :=\n  {x}.\nDefinition gen_hex_center_y (y : Z) : Z :=\n  {y}.")


@_guard
def c_mesh():
    fn = _canon(T._find_func(T._parse(MPL), "_get_hexmesh"), [
        ("x_spacing", _assigned(r"np\.sqrt\(3\) \* size")),
        ("y_spacing", _assigned(r"1\.5 \* size")),
        ("hexagons", _assigned(r"\[\]")),
    ])
    asg = {}
    for n in fn.body:
        if isinstance(n, ast.Assign):
            asg[ast.unparse(n.targets[0])] = n.value
    for k, v in UNITS.items():
        if k not in asg or ast.unparse(asg[k]) != v:
            raise T.Broken(f"_get_hexmesh: {k} is not {v}")
    loops = [n for n in fn.body if isinstance(n, ast.For)]
    if len(loops) != 1:
        raise T.Broken("_get_hexmesh: expected one loop")
    lp = loops[0]
    it = lp.iter
    if not (isinstance(it, ast.Call) and ast.unparse(it.func) == "itertools.product" and len(it.args) == 2
            and all(isinstance(a, ast.Call) and ast.unparse(a.func) == "range" and len(a.args) == 1 for a in it.args)
            and isinstance(lp.target, ast.Tuple) and len(lp.target.elts) == 2 and all(isinstance(x, ast.Name) for x in lp.target.elts)):
        raise T.Broken("_get_hexmesh: loop is not `for a, b in itertools.product(range(m), range(n))`")
    v1, v2 = (x.id for x in lp.target.elts)
    r1, r2 = (ast.unparse(a.args[0]) for a in it.args)
    if {r1, r2} != {"width", "height"}:
        raise T.Broken("_get_hexmesh: ranges are not over width and height")
    tr = GeoTr({"x_spacing": "2", "y_spacing": "3", "x_spacing / 2": "1"})
    lets = []
    app = None
    for st in lp.body:
        if isinstance(st, ast.Assign) and isinstance(st.targets[0], ast.Name):
            t, k = tr.expr(st.value)
            lets.append(f"let {st.targets[0].id} := {t} in")
        elif isinstance(st, ast.Expr) and ast.unparse(st.value).startswith("hexagons.append("):
            call = st.value.args[0]
            if not (isinstance(call, ast.Call) and ast.unparse(call.func) == "_get_hex_vertices" and len(call.args) >= 2):
                raise T.Broken("_get_hexmesh: hexagons.append(...) is not _get_hex_vertices(cx, cy, ...)")
            cx, _ = tr.expr(call.args[0])
            cy, _ = tr.expr(call.args[1])
            app = f"[({cx}, {cy})]"
        elif isinstance(st, ast.Expr) and isinstance(st.value, ast.Constant):
            continue
        else:
            raise pyexpr.Unsupported(f"statement {ast.unparse(st)[:50]}")
    if app is None:
        raise T.Broken("_get_hexmesh: nothing appended")
    # the helper must centre the hexagon on its first two arguments
    helper = [n for n in fn.body if isinstance(n, ast.FunctionDef) and n.name == "_get_hex_vertices"]
    if len(helper) != 1 or [a.arg for a in helper[0].args.args][:2] != ["center_x", "center_y"]:
        raise T.Broken("_get_hexmesh: helper _get_hex_vertices(center_x, center_y, ...) not found")
    inner = " ".join(lets) + " " + app
    return _wrap("mesh",
                 f"Definition gen_mesh_centres (width height : Z) : list (Z * Z) :=\n"
                 f"  flat_map (fun {v1} => flat_map (fun {v2} => {inner}) (zrange 0 ({r2} - 1))) (zrange 0 ({r1} - 1)).")


class ArrTr:
    """orientation of 2-D array expressions built from `data` (shape (width, height), data[x][y]):
    returns Gallina for the list of rows the expression denotes when handed to imshow / ravel"""

    def __init__(self):
        self.env = {"data": ("d", False)}      # name -> (gallina list of lists, transposed?)

    def rows(self, e):
        """(is_transposed) of an expression that is elementwise in `data`"""
        if isinstance(e, ast.Name):
            if e.id not in self.env:
                raise pyexpr.Unsupported(f"array name {e.id}")
            return self.env[e.id][1]
        if isinstance(e, ast.Attribute) and e.attr == "T":
            return not self.rows(e.value)
        if isinstance(e, ast.Call):
            f = ast.unparse(e.func)
            if f in ("np.transpose", "numpy.transpose") and len(e.args) == 1 and not e.keywords:
                return not self.rows(e.args[0])
            if isinstance(e.func, ast.Attribute) and e.func.attr == "transpose" and not e.args:
                return not self.rows(e.func.value)
            if f == "np.clip" and e.args:
                return self.rows(e.args[0])
            if f in ("np.zeros", "np.ones", "np.zeros_like", "np.ones_like") and len(e.args) >= 1:
                m = re.fullmatch(r"(\w+)(\.shape)?", ast.unparse(e.args[0]))
                if m:
                    return self.rows(ast.Name(id=m.group(1)))
            if f == "np.full" and isinstance(e.args[0], ast.Tuple) and isinstance(e.args[0].elts[0], ast.Starred):
                m = re.fullmatch(r"(\w+)\.shape", ast.unparse(e.args[0].elts[0].value))
                if m:
                    return self.rows(ast.Name(id=m.group(1)))
            raise pyexpr.Unsupported(f"array call {f}")
        if isinstance(e, ast.IfExp):
            a, b = self.rows(e.body), self.rows(e.orelse)
            if a != b:
                raise pyexpr.Unsupported("the branches of a conditional have different orientation")
            return a
        if isinstance(e, ast.BinOp):
            sides = [self.rows(x) for x in (e.left, e.right) if self._is_array(x)]
            if not sides or any(s != sides[0] for s in sides):
                raise pyexpr.Unsupported("elementwise operation on arrays of different orientation")
            return sides[0]
        raise pyexpr.Unsupported(f"array expression {ast.unparse(e)[:40]}")

    def _is_array(self, e):
        try:
            self.rows(e)
            return True
        except pyexpr.Unsupported:
            return False

    @staticmethod
    def text(transposed):
        return "transpose w h d" if transposed else "d"


@_guard
def c_layers():
    fn = _canon(T._find_func(T._parse(MPL), "draw_property_layers"), [
        ("portrayal", _loop_var(r"propertylayer_portrayal\.items\(\)", 1)),
        ("data", _assigned(r"\w+\.data\.astype\(float\) if .*")),
        ("hexagons", _assigned(r"_get_hexmesh\(\w+, \w+\)")),
        ("width", lambda f: next((n.targets[0].elts[0].id for n in ast.walk(f) if isinstance(n, ast.Assign) and ast.unparse(n.value) == "data.shape"
                                  and isinstance(n.targets[0], ast.Tuple) and len(n.targets[0].elts) == 2), None)),
        ("height", lambda f: next((n.targets[0].elts[1].id for n in ast.walk(f) if isinstance(n, ast.Assign) and ast.unparse(n.value) == "data.shape"
                                   and isinstance(n.targets[0], ast.Tuple) and len(n.targets[0].elts) == 2), None)),
        ("colors", _assigned(r"(np\.ravel\(.*\)|.*\.(ravel|flatten)\(\))")),
    ])
    # the orthogonal branch and the hex branch of the per-layer loop
    ifs = [n for n in ast.walk(fn) if isinstance(n, ast.If) and "isinstance(space, OrthogonalGrid)" in ast.unparse(n.test)]
    if len(ifs) != 1:
        raise T.Broken("expected one `if isinstance(space, OrthogonalGrid) ...` branch")
    orth = ifs[0]
    if ast.unparse(orth.test) not in ("isinstance(space, OrthogonalGrid) and (not isinstance(space, HexGrid))",):
        raise T.Broken(f"orthogonal branch guard changed: {ast.unparse(orth.test)}")
    if not (len(orth.orelse) == 1 and isinstance(orth.orelse[0], ast.If) and ast.unparse(orth.orelse[0].test) == "isinstance(space, HexGrid)"):
        raise T.Broken("hex branch is not the elif of the orthogonal branch")
    hexb = orth.orelse[0]
    if not (len(orth.body) == 1 and isinstance(orth.body[0], ast.If) and ast.unparse(orth.body[0].test) == "'color' in portrayal"):
        raise T.Broken("orthogonal branch is not `if 'color' in portrayal: ... else: ...`")

    def imshow(stmts):
        """orientation and origin of the one ax.imshow call of a statement list (assignments tracked in order)"""
        a = ArrTr()
        found = []
        for st in stmts:
            if isinstance(st, ast.Assign) and isinstance(st.targets[0], ast.Name):
                try:
                    a.env[st.targets[0].id] = ("?", a.rows(st.value))
                except pyexpr.Unsupported:
                    a.env.pop(st.targets[0].id, None)
            elif isinstance(st, ast.AugAssign):
                m = re.fullmatch(r"(\w+)\[\.\.\., 3\]", ast.unparse(st.target))
                if m and a._is_array(st.value):
                    if m.group(1) not in a.env or a.rows(st.value) != a.env[m.group(1)][1]:
                        raise pyexpr.Unsupported("alpha channel multiplied by an array of another orientation")
            elif isinstance(st, ast.Expr) and isinstance(st.value, ast.Call) and ast.unparse(st.value.func) == "ax.imshow":
                kw = {k.arg: ast.unparse(k.value) for k in st.value.keywords}
                if kw.get("origin") != "'lower'":
                    raise pyexpr.Unsupported("imshow without origin='lower'")
                if "extent" in kw:
                    raise pyexpr.Unsupported("imshow with an explicit extent")
                found.append(a.rows(st.value.args[0]))
        if len(found) != 1:
            raise T.Broken(f"expected one ax.imshow call, found {len(found)}")
        return found[0]

    color_t = imshow(orth.body[0].body)
    cmap_t = imshow(orth.body[0].orelse)
    # hex branch: width, height = data.shape; hexagons = _get_hexmesh(width, height); colors = <data expr>.ravel()
    asg = {}
    for st in hexb.body:
        if isinstance(st, ast.Assign):
            asg[ast.unparse(st.targets[0])] = st.value
    if ast.unparse(asg.get("(width, height)", asg.get("width, height", ast.Constant(0)))) != "data.shape" or ast.unparse(asg.get("hexagons", ast.Constant(0))) != "_get_hexmesh(width, height)":
        raise T.Broken("hex branch: `width, height = data.shape; hexagons = _get_hexmesh(width, height)` not found")
    col = asg.get("colors")
    if col is None:
        raise T.Broken("hex branch: no assignment to colors")
    flat = None
    if isinstance(col, ast.Call) and isinstance(col.func, ast.Attribute) and col.func.attr in ("ravel", "flatten") and not col.args:
        flat = col.func.value
    elif isinstance(col, ast.Call) and ast.unparse(col.func) in ("np.ravel",) and len(col.args) == 1:
        flat = col.args[0]
    if flat is None:
        raise T.Broken("hex branch: colors is not a C-order flattening")
    hex_t = ArrTr().rows(flat)
    pc = [n for n in ast.walk(hexb) if isinstance(n, ast.Call) and ast.unparse(n.func) == "PolyCollection"]
    if len(pc) != 1 or ast.unparse(pc[0].args[0]) != "hexagons":
        raise T.Broken("hex branch: PolyCollection(hexagons, ...) not found")
    return _wrap("layers",
                 f"Definition gen_layer_image_cmap (w h : Z) (d : layer) : list (list Z) :=\n  {ArrTr.text(cmap_t)}.\n"
                 f"Definition gen_layer_image_color (w h : Z) (d : layer) : list (list Z) :=\n  {ArrTr.text(color_t)}.\n"
                 f"Definition gen_hex_layer_colors (w h : Z) (d : layer) : list Z :=\n  ravel ({ArrTr.text(hex_t)}).")


# =============================================================================== collect_agent_data
COLUMNS = {"loc": "m_loc", "s": "m_s", "c": "m_c", "marker": "m_m", "zorder": "m_z"}
POPS = {"size": "pop_size", "color": "pop_color", "marker": "pop_marker", "zorder": "pop_zorder"}


@_guard
def c_collect():
    fn = _canon(T._find_func(T._parse(MPL), "collect_agent_data"), [
        ("agent", _loop_var(r"space\.agents")),
        ("portray", _assigned(r"dict\(agent_portrayal\(agent\)\)")),
        ("loc", _assigned(r"agent\.pos")),
        ("arguments", lambda f: next((n.targets[0].id for n in ast.walk(f) if isinstance(n, ast.Assign) and isinstance(n.value, ast.Dict)
                                      and isinstance(n.targets[0], ast.Name) and "'loc'" in [ast.unparse(k) for k in n.value.keys]), None)),
    ])
    loops = [n for n in fn.body if isinstance(n, ast.For) and ast.unparse(n.iter) == "space.agents"]
    if len(loops) != 1 or ast.unparse(loops[0].target) != "agent":
        raise T.Broken("expected one loop `for agent in space.agents`")
    body = loops[0].body
    # portray = dict(agent_portrayal(agent))  (a copy: the caller's dict must not be modified)
    if ast.unparse(body[0]) != "portray = dict(agent_portrayal(agent))":
        raise T.Broken(f"first statement of the loop is `{ast.unparse(body[0])[:60]}`, not a copy of the portrayal dict")
    # loc = agent.pos ; if loc is None: loc = agent.cell.coordinate
    if ast.unparse(body[1]) != "loc = agent.pos":
        raise T.Broken("`loc = agent.pos` not found")
    st = body[2]
    if not (isinstance(st, ast.If) and ast.unparse(st.test) == "loc is None" and not st.orelse and len(st.body) == 1
            and ast.unparse(st.body[0]) == "loc = agent.cell.coordinate"):
        raise T.Broken("`if loc is None: loc = agent.cell.coordinate` not found")
    locdef = "Definition gen_agent_loc (a : agent) : option (Z * Z) :=\n  match a_pos a with Some loc => Some loc | None => a_cell a end."
    fields = {}
    for st in body[3:]:
        t = ast.unparse(st)
        m = re.fullmatch(r"arguments\['(\w+)'\]\.append\((.*)\)", t)
        if not m:
            continue
        col, val = m.group(1), m.group(2)
        if col not in COLUMNS:
            raise T.Broken(f"unknown column {col}")
        if col in fields:
            raise T.Broken(f"column {col} appended twice")
        if val == "loc":
            fields[col] = "loc"
            continue
        pm = re.fullmatch(r"portray\.pop\('(\w+)', (\w+)\)", val)
        if not pm or pm.group(1) not in POPS:
            raise T.Broken(f"column {col} gets `{val}`")
        fields[col] = f"{POPS[pm.group(1)]} d {pm.group(2)}"
    if set(fields) != set(COLUMNS):
        raise T.Broken(f"columns filled in the loop: {sorted(fields)}")
    rec = "; ".join(f"{COLUMNS[c]} := {fields[c]}" for c in COLUMNS)
    return _wrap("collect", locdef + "\n"
                 "Definition gen_collect_mark (size : Z * Z) (color marker zorder : Z) (d : pdict) (loc : Z * Z) : mark :=\n"
                 f"  {{| {rec} |}}.")


# =============================================================================== _scatter
class MaskTr:
    """the array expressions of _scatter: columns are lists, masks are lists of booleans"""

    def __init__(self):
        self.env = {}       # python name -> (gallina, kind)   kinds: zlist, slist, clist, blist, Z

    def expr(self, e):
        t = ast.unparse(e)
        if isinstance(e, ast.Name) and e.id in self.env:
            return self.env[e.id]
        m = re.fullmatch(r"arguments\.pop\('(\w+)'\)", t)
        if m:
            col = {"loc": ("(cl_loc c)", "clist"), "marker": ("(cl_m c)", "zlist"), "zorder": ("(cl_z c)", "zlist")}.get(m.group(1))
            if col is None:
                raise pyexpr.Unsupported(f"pop of {m.group(1)}")
            return col
        if isinstance(e, ast.Subscript):
            base, kb = self.expr(e.value)
            sl = ast.unparse(e.slice).strip("()")
            if kb == "clist" and sl == ":, 0":
                return f"(map fst {base})", "zlist"
            if kb == "clist" and sl == ":, 1":
                return f"(map snd {base})", "zlist"
            idx, ki = self.expr(e.slice)
            if ki == "blist" and kb in ("zlist", "slist", "clist"):
                return f"(select {idx} {base})", kb
            raise pyexpr.Unsupported(f"indexing {t}")
        if isinstance(e, ast.ListComp) and len(e.generators) == 1 and not e.generators[0].ifs and isinstance(e.generators[0].target, ast.Name):
            g = e.generators[0]
            it = g.iter
            if isinstance(it, ast.Call) and ast.unparse(it.func) == "list" and len(it.args) == 1:
                it = it.args[0]
            src, ks = self.expr(it)
            if ks != "zlist":
                raise pyexpr.Unsupported("comprehension over a non-integer column")
            var = g.target.id
            old = self.env.get(var)
            self.env[var] = (var, "Z")
            body, kb = self.expr(e.elt)
            if old is None:
                del self.env[var]
            else:
                self.env[var] = old
            if kb != "bool":
                raise pyexpr.Unsupported("comprehension element is not a comparison")
            return f"(map (fun {var} => {body}) {src})", "blist"
        if isinstance(e, ast.Compare) and len(e.ops) == 1 and isinstance(e.ops[0], ast.Eq):
            a, ka = self.expr(e.left)
            b, kb = self.expr(e.comparators[0])
            if ka == kb == "Z":
                return f"({a} =? {b})", "bool"
            if ka == "Z" and kb == "zlist":       # NumPy broadcasting: scalar == array
                return f"(map (fun e_ => {a} =? e_) {b})", "blist"
            if ka == "zlist" and kb == "Z":
                return f"(map (fun e_ => e_ =? {b}) {a})", "blist"
            raise pyexpr.Unsupported(f"comparison {t}")
        if isinstance(e, ast.BinOp) and isinstance(e.op, ast.BitAnd):
            a, ka = self.expr(e.left)
            b, kb = self.expr(e.right)
            if ka == kb == "blist":
                return f"(map2 andb {a} {b})", "blist"
            raise pyexpr.Unsupported("& of non-masks")
        if isinstance(e, ast.Call) and ast.unparse(e.func) in ("np.logical_and",) and len(e.args) == 2:
            a, ka = self.expr(e.args[0])
            b, kb = self.expr(e.args[1])
            if ka == kb == "blist":
                return f"(map2 andb {a} {b})", "blist"
        raise pyexpr.Unsupported(f"expression {t[:50]}")


@_guard
def c_scatter():
    fn = _canon(T._find_func(T._parse(MPL), "_scatter"), [
        ("loc", _assigned(r"arguments\.pop\('loc'\)")),
        ("entry", _loop_var(r"\['edgecolors', 'linewidths', 'alpha'\]")),
    ])
    body = _nodoc(fn.body)
    tr = MaskTr()
    lets = []
    i = 0
    outer = None
    while i < len(body):
        st = body[i]
        t = ast.unparse(st)
        if isinstance(st, ast.Assign) and isinstance(st.targets[0], ast.Name):
            g, k = tr.expr(st.value)
            tr.env[st.targets[0].id] = (g, k)
        elif t == "if loc.size == 0:\n    return":
            pass       # nothing to plot: the loops below run zero times on empty columns anyway
        elif isinstance(st, ast.For) and ast.unparse(st.target) == "entry":
            # optional per-agent keys (alpha, edgecolors, linewidths): outside the statement, not generated
            if ast.unparse(st.iter) != "['edgecolors', 'linewidths', 'alpha']":
                raise T.Broken("optional-key loop changed")
        elif isinstance(st, ast.For):
            outer = st
            if i != len(body) - 1:
                raise T.Broken("statements after the marker loop")
        else:
            raise pyexpr.Unsupported(f"statement {t[:60]}")
        i += 1
    if outer is None:
        raise T.Broken("marker loop not found")

    def keys(it):
        t = ast.unparse(it)
        m = re.fullmatch(r"set\((\w+)\)", t)
        if m:
            g, k = tr.expr(ast.Name(id=m.group(1)))
            return f"(dedup_first Z.eqb {g})"           # iteration order of a set: any order (observations are sorted)
        m = re.fullmatch(r"np\.unique\((\w+)\)", t)
        if m:
            g, k = tr.expr(ast.Name(id=m.group(1)))
            return f"(zsort (dedup_first Z.eqb {g}))"
        raise pyexpr.Unsupported(f"loop over {t}")

    def loop(st):
        if not (isinstance(st, ast.For) and isinstance(st.target, ast.Name) and not st.orelse):
            raise pyexpr.Unsupported("loop shape")
        var = st.target.id
        ks = keys(st.iter)
        tr.env[var] = (var, "Z")
        out = []
        inner = None
        for s2 in st.body:
            if isinstance(s2, ast.Assign) and isinstance(s2.targets[0], ast.Name):
                g, k = tr.expr(s2.value)
                out.append(f"let {s2.targets[0].id} := {g} in")
                tr.env[s2.targets[0].id] = (s2.targets[0].id, k)
            elif isinstance(s2, ast.For):
                inner = ("flat", loop(s2))
            elif isinstance(s2, ast.Expr) and isinstance(s2.value, ast.Call) and ast.unparse(s2.value.func) == "ax.scatter":
                inner = ("one", call(s2.value))
            else:
                raise pyexpr.Unsupported(f"statement {ast.unparse(s2)[:50]}")
        if inner is None:
            raise pyexpr.Unsupported("loop without scatter call")
        lets_t = " ".join(out)
        if inner[0] == "flat":
            return f"(flat_map (fun {var} => {lets_t} {inner[1]}) {ks})"
        return f"(map (fun {var} => {lets_t} {inner[1]}) {ks})"

    def call(c):
        if len(c.args) != 2:
            raise pyexpr.Unsupported("ax.scatter positional arguments")
        gx, kx = tr.expr(c.args[0])
        gy, ky = tr.expr(c.args[1])
        kws = {k.arg: k.value for k in c.keywords if k.arg}
        stars = [ast.unparse(k.value) for k in c.keywords if k.arg is None]
        if set(kws) != {"marker", "zorder"}:
            raise pyexpr.Unsupported(f"ax.scatter keywords {sorted(kws)}")
        gm, km = tr.expr(kws["marker"])
        gz, kz = tr.expr(kws["zorder"])
        m = [re.fullmatch(r"\{(\w+): (\w+)\[(\w+)\] for \(?\1, \2\)? in arguments\.items\(\)\}", s) for s in stars]
        sel = [x.group(3) for x in m if x]
        if len(sel) != 1 or len(stars) != 2 or "kwargs" not in stars:
            raise pyexpr.Unsupported(f"ax.scatter ** arguments {stars}")
        gl, kl = tr.expr(ast.Name(id=sel[0]))
        if kx != "zlist" or ky != "zlist" or km != "Z" or kz != "Z" or kl != "blist":
            raise pyexpr.Unsupported("ax.scatter argument kinds")
        # `arguments` still holds the remaining per-agent columns: s and c
        return (f"{{| g_marker := {gm}; g_zorder := {gz}; g_x := {gx}; g_y := {gy}; "
                f"g_s := select {gl} (cl_s c); g_c := select {gl} (cl_c c) |}}")

    text = loop(outer)
    return _wrap("scatter", f"Definition gen_scatter (c : cols) : list group :=\n  {text}.")


# =============================================================================== Altair x / y
def _altair_xy(fname, loops, xsrc, ysrc, env, roles=()):
    fn = _canon(T._find_func(T._parse(ALTAIR), fname), list(roles) + [
        ("agent_data", _assigned(r"dict\(agent_portrayal\(agent\)\)")),
        ("all_agent_data", _assigned(r"\[\]")),
    ])
    heads = [f"for {ast.unparse(n.target)} in {ast.unparse(n.iter)}".replace("(content, (x, y))", "content, (x, y)")
             for n in ast.walk(fn) if isinstance(n, ast.For)]
    if heads != loops:
        raise T.Broken(f"{fname}: loops are {heads}")
    asg = {}
    for n in ast.walk(fn):
        if isinstance(n, ast.Assign) and len(n.targets) == 1:
            asg.setdefault(ast.unparse(n.targets[0]), []).append(ast.unparse(n.value))
    if asg.get("agent_data") != ["dict(agent_portrayal(agent))"]:
        raise T.Broken(f"{fname}: agent_data is not a copy of the portrayal dict")
    out = []
    for key in ("x", "y"):
        v = asg.get(f"agent_data['{key}']")
        if not v or len(v) != 1 or v[0] not in env:
            raise T.Broken(f"{fname}: agent_data['{key}'] = {v}")
        out.append(env[v[0]])
    app = [ast.unparse(n) for n in ast.walk(fn) if isinstance(n, ast.Expr) and "append" in ast.unparse(n)]
    if app != ["all_agent_data.append(agent_data)"]:
        raise T.Broken(f"{fname}: {app}")
    return f"({out[0]}, {out[1]})"


@_guard
def c_altair():
    old = _altair_xy("_get_agent_data_old__discrete_space", ["for content, (x, y) in space.coord_iter()", "for agent in content"],
                     "x", "y", {"x": "fst p", "y": "snd p"},
                     [("content", _loop_var(r"space\.coord_iter\(\)", 0)), ("x", _loop_var(r"space\.coord_iter\(\)", (1, 0))),
                      ("y", _loop_var(r"space\.coord_iter\(\)", (1, 1))), ("agent", _loop_var(r"content"))])
    new = _altair_xy("_get_agent_data_new_discrete_space", ["for cell in space.all_cells", "for agent in cell.agents"],
                     "x", "y", {"cell.coordinate[0]": "fst p", "cell.coordinate[1]": "snd p"},
                     [("cell", _loop_var(r"space\.all_cells")), ("agent", _loop_var(r"cell\.agents"))])
    cont = _altair_xy("_get_agent_data_continuous_space", ["for agent in space._agent_to_index"],
                      "x", "y", {"agent.pos[0]": "fst p", "agent.pos[1]": "snd p"},
                      [("agent", _loop_var(r"space\._agent_to_index"))])
    return _wrap("altair",
                 f"Definition gen_altair_xy_old (p : Z * Z) : Z * Z := {old}.\n"
                 f"Definition gen_altair_xy_new (p : Z * Z) : Z * Z := {new}.\n"
                 f"Definition gen_altair_xy_cont (p : Z * Z) : Z * Z := {cont}.")


@_guard
def c_altair_enc():
    """_draw_grid: WHICH dict the tooltip / color / size encodings are read from and how it is built
    (all rows, setdefault in row order -> rows_union; the first row only -> rows_first), which key decides
    which encoding, which keys become tooltips"""
    def flag_of(enc):
        def f(fn0):
            for n in ast.walk(fn0):
                if isinstance(n, ast.If) and isinstance(n.test, ast.Name) and len(n.body) == 1 \
                        and ast.unparse(n.body[0]).startswith(f"encoding_dict['{enc}'] ="):
                    return n.test.id
            return None
        return f

    fn = _canon(T._find_func(T._parse(ALTAIR), "_draw_grid"), [
        ("all_agent_data", _assigned(r"_get_agent_data_new_discrete_space\(space, agent_portrayal\)")),
        ("invalid_tooltips", _assigned(r"\[('\w+', ){3}'\w+'\]")),
        ("encoding_dict", lambda f: next((n.targets[0].id for n in ast.walk(f) if isinstance(n, ast.Assign) and isinstance(n.value, ast.Dict)
                                          and isinstance(n.targets[0], ast.Name) and "'tooltip'" in [ast.unparse(k) for k in n.value.keys]), None)),
        ("has_color", flag_of("color")), ("has_size", flag_of("size")),
    ])
    body = _nodoc(fn.body)
    src = None
    kind = None
    for i, st in enumerate(body):
        t = ast.unparse(st)
        m = re.fullmatch(r"(\w+) = all_agent_data\[0\] if all_agent_data else \{\}", t)
        if m:
            src, kind = m.group(1), "rows_first rows"
        m = re.fullmatch(r"(\w+) = \{\}", t)
        if m and i + 1 < len(body) and re.fullmatch(
                r"for (\w+) in all_agent_data:\n    for \(?(\w+), (\w+)\)? in \1\.items\(\):\n        " + m.group(1) + r"\.setdefault\(\2, \3\)",
                ast.unparse(body[i + 1])):
            src, kind = m.group(1), "rows_union rows"
    if src is None:
        raise T.Broken("_draw_grid: the dict the encodings are derived from was not recognised")
    asg = {}
    for st in body:
        if isinstance(st, ast.Assign) and isinstance(st.targets[0], ast.Name):
            asg[st.targets[0].id] = st.value
    if ast.unparse(asg.get("invalid_tooltips", ast.Constant(0))) != "['color', 'size', 'x', 'y']":
        raise T.Broken("_draw_grid: invalid_tooltips changed")
    flags = {}
    for name in ("has_color", "has_size"):
        v = asg.get(name)
        m = re.fullmatch(r"'(\w+)' in (\w+)", ast.unparse(v)) if v is not None else None
        if not m or m.group(2) != src or m.group(1) not in ("color", "size", "marker", "zorder"):
            raise T.Broken(f"_draw_grid: {name} is not `<key> in {src}`")
        flags[name] = m.group(1)
    tips = [n for n in ast.walk(fn) if isinstance(n, ast.ListComp) and "alt.Tooltip" in ast.unparse(n.elt)]
    if len(tips) != 1:
        raise T.Broken("_draw_grid: tooltip comprehension not found")
    g = tips[0].generators[0]
    kv = [x.id for x in g.target.elts] if isinstance(g.target, ast.Tuple) and all(isinstance(x, ast.Name) for x in g.target.elts) else [None, None]
    if ast.unparse(g.iter) != f"{src}.items()" or [ast.unparse(x) for x in g.ifs] != [f"{kv[0]} not in invalid_tooltips"] \
            or not ast.unparse(tips[0].elt).startswith(f"alt.Tooltip({kv[0]},"):
        raise T.Broken("_draw_grid: tooltips are not `alt.Tooltip(key, ...) for key, value in <dict>.items() if key not in invalid_tooltips`")
    uses = {"color": ("alt.Color('color', type='nominal')", "has_color"), "size": ("alt.Size('size', type='quantitative')", "has_size")}
    txt = ast.unparse(fn)
    for enc, (call, flag) in uses.items():
        if f"if {flag}:\n        encoding_dict['{enc}'] = {call}" not in txt:
            raise T.Broken(f"_draw_grid: `if {flag}: encoding_dict['{enc}'] = {call}` not found")
    invalid = {"color", "size", "x", "y"}
    tip = lambda k: f"oflag (pd_{k} d)" if k not in invalid else "0"  # noqa: E731
    return _wrap("altair_enc",
                 f"Definition gen_altair_enc_dict (rows : list arow) : pdict := {kind}.\n"
                 f"Definition gen_altair_enc_flags (d : pdict) : list Z :=\n"
                 f"  [oflag (pd_{flags['has_color']} d); oflag (pd_{flags['has_size']} d); {tip('marker')}; {tip('zorder')}].")


def _fb(name, text):
    return lambda: _wrap(name, text)


CONSTRUCTS = [
    ("viz_check_code", SOLARA, c_check, fb_check),
    ("viz_fixed_code", SOLARA, c_fixed, _fb("fixed", "Definition gen_check_param_is_fixed (param : pvalue) : option bool := None.")),
    ("viz_split_code", SOLARA, c_split, _fb("split",
        "Definition gen_split_step (acc : list (Z * pvalue) * list (Z * pvalue)) (kv : Z * pvalue) := acc.\n"
        "Definition gen_split_model_params (ps : list (Z * pvalue)) : list (Z * pvalue) * list (Z * pvalue) := ([], []).")),
    ("viz_hex_center_code", MPL, c_hex_center, _fb("hexc", "Definition gen_hex_center_x (x y : Z) : Z := 0.\nDefinition gen_hex_center_y (y : Z) : Z := 0.")),
    ("viz_mesh_code", MPL, c_mesh, _fb("mesh", "Definition gen_mesh_centres (width height : Z) : list (Z * Z) := [].")),
    ("viz_layers_code", MPL, c_layers, _fb("layers",
        "Definition gen_layer_image_cmap (w h : Z) (d : layer) : list (list Z) := [].\n"
        "Definition gen_layer_image_color (w h : Z) (d : layer) : list (list Z) := [].\n"
        "Definition gen_hex_layer_colors (w h : Z) (d : layer) : list Z := [].")),
    ("viz_collect_code", MPL, c_collect, _fb("collect",
        "Definition gen_agent_loc (a : agent) : option (Z * Z) := None.\n"
        "Definition gen_collect_mark (size : Z * Z) (color marker zorder : Z) (d : pdict) (loc : Z * Z) : mark :=\n"
        "  {| m_loc := (0, 0); m_s := (0, 0); m_c := -1; m_m := -1; m_z := -1 |}.")),
    ("viz_scatter_code", MPL, c_scatter, _fb("scatter", "Definition gen_scatter (c : cols) : list group := [].")),
    ("viz_altair_code", ALTAIR, c_altair, _fb("altair",
        "Definition gen_altair_xy_old (p : Z * Z) : Z * Z := (0, 0).\nDefinition gen_altair_xy_new (p : Z * Z) : Z * Z := (0, 0).\n"
        "Definition gen_altair_xy_cont (p : Z * Z) : Z * Z := (0, 0).")),
    ("viz_altair_enc_code", ALTAIR, c_altair_enc, _fb("altair_enc",
        "Definition gen_altair_enc_dict (rows : list arow) : pdict := pd_empty.\n"
        "Definition gen_altair_enc_flags (d : pdict) : list Z := [].")),
]
