"""T1 extractors for C16 (mesa signals): the `signal_types` sets declared by Observable and
ObservableList, and the signal type each emitting site passes to `notify`.  Fail closed: any
other shape -> Broken, and the fallback table makes C16_source_tables_ok fail to check."""
import ast

from translate import Broken, _find_class, _find_func, _parse

SIGNAL_CODE = {"change": 1, "replace": 2, "remove": 3, "insert": 4, "append": 5}
MS = "mesa/experimental/mesa_signals/mesa_signal.py"
OC = "mesa/experimental/mesa_signals/observable_collections.py"

HEADER = """(* C16: signal type codes: change=1 replace=2 remove=3 insert=4 append=5 *)
Record sig_tables := {
  tb_obs_types : list Z;      (* Observable().signal_types *)
  tb_list_types : list Z;     (* ObservableList().signal_types *)
  tb_emit_assign : Z;         (* BaseObservable.__set__ -> notify(..., type) *)
  tb_emit_setitem : Z;        (* SignalingList.__setitem__ *)
  tb_emit_delitem : Z;        (* SignalingList.__delitem__ *)
  tb_emit_insert : Z;         (* SignalingList.insert *)
  tb_emit_append : Z          (* SignalingList.append *)
}.
"""


def _signal_types_of(tree, cls):
    init = _find_func(_find_class(tree, cls), "__init__")
    found = []
    for n in ast.walk(init):
        tgt = None
        if isinstance(n, ast.AnnAssign) and n.value is not None:
            tgt = n.target
        elif isinstance(n, ast.Assign) and len(n.targets) == 1:
            tgt = n.targets[0]
        if (isinstance(tgt, ast.Attribute) and tgt.attr == "signal_types"
                and isinstance(tgt.value, ast.Name) and tgt.value.id == "self"):
            found.append(n.value)
    if len(found) != 1:
        raise Broken(f"{cls}.__init__: expected exactly one assignment to self.signal_types, found {len(found)}")
    v = found[0]
    if not isinstance(v, ast.Set) or not all(isinstance(e, ast.Constant) and isinstance(e.value, str) for e in v.elts):
        raise Broken(f"{cls}.signal_types is not a set display of string literals")
    names = [e.value for e in v.elts]
    for s in names:
        if s not in SIGNAL_CODE:
            raise Broken(f"{cls}.signal_types has a signal type unknown to the model: {s!r}")
    return sorted({SIGNAL_CODE[s] for s in names})


def _emitted(tree, cls, func, want_index):
    fn = _find_func(_find_class(tree, cls), func)
    calls = [n for n in ast.walk(fn) if isinstance(n, ast.Call) and isinstance(n.func, ast.Attribute) and n.func.attr == "notify"]
    if len(calls) != 1:
        raise Broken(f"{cls}.{func}: expected exactly one notify call, found {len(calls)}")
    c = calls[0]
    if len(c.args) != 4 or not (isinstance(c.args[3], ast.Constant) and isinstance(c.args[3].value, str)):
        raise Broken(f"{cls}.{func}: notify is not called as notify(name, old, new, '<type>')")
    kws = sorted(k.arg or "**" for k in c.keywords)
    if kws != (["index"] if want_index else []):
        raise Broken(f"{cls}.{func}: unexpected keyword arguments to notify: {kws}")
    s = c.args[3].value
    if s not in SIGNAL_CODE:
        raise Broken(f"{cls}.{func}: emits a signal type unknown to the model: {s!r}")
    return SIGNAL_CODE[s]


def _zl(ns):
    return "[" + "; ".join(str(n) for n in ns) + "]"


def c_sig_tables():
    ms, oc = _parse(MS), _parse(OC)
    obs = _signal_types_of(ms, "Observable")
    lst = _signal_types_of(oc, "ObservableList")
    e_assign = _emitted(ms, "BaseObservable", "__set__", False)
    e_set = _emitted(oc, "SignalingList", "__setitem__", True)
    e_del = _emitted(oc, "SignalingList", "__delitem__", True)
    e_ins = _emitted(oc, "SignalingList", "insert", True)
    e_app = _emitted(oc, "SignalingList", "append", True)
    # the two descriptors must reach BaseObservable.__set__ (super().__set__) for the 'change' signal
    for tree, cls in ((ms, "Observable"), (oc, "ObservableList")):
        fn = _find_func(_find_class(tree, cls), "__set__")
        ok = any(isinstance(n, ast.Call) and isinstance(n.func, ast.Attribute) and n.func.attr == "__set__"
                 and isinstance(n.func.value, ast.Call) and isinstance(n.func.value.func, ast.Name)
                 and n.func.value.func.id == "super" for n in ast.walk(fn))
        if not ok:
            raise Broken(f"{cls}.__set__ no longer calls super().__set__")
    return ("Definition gen_sig_tables : sig_tables := {| "
            f"tb_obs_types := {_zl(obs)}; tb_list_types := {_zl(lst)}; tb_emit_assign := {e_assign}; "
            f"tb_emit_setitem := {e_set}; tb_emit_delitem := {e_del}; tb_emit_insert := {e_ins}; "
            f"tb_emit_append := {e_app} |}}.")


def fb_sig_tables():
    return ("Definition gen_sig_tables : sig_tables := {| tb_obs_types := []; tb_list_types := []; "
            "tb_emit_assign := 0; tb_emit_setitem := 0; tb_emit_delitem := 0; tb_emit_insert := 0; "
            "tb_emit_append := 0 |}.")


def _is_name(n, ident):
    return isinstance(n, ast.Name) and n.id == ident


DG_REPAIRED = [   # modulo the names of local variables, docstrings, comments (pyexpr.normalized_statements)
    "v0 = set()",
    "for v1 in type(obj).__mro__:\n    v2 = vars(v1)\n    for v3, v4 in v2.items():\n        if v3 in v0:\n            continue\n"
    "        v0.add(v3)\n        if isinstance(v4, BaseObservable):\n            yield (v4.public_name, v4.signal_types)",
]
DG_UNREPAIRED = [
    "for v0 in type(obj).__mro__:\n    v1 = vars(v0)\n    for v2 in v1.values():\n        if isinstance(v2, BaseObservable):\n"
    "            yield (v2.public_name, v2.signal_types)",
]


def c_dg_shadowing():
    """descriptor_generator, statement for statement modulo local names: the repaired walk (skip names already seen
    in a more derived class) gives true, the unrepaired one false, anything else is not a shape the model knows"""
    import pyexpr

    ms = _parse(MS)
    fn = None
    for n in ms.body:
        if isinstance(n, ast.FunctionDef) and n.name == "descriptor_generator":
            fn = n
    if fn is None:
        raise Broken("descriptor_generator not found")
    if [a.arg for a in fn.args.args] != ["obj"]:
        raise Broken("descriptor_generator: parameters changed")
    loops = [n for n in fn.body if isinstance(n, ast.For)]
    if len(loops) != 1 or ast.unparse(loops[0].iter) != "type(obj).__mro__" \
            or any(isinstance(n, (ast.Break, ast.Return)) for n in ast.walk(fn)):
        raise Broken("descriptor_generator does not walk the WHOLE type(obj).__mro__ (sliced / filtered iterable, break or return in "
                     "the walk): observables of classes further along the mro are not registered")
    got = pyexpr.normalized_statements(fn)
    if got == DG_REPAIRED:
        return "Definition gen_dg_shadowing : bool := true."
    if got == DG_UNREPAIRED:
        return "Definition gen_dg_shadowing : bool := false."
    raise Broken("descriptor_generator changed: " + " | ".join(got)[:300])


def fb_dg_shadowing():
    return "Definition gen_dg_shadowing : bool := false."


CONSTRUCTS = [
    ("dg_shadowing", MS, c_dg_shadowing, fb_dg_shadowing),
    ("sig_tables", MS + "+" + OC, c_sig_tables, fb_sig_tables),
]
