"""T1 extractors for C16 (mesa signals): the `signal_types` sets declared by Observable and
ObservableList, and the signal type each emitting site passes to `notify`.  Fail closed: any
other shape -> Broken, and the fallback table makes C16_source_tables_ok fail to check."""
import ast

from translate import Broken, _find_class, _find_func, _parse

SIGNAL_CODE = {"change": 1, "replace": 2, "remove": 3, "insert": 4, "append": 5}
MS = "mesa/experimental/mesa_signals/mesa_signal.py"
OC = "mesa/experimental/mesa_signals/observable_collections.py"

HEADER = """(* C16: signal type codes: change=1 replace=2 remove=3 insert=4 append=5 *)
Record sig_tables := {
  tb_obs_types : list Z;      (* Observable().signal_types *)
  tb_list_types : list Z;     (* ObservableList().signal_types *)
  tb_emit_assign : Z;         (* BaseObservable.__set__ -> notify(..., type) *)
  tb_emit_setitem : Z;        (* SignalingList.__setitem__ *)
  tb_emit_delitem : Z;        (* SignalingList.__delitem__ *)
  tb_emit_insert : Z;         (* SignalingList.insert *)
  tb_emit_append : Z          (* SignalingList.append *)
}.
"""


def _signal_types_of(tree, cls):
    init = _find_func(_find_class(tree, cls), "__init__")
    found = []
    for n in ast.walk(init):
        tgt = None
        if isinstance(n, ast.AnnAssign) and n.value is not None:
            tgt = n.target
        elif isinstance(n, ast.Assign) and len(n.targets) == 1:
            tgt = n.targets[0]
        if (isinstance(tgt, ast.Attribute) and tgt.attr == "signal_types"
                and isinstance(tgt.value, ast.Name) and tgt.value.id == "self"):
            found.append(n.value)
    if len(found) != 1:
        raise Broken(f"{cls}.__init__: expected exactly one assignment to self.signal_types, found {len(found)}")
    v = found[0]
    if not isinstance(v, ast.Set) or not all(isinstance(e, ast.Constant) and isinstance(e.value, str) for e in v.elts):
        raise Broken(f"{cls}.signal_types is not a set display of string literals")
    names = [e.value for e in v.elts]
    for s in names:
        if s not in SIGNAL_CODE:
            raise Broken(f"{cls}.signal_types has a signal type unknown to the model: {s!r}")
    return sorted({SIGNAL_CODE[s] for s in names})


def _emitted(tree, cls, func, want_index):
    fn = _find_func(_find_class(tree, cls), func)
    calls = [n for n in ast.walk(fn) if isinstance(n, ast.Call) and isinstance(n.func, ast.Attribute) and n.func.attr == "notify"]
    if len(calls) != 1:
        raise Broken(f"{cls}.{func}: expected exactly one notify call, found {len(calls)}")
    c = calls[0]
    if len(c.args) != 4 or not (isinstance(c.args[3], ast.Constant) and isinstance(c.args[3].value, str)):
        raise Broken(f"{cls}.{func}: notify is not called as notify(name, old, new, '<type>')")
    kws = sorted(k.arg or "**" for k in c.keywords)
    if kws != (["index"] if want_index else []):
        raise Broken(f"{cls}.{func}: unexpected keyword arguments to notify: {kws}")
    s = c.args[3].value
    if s not in SIGNAL_CODE:
        raise Broken(f"{cls}.{func}: emits a signal type unknown to the model: {s!r}")
    return SIGNAL_CODE[s]


def _zl(ns):
    return "[" + "; ".join(str(n) for n in ns) + "]"


def c_sig_tables():
    ms, oc = _parse(MS), _parse(OC)
    obs = _signal_types_of(ms, "Observable")
    lst = _signal_types_of(oc, "ObservableList")
    e_assign = _emitted(ms, "BaseObservable", "__set__", False)
    e_set = _emitted(oc, "SignalingList", "__setitem__", True)
    e_del = _emitted(oc, "SignalingList", "__delitem__", True)
    e_ins = _emitted(oc, "SignalingList", "insert", True)
    e_app = _emitted(oc, "SignalingList", "append", True)
    # the two descriptors must reach BaseObservable.__set__ (super().__set__) for the 'change' signal
    for tree, cls in ((ms, "Observable"), (oc, "ObservableList")):
        fn = _find_func(_find_class(tree, cls), "__set__")
        ok = any(isinstance(n, ast.Call) and isinstance(n.func, ast.Attribute) and n.func.attr == "__set__"
                 and isinstance(n.func.value, ast.Call) and isinstance(n.func.value.func, ast.Name)
                 and n.func.value.func.id == "super" for n in ast.walk(fn))
        if not ok:
            raise Broken(f"{cls}.__set__ no longer calls super().__set__")
    return ("Definition gen_sig_tables : sig_tables := {| "
            f"tb_obs_types := {_zl(obs)}; tb_list_types := {_zl(lst)}; tb_emit_assign := {e_assign}; "
            f"tb_emit_setitem := {e_set}; tb_emit_delitem := {e_del}; tb_emit_insert := {e_ins}; "
            f"tb_emit_append := {e_app} |}}.")


def fb_sig_tables():
    return ("Definition gen_sig_tables : sig_tables := {| tb_obs_types := []; tb_list_types := []; "
            "tb_emit_assign := 0; tb_emit_setitem := 0; tb_emit_delitem := 0; tb_emit_insert := 0; "
            "tb_emit_append := 0 |}.")


def _is_name(n, ident):
    return isinstance(n, ast.Name) and n.id == ident


def c_dg_shadowing():
    """descriptor_generator: `for base in type(obj).__mro__:` then per class either
    (repaired)   for name, entry in base_dict.items(): if name in seen: continue; seen.add(name); if isinstance(..): yield ..
    (unrepaired) for entry in base_dict.values(): if isinstance(..): yield ..
    anything else is not a shape the model knows"""
    ms = _parse(MS)
    fn = None
    for n in ms.body:
        if isinstance(n, ast.FunctionDef) and n.name == "descriptor_generator":
            fn = n
    if fn is None:
        raise Broken("descriptor_generator not found")
    outer = [n for n in fn.body if isinstance(n, ast.For)]
    if len(outer) != 1:
        raise Broken("descriptor_generator: expected exactly one outer for loop")
    it = outer[0].iter
    if not (isinstance(it, ast.Attribute) and it.attr == "__mro__" and isinstance(it.value, ast.Call)
            and _is_name(it.value.func, "type") and len(it.value.args) == 1 and _is_name(it.value.args[0], "obj")):
        raise Broken("descriptor_generator does not iterate type(obj).__mro__ (most derived class first)")
    inner = [n for n in outer[0].body if isinstance(n, ast.For)]
    if len(inner) != 1:
        raise Broken("descriptor_generator: expected exactly one inner for loop")
    body = inner[0].body
    yields = [n for n in ast.walk(inner[0]) if isinstance(n, ast.Yield)]
    if len(yields) != 1 or not (isinstance(yields[0].value, ast.Tuple) and len(yields[0].value.elts) == 2
                                and all(isinstance(e, ast.Attribute) and _is_name(e.value, "entry") for e in yields[0].value.elts)
                                and [e.attr for e in yields[0].value.elts] == ["public_name", "signal_types"]):
        raise Broken("descriptor_generator does not yield entry.public_name, entry.signal_types")
    last = body[-1]
    if not (isinstance(last, ast.If) and isinstance(last.test, ast.Call) and _is_name(last.test.func, "isinstance")
            and len(last.test.args) == 2 and _is_name(last.test.args[0], "entry") and _is_name(last.test.args[1], "BaseObservable")
            and len(last.body) == 1 and isinstance(last.body[0], ast.Expr) and last.body[0].value is yields[0] and not last.orelse):
        raise Broken("descriptor_generator: the yield is not guarded by isinstance(entry, BaseObservable) as the last statement")
    mentions_seen = any(_is_name(n, "seen") for n in ast.walk(fn))
    if not mentions_seen:
        if len(body) == 1:
            return "Definition gen_dg_shadowing : bool := false."
        raise Broken("descriptor_generator: unknown loop body")
    # repaired shape
    inits = [n for n in fn.body if isinstance(n, ast.Assign) and len(n.targets) == 1 and _is_name(n.targets[0], "seen")]
    if not (len(inits) == 1 and isinstance(inits[0].value, ast.Call) and _is_name(inits[0].value.func, "set") and not inits[0].value.args):
        raise Broken("descriptor_generator: seen is not initialised once with set() before the walk")
    tgt = inner[0].target
    if not (isinstance(tgt, ast.Tuple) and len(tgt.elts) == 2 and _is_name(tgt.elts[0], "name") and _is_name(tgt.elts[1], "entry")
            and isinstance(inner[0].iter, ast.Call) and isinstance(inner[0].iter.func, ast.Attribute) and inner[0].iter.func.attr == "items"):
        raise Broken("descriptor_generator: inner loop is not `for name, entry in <dict>.items()`")
    if len(body) != 3:
        raise Broken("descriptor_generator: inner loop body is not [skip-if-seen, seen.add, yield-if-observable]")
    skip, add = body[0], body[1]
    ok_skip = (isinstance(skip, ast.If) and isinstance(skip.test, ast.Compare) and _is_name(skip.test.left, "name")
               and len(skip.test.ops) == 1 and isinstance(skip.test.ops[0], ast.In) and _is_name(skip.test.comparators[0], "seen")
               and len(skip.body) == 1 and isinstance(skip.body[0], ast.Continue) and not skip.orelse)
    ok_add = (isinstance(add, ast.Expr) and isinstance(add.value, ast.Call) and isinstance(add.value.func, ast.Attribute)
              and add.value.func.attr == "add" and _is_name(add.value.func.value, "seen")
              and len(add.value.args) == 1 and _is_name(add.value.args[0], "name"))
    if not (ok_skip and ok_add):
        raise Broken("descriptor_generator: shadowing logic is not `if name in seen: continue; seen.add(name)`")
    return "Definition gen_dg_shadowing : bool := true."


def fb_dg_shadowing():
    return "Definition gen_dg_shadowing : bool := false."


CONSTRUCTS = [
    ("dg_shadowing", MS, c_dg_shadowing, fb_dg_shadowing),
    ("sig_tables", MS + "+" + OC, c_sig_tables, fb_sig_tables),
]
