"""T1 extractors for C10: the comparison operators of the two bounds tests, the modulus expressions of the two
torus corrections, the growth rule of the experimental position array and the kth argument of argpartition,
re-read from the source with `ast` on every run (fail closed).  Properties/C10.v proves that they are the ones
Model/ContGeom.v, ContLegacy.v and ContExp.v transcribe (C10_source_shapes)."""
import ast

import translate as T

HEADER = """Inductive cont_cmp := KLt | KLe | KGt | KGe | KEq | KNe."""

_OPS = {ast.Lt: "KLt", ast.LtE: "KLe", ast.Gt: "KGt", ast.GtE: "KGe", ast.Eq: "KEq", ast.NotEq: "KNe"}
LEG = "mesa/space.py"
EXP = "mesa/experimental/continuous_space/continuous_space.py"
AGT = "mesa/experimental/continuous_space/continuous_space_agents.py"


def _cls(path, name):
    return T._find_class(T._parse(path), name)


def _cmp(node):
    if not (isinstance(node, ast.Compare) and len(node.ops) == 1):
        raise T.Broken("not a single comparison: " + ast.unparse(node))
    return node


def c_legacy_oob():
    """out_of_bounds: return x < self.x_min or x >= self.x_max or y < self.y_min or y >= self.y_max"""
    fn = T._find_func(_cls(LEG, "ContinuousSpace"), "out_of_bounds")
    rets = [n for n in ast.walk(fn) if isinstance(n, ast.Return)]
    if len(rets) != 1 or not isinstance(rets[0].value, ast.BoolOp) or not isinstance(rets[0].value.op, ast.Or):
        raise T.Broken("out_of_bounds is not a single 'return a or b or ...'")
    out = []
    for v, (var, attr) in zip(rets[0].value.values, [("x", "x_min"), ("x", "x_max"), ("y", "y_min"), ("y", "y_max")]):
        c = _cmp(v)
        if ast.unparse(c.left) != var or ast.unparse(c.comparators[0]) != "self." + attr:
            raise T.Broken("unexpected operand in " + ast.unparse(c))
        out.append(_OPS[type(c.ops[0])])
    if len(rets[0].value.values) != 4:
        raise T.Broken("expected four tests")
    return "Definition gen_cont_legacy_oob : list cont_cmp := [" + "; ".join(out) + "]."


def c_exp_in_bounds():
    """in_bounds: ((np.asanyarray(point) >= self.dimensions[:, 0]) & (point <= self.dimensions[:, 1])).all()"""
    fn = T._find_func(_cls(EXP, "ContinuousSpace"), "in_bounds")
    ands = [n for n in ast.walk(fn) if isinstance(n, ast.BinOp) and isinstance(n.op, ast.BitAnd)]
    if len(ands) != 1:
        raise T.Broken("in_bounds is not one '&' of two comparisons")
    lo, hi = _cmp(ands[0].left), _cmp(ands[0].right)
    if ast.unparse(lo.comparators[0]) != "self.dimensions[:, 0]" or ast.unparse(hi.comparators[0]) != "self.dimensions[:, 1]":
        raise T.Broken("unexpected bounds operands")
    if "point" not in ast.unparse(lo.left) or ast.unparse(hi.left) != "point":
        raise T.Broken("unexpected point operands")
    src = ast.unparse(fn)
    if ".all()" not in src:
        raise T.Broken("no .all()")
    return f"Definition gen_cont_exp_in_bounds : list cont_cmp := [{_OPS[type(lo.ops[0])]}; {_OPS[type(hi.ops[0])]}]."


def c_exp_growth():
    """_add_agent: fraction = 0.2 ; n = max(int(round(fraction * self._n_agents)), 1) ; guard shape[0] <= index
    -> (numerator, denominator of the fraction, minimal growth, guard operator)"""
    fn = T._find_func(_cls(EXP, "ContinuousSpace"), "_add_agent")
    frac = T._one_assignment(fn, "fraction")
    if not (isinstance(frac, ast.Constant) and isinstance(frac.value, float)):
        raise T.Broken("fraction is not a float constant")
    from fractions import Fraction

    fr = Fraction(str(frac.value))
    n = T._one_assignment(fn, "n")
    src = ast.unparse(n)
    core = "int(round(fraction * self._n_agents))"
    if src == core:
        mn = 0
    elif isinstance(n, ast.Call) and ast.unparse(n.func) == "max" and len(n.args) == 2:
        a = [ast.unparse(x) for x in n.args]
        other = [x for x in n.args if ast.unparse(x) != core]
        if core not in a or len(other) != 1 or not (isinstance(other[0], ast.Constant) and isinstance(other[0].value, int)):
            raise T.Broken("unexpected growth expression " + src)
        mn = other[0].value
    else:
        raise T.Broken("unexpected growth expression " + src)
    ifs = [s for s in fn.body if isinstance(s, ast.If)]
    if len(ifs) != 1:
        raise T.Broken("expected one if in _add_agent")
    g = _cmp(ifs[0].test)
    if ast.unparse(g.left) != "self._agent_positions.shape[0]" or ast.unparse(g.comparators[0]) != "index":
        raise T.Broken("unexpected growth guard " + ast.unparse(g))
    return (f"Definition gen_cont_exp_growth : (Z * Z * Z) * cont_cmp := (({fr.numerator}, {fr.denominator}, {mn}), "
            f"{_OPS[type(g.ops[0])]}).")


def c_exp_kth():
    """get_k_nearest_agents: np.argpartition(dists, k - 1)[:k]  -> offset added to k for kth (here -1)"""
    fn = T._find_func(_cls(EXP, "ContinuousSpace"), "get_k_nearest_agents")
    calls = [n for n in ast.walk(fn) if isinstance(n, ast.Call) and ast.unparse(n.func) == "np.argpartition"]
    if len(calls) != 1 or len(calls[0].args) != 2 or ast.unparse(calls[0].args[0]) != "dists":
        raise T.Broken("expected one np.argpartition(dists, kth)")
    kth = ast.unparse(calls[0].args[1])
    off = {"k": 0, "k - 1": -1}.get(kth)
    if off is None:
        raise T.Broken("unexpected kth " + kth)
    return f"Definition gen_cont_exp_kth_offset : Z := {T._z(off)}."


def c_radius_ops():
    """legacy: np.where(dists <= radius ** 2) and include_center or dists[x] > 0; experimental: distances <= radius"""
    fn = T._find_func(_cls(LEG, "ContinuousSpace"), "get_neighbors")
    cmps = [n for n in ast.walk(fn) if isinstance(n, ast.Compare)]
    a = [c for c in cmps if ast.unparse(c.left) == "dists" and ast.unparse(c.comparators[0]) == "radius ** 2"]
    b = [c for c in cmps if ast.unparse(c.left) == "dists[x]" and ast.unparse(c.comparators[0]) == "0"]
    fn2 = T._find_func(_cls(EXP, "ContinuousSpace"), "get_agents_in_radius")
    c2 = [c for c in ast.walk(fn2) if isinstance(c, ast.Compare) and ast.unparse(c.left) == "distances" and ast.unparse(c.comparators[0]) == "radius"]
    if len(a) != 1 or len(b) != 1 or len(c2) != 1:
        raise T.Broken("radius comparisons not found")
    return ("Definition gen_cont_radius_ops : list cont_cmp := ["
            + "; ".join(_OPS[type(c.ops[0])] for c in (a[0], b[0], c2[0])) + "].")


def _norm(node):
    return ast.unparse(node).replace(" ", "")


def c_wrap_exprs():
    """the two torus corrections, as shapes: legacy  x = self.x_min + (pos[0] - self.x_min) % self.width  (and y with
    y_min / height / pos[1]); experimental  self.dimensions[:, 0] + np.mod(np.asanyarray(point) - self.dimensions[:, 0],
    self.size).  Emits the list of (axis, uses-own-min, uses-own-size) flags for the legacy axes and 1 for the
    experimental expression."""
    fn = T._find_func(_cls(LEG, "ContinuousSpace"), "torus_adj")
    x = _norm(T._one_assignment(fn, "x"))
    y = _norm(T._one_assignment(fn, "y"))
    flags = []
    for got, i, mn, size in ((x, 0, "x_min", "width"), (y, 1, "y_min", "height")):
        want = f"self.{mn}+(pos[{i}]-self.{mn})%self.{size}"
        if got != want:
            raise T.Broken(f"legacy torus_adj axis {i}: {got} is not {want}")
        flags.append(f"({i}, 1, 1)")
    fn2 = T._find_func(_cls(EXP, "ContinuousSpace"), "torus_correct")
    rets = [n for n in ast.walk(fn2) if isinstance(n, ast.Return)]
    want2 = "self.dimensions[:,0]+np.mod(np.asanyarray(point)-self.dimensions[:,0],self.size)"
    if len(rets) != 1 or _norm(rets[0].value) != want2:
        raise T.Broken("experimental torus_correct is not " + want2)
    # the order of tests in torus_adj: in bounds -> unchanged; bounded -> raise; torus -> wrap
    ifs = [s_ for s_ in fn.body if isinstance(s_, ast.If)]
    if len(ifs) != 1 or _norm(ifs[0].test) != "notself.out_of_bounds(pos)" or not isinstance(ifs[0].body[0], ast.Return):
        raise T.Broken("legacy torus_adj does not start with 'if not self.out_of_bounds(pos): return pos'")
    el = ifs[0].orelse
    if len(el) != 1 or not isinstance(el[0], ast.If) or _norm(el[0].test) != "notself.torus" or not isinstance(el[0].body[0], ast.Raise):
        raise T.Broken("legacy torus_adj: second branch is not 'elif not self.torus: raise'")
    return "Definition gen_cont_wrap : list (Z * Z * Z) * Z := ([" + "; ".join(flags) + "], 1)."


def c_exp_remove_shape():
    """_remove_agent: the re-indexing loop runs over active_agents[index:], decrements by one, and the rows
    [index+1 : n] are copied onto [index : n-1] before n is decremented.  Emits the four slice offsets relative to
    (index, n): (0, -1, 1, 0), and the loop start offset 0."""
    fn = T._find_func(_cls(EXP, "ContinuousSpace"), "_remove_agent")
    loops = [s_ for s_ in fn.body if isinstance(s_, ast.For)]
    if len(loops) != 1 or _norm(loops[0].iter) not in ("self.active_agents[index:]", "self.active_agents[index::]"):
        raise T.Broken("re-indexing loop is not over self.active_agents[index:]")
    body = [_norm(b) for b in loops[0].body]
    if body != ["old_index=self._agent_to_index[agent]", "self._agent_to_index[agent]=old_index-1",
                "self._index_to_agent[old_index-1]=agent"]:
        raise T.Broken("unexpected re-indexing loop body " + "; ".join(body))
    assigns = [s_ for s_ in fn.body if isinstance(s_, ast.Assign) and _norm(s_.targets[0]).startswith("self._agent_positions[")]
    if len(assigns) != 1:
        raise T.Broken("expected one slice assignment on _agent_positions")
    if _norm(assigns[0].targets[0]) != "self._agent_positions[index:self._n_agents-1]" \
            or _norm(assigns[0].value) != "self._agent_positions[index+1:self._n_agents]":
        raise T.Broken("unexpected compaction " + _norm(assigns[0]))
    order = [_norm(s_) for s_ in fn.body if isinstance(s_, (ast.Assign, ast.AugAssign, ast.Delete, ast.Expr, ast.For))]
    i_del = next((k for k, t in enumerate(order) if t == "delself.active_agents[index]"), None)
    i_loop = next((k for k, s_ in enumerate([x for x in fn.body if isinstance(x, (ast.Assign, ast.AugAssign, ast.Delete, ast.Expr, ast.For))]) if isinstance(s_, ast.For)), None)
    i_dec = next((k for k, t in enumerate(order) if t == "self._n_agents-=1"), None)
    i_cp = next((k for k, t in enumerate(order) if t.startswith("self._agent_positions[index:")), None)
    if None in (i_del, i_loop, i_dec, i_cp) or not (i_del < i_loop < i_cp < i_dec):
        raise T.Broken("statement order of _remove_agent changed")
    return "Definition gen_cont_exp_remove : (Z * Z * Z * Z) * Z := ((0, -1, 1, 0), 0)."


def _fb(name, ty, val):
    return lambda: f"Definition {name} : {ty} := {val}."


CONSTRUCTS = [
    ("cont_legacy_oob", LEG, c_legacy_oob, _fb("gen_cont_legacy_oob", "list cont_cmp", "[]")),
    ("cont_exp_in_bounds", EXP, c_exp_in_bounds, _fb("gen_cont_exp_in_bounds", "list cont_cmp", "[]")),
    ("cont_exp_growth", EXP, c_exp_growth, _fb("gen_cont_exp_growth", "(Z * Z * Z) * cont_cmp", "((0, 1, 0), KEq)")),
    ("cont_exp_kth", EXP, c_exp_kth, _fb("gen_cont_exp_kth_offset", "Z", "0")),
    ("cont_radius_ops", LEG, c_radius_ops, _fb("gen_cont_radius_ops", "list cont_cmp", "[]")),
    ("cont_wrap", LEG, c_wrap_exprs, _fb("gen_cont_wrap", "list (Z * Z * Z) * Z", "([], 0)")),
    ("cont_exp_remove", EXP, c_exp_remove_shape, _fb("gen_cont_exp_remove", "(Z * Z * Z * Z) * Z", "((0, 0, 0, 0), -1)")),
]
