"""T1 extractors for C20 (mesa/visualization/mpl_space_drawing.py): the constants the Viz model and its
theorems depend on are re-read from the source with `ast` on every run; any other shape is `Broken`
(fail closed: the fallback values make C20's theorems / examples fail to check).

  viz_collect_defaults  defaults of collect_agent_data(color=, marker=, zorder=) as palette indices
  viz_size_base         the 180 of  s_default = (180 / max(w, h)) ** 2  in all five draw_* functions
  (the hex centre formulas are translated as code by harness/tables/viz_code.py)
"""
import ast

from translate import Broken, _find_func, _parse

SRC = "mesa/visualization/mpl_space_drawing.py"
# the palettes of harness/props/C20.py (index 0 must be the library default)
COLORS = ["tab:blue", "tab:orange", "tab:green", "red", "black", "#123456"]
MARKERS = ["o", "s", "^", "v", "D", "*"]
HEADER = ""


def _z(n):
    return f"({n})" if n < 0 else str(n)


def c_collect_defaults():
    fn = _find_func(_parse(SRC), "collect_agent_data")
    names = [a.arg for a in fn.args.args]
    if names != ["space", "agent_portrayal", "color", "size", "marker", "zorder"]:
        raise Broken(f"unexpected parameter list {names}")
    defs = fn.args.defaults
    if len(defs) != 4 or not all(isinstance(d, ast.Constant) for d in defs):
        raise Broken("expected four constant defaults")
    color, size, marker, zorder = (d.value for d in defs)
    if color not in COLORS or marker not in MARKERS or not isinstance(zorder, int) or isinstance(zorder, bool):
        raise Broken(f"defaults outside the harness palettes: {color!r} {marker!r} {zorder!r}")
    # the keys popped from the portrayal, in the statement's vocabulary
    pops = {}
    for n in ast.walk(fn):
        if (isinstance(n, ast.Call) and isinstance(n.func, ast.Attribute) and n.func.attr == "pop"
                and isinstance(n.func.value, ast.Name) and len(n.args) == 2    # whatever the local dict is called
                and isinstance(n.args[0], ast.Constant) and isinstance(n.args[1], ast.Name)):
            pops[n.args[0].value] = n.args[1].id
    if pops != {"size": "size", "color": "color", "marker": "marker", "zorder": "zorder"}:
        raise Broken(f"portrayal keys / defaults are paired differently: {pops}")
    return (f"Definition gen_viz_default_color : Z := {COLORS.index(color)}.\n"
            f"Definition gen_viz_default_marker : Z := {MARKERS.index(marker)}.\n"
            f"Definition gen_viz_default_zorder : Z := {_z(zorder)}.")


def fb_collect_defaults():
    return ("Definition gen_viz_default_color : Z := (-1).\nDefinition gen_viz_default_marker : Z := (-1).\n"
            "Definition gen_viz_default_zorder : Z := (-1).")


def c_size_base():
    tree = _parse(SRC)
    found = set()
    for fname in ("draw_orthogonal_grid", "draw_hex_grid", "draw_network", "draw_continuous_space", "draw_voronoi_grid"):
        fn = _find_func(tree, fname)
        # the local passed as `size=` to collect_agent_data, whatever it is called
        sized = [k.value.id for n in ast.walk(fn) if isinstance(n, ast.Call) and ast.unparse(n.func) == "collect_agent_data"
                 for k in n.keywords if k.arg == "size" and isinstance(k.value, ast.Name)]
        if len(sized) != 1:
            raise Broken(f"{fname}: collect_agent_data(..., size=<local>) not found")
        vals = [n.value for n in ast.walk(fn) if isinstance(n, ast.Assign) and len(n.targets) == 1
                and isinstance(n.targets[0], ast.Name) and n.targets[0].id == sized[0]]
        if len(vals) != 1:
            raise Broken(f"{fname}: expected one assignment to the default size")
        v = vals[0]
        ok = (isinstance(v, ast.BinOp) and isinstance(v.op, ast.Pow) and isinstance(v.right, ast.Constant) and v.right.value == 2
              and isinstance(v.left, ast.BinOp) and isinstance(v.left.op, ast.Div) and isinstance(v.left.left, ast.Constant)
              and isinstance(v.left.left.value, int) and isinstance(v.left.right, ast.Call)
              and isinstance(v.left.right.func, ast.Name) and v.left.right.func.id == "max" and len(v.left.right.args) == 2)
        if not ok:
            raise Broken(f"{fname}: s_default is not (K / max(a, b)) ** 2")
        args = [ast.unparse(a) for a in v.left.right.args]
        if fname in ("draw_orthogonal_grid", "draw_hex_grid") and args != ["space.width", "space.height"]:
            raise Broken(f"{fname}: max{tuple(args)} instead of max(space.width, space.height)")
        # (the other three drawers take the max of two locals - the extents - whose values the oracle checks)
        found.add(v.left.left.value)
    if len(found) != 1:
        raise Broken(f"different size constants {sorted(found)}")
    return f"Definition gen_viz_size_base : Z := {found.pop()}."


def fb_size_base():
    return "Definition gen_viz_size_base : Z := 0."


def c_hex_parity():
    tree = _parse(SRC)
    fn = _find_func(tree, "draw_hex_grid")
    # loc[:, 0] = loc[:, 0] * x_spacing + ((loc[:, 1] - K) % 2) * (x_spacing / 2)
    ks = []
    for n in ast.walk(fn):
        if isinstance(n, ast.Assign) and ast.unparse(n.targets[0]) == "loc[:, 0]":
            txt = ast.unparse(n.value)
            for m in ast.walk(n.value):
                if (isinstance(m, ast.BinOp) and isinstance(m.op, ast.Mod) and isinstance(m.right, ast.Constant) and m.right.value == 2
                        and isinstance(m.left, ast.BinOp) and isinstance(m.left.op, ast.Sub)
                        and ast.unparse(m.left.left) == "loc[:, 1]" and isinstance(m.left.right, ast.Constant)
                        and isinstance(m.left.right.value, int)):
                    ks.append((m.left.right.value, txt))
    if len(ks) != 1:
        raise Broken("draw_hex_grid: expected exactly one ((loc[:, 1] - K) % 2) term in the x assignment")
    k, txt = ks[0]
    if txt != f"loc[:, 0] * x_spacing + (loc[:, 1] - {k}) % 2 * (x_spacing / 2)":
        raise Broken(f"draw_hex_grid: x centre formula has another shape: {txt}")
    ys = [ast.unparse(n.value) for n in ast.walk(fn) if isinstance(n, ast.Assign) and ast.unparse(n.targets[0]) == "loc[:, 1]"]
    if ys != ["loc[:, 1] * y_spacing"]:
        raise Broken(f"draw_hex_grid: y centre formula {ys}")
    mesh = _find_func(tree, "_get_hexmesh")
    xs = [ast.unparse(n.value) for n in ast.walk(mesh) if isinstance(n, ast.Assign) and ast.unparse(n.targets[0]) == "x"]
    ps = []
    for n in ast.walk(mesh):
        if (isinstance(n, ast.Compare) and len(n.ops) == 1 and isinstance(n.ops[0], ast.Eq)
                and ast.unparse(n.left) == "row % 2" and isinstance(n.comparators[0], ast.Constant)):
            ps.append(n.comparators[0].value)
    if len(ps) != 1 or ps[0] not in (0, 1) or xs != [f"col * x_spacing + (row % 2 == {ps[0]}) * (x_spacing / 2)"]:
        raise Broken(f"_get_hexmesh: centre formula has another shape: {xs}")
    sp = {ast.unparse(n.targets[0]): ast.unparse(n.value) for n in ast.walk(fn) if isinstance(n, ast.Assign)
          and ast.unparse(n.targets[0]) in ("x_spacing", "y_spacing", "size")}
    if sp != {"size": "1.0", "x_spacing": "np.sqrt(3) * size", "y_spacing": "1.5 * size"}:
        raise Broken(f"draw_hex_grid: spacing constants {sp}")
    return (f"Definition gen_viz_hex_row_offset : Z := {_z(k)}.\n"
            f"Definition gen_viz_mesh_shift_parity : Z := {ps[0]}.")


def fb_hex_parity():
    return "Definition gen_viz_hex_row_offset : Z := 0.\nDefinition gen_viz_mesh_shift_parity : Z := 0."


CONSTRUCTS = [
    ("viz_collect_defaults", SRC, c_collect_defaults, fb_collect_defaults),
    ("viz_size_base", SRC, c_size_base, fb_size_base),
]
