"""T1 (code level) for the mutators SignalingList INHERITS from collections.abc.MutableSequence
(pop, remove, extend, +=, reverse, clear): their bodies are read from the CPython stdlib source file
`_collections_abc.py` of the running interpreter (checked against the bytecode of the running, frozen,
classes), and TRANSLATED into Gallina programs over the abstract sequence primitives
(getitem / setitem / delitem / append / index / len).  Proofs/SignalsBridge.v instantiates the primitives
with SignalingList's own (already translated) __setitem__ / __delitem__ / append and proves the programs
equal to the hand-written l_pop / l_remove / l_extend / l_reverse / l_clear of Model/Signals.v, so the
signal sequence of e.g. reverse / extend(self) / += is regenerated, not assumed.
Result type  (S * option Z) + Z : new state and returned value | the error code (IndexError 4, ValueError 5)."""
import ast
import collections.abc
import os

import pyexpr
import translate as T

STD = "<stdlib>/_collections_abc.py"
EXC_CODE = {"IndexError": 4, "ValueError": 5}

HEADER = """(* C16: combinators for the translated collections.abc.MutableSequence mutators *)
Fixpoint fold_err {S A : Type} (f : S -> A -> S + Z) (l : list A) (s : S) : S + Z :=
  match l with
  | [] => inl s
  | a :: t => match f s a with inl s' => fold_err f t s' | inr e => inr e end
  end.
(* try: while True: body  except <catch>: pass     (fuel exhausted = -1) *)
Fixpoint while_catch {S : Type} (fuel : nat) (catch : Z) (body : S -> S + Z) (s : S) : S + Z :=
  match fuel with
  | O => inr (-1)
  | Datatypes.S f =>
      match body s with
      | inl s' => while_catch f catch body s'
      | inr e => if e =? catch then inl s else inr e
      end
  end.
"""

PRIMS = ("{S : Type} (getitem : S -> Z -> Z + Z) (setitem : S -> Z -> Z -> S + Z) (delitem : S -> Z -> S + Z) "
         "(append : S -> Z -> S) (index : S -> Z -> Z + Z) (len : S -> Z) (snapshot : S -> list Z)")
RES = "(S * option Z) + Z"


class U(pyexpr.Unsupported):
    pass


def _stdlib_path():
    return os.path.join(os.path.dirname(os.__file__), "_collections_abc.py")


def _cls(name):
    p = _stdlib_path()
    if not os.path.exists(p):
        raise T.Broken(f"stdlib source {p} not found")
    tree = ast.parse(open(p).read())
    for n in tree.body:
        if isinstance(n, ast.ClassDef) and n.name == name:
            return n
    raise T.Broken(f"class {name} not found in _collections_abc.py")


def _func(cls_name, name):
    """the FunctionDef from the stdlib source, checked against the bytecode of the running class"""
    cls = _cls(cls_name)
    fn = None
    for n in cls.body:
        if isinstance(n, ast.FunctionDef) and n.name == name:
            fn = n
    if fn is None:
        raise T.Broken(f"{cls_name}.{name} not found")
    ns = {}
    exec(compile(ast.Module(body=[fn], type_ignores=[]), _stdlib_path(), "exec"), ns)  # noqa: S102 - defines one function
    live = getattr(getattr(collections.abc, cls_name), name)
    if ns[name].__code__.co_code != live.__code__.co_code or ns[name].__defaults__ != live.__defaults__:
        raise T.Broken(f"{cls_name}.{name}: the source file is not the code the interpreter runs")
    return fn


def _is(n, ident):
    return isinstance(n, ast.Name) and n.id == ident


def _self_item(e):
    return e.slice if isinstance(e, ast.Subscript) and _is(e.value, "self") else None


class MsTr(pyexpr.Tr):
    def __init__(self, znames, lists=(), extra=()):
        super().__init__()
        self.z = set(znames)
        self.lists = set(lists)
        self.extra = set(extra)      # 'extend' / 'pop' : other methods passed in as parameters
        self.tmp = 0

    def fresh(self):
        self.tmp += 1
        return f"t{self.tmp}"

    def expr(self, e):
        if isinstance(e, ast.Call) and _is(e.func, "len") and len(e.args) == 1 and _is(e.args[0], "self") and not e.keywords:
            return "(len s)", "Z"
        if isinstance(e, ast.Name) and e.id not in self.z:
            raise U(f"name {e.id}")
        return super().expr(e)

    def pure(self, e):
        t, k = self.expr(e)
        if k != "Z":
            raise U("an integer was expected")
        return t

    def mexpr(self, e, k):
        """evaluate e (may read self[...] / call self.index(...)), continue with k(text of its value)"""
        ix = _self_item(e)
        if ix is not None:
            t = self.fresh()
            return self.mexpr(ix, lambda i: f"(match getitem s {i} with inl {t} => {k(t)} | inr e => inr e end)")
        if isinstance(e, ast.Call) and isinstance(e.func, ast.Attribute) and _is(e.func.value, "self") and e.func.attr == "index" \
                and len(e.args) == 1 and not e.keywords:
            t = self.fresh()
            return self.mexpr(e.args[0], lambda v: f"(match index s {v} with inl {t} => {k(t)} | inr e => inr e end)")
        return k(self.pure(e))

    def block(self, stmts, end, in_loop=False):
        if not stmts:
            return end
        s, rest = stmts[0], list(stmts[1:])

        def cont():
            return self.block(rest, end, in_loop)
        if isinstance(s, ast.Expr) and isinstance(s.value, ast.Constant) and isinstance(s.value.value, str):
            return cont()
        if isinstance(s, ast.Pass):
            return cont()
        if isinstance(s, ast.Return):
            if in_loop or rest:
                raise U("return inside a loop / before the end")
            if _is(s.value, "self") or s.value is None:
                return "inl (s, None)"
            if isinstance(s.value, ast.Name) and s.value.id in self.z:
                return f"inl (s, Some {s.value.id})"
            raise U("returned value")
        if isinstance(s, ast.Assign) and len(s.targets) == 1:
            tgt = s.targets[0]
            if isinstance(tgt, ast.Name):
                if in_loop:
                    raise U("assignment to a name inside a loop")

                def bind(v):
                    self.z.add(tgt.id)
                    return f"(let {tgt.id} := {v} in {cont()})"
                return self.mexpr(s.value, bind)
            if isinstance(tgt, ast.Tuple) and isinstance(s.value, ast.Tuple) and len(tgt.elts) == len(s.value.elts) \
                    and all(_self_item(t) is not None for t in tgt.elts):
                # a, b = x, y : the right-hand sides are evaluated left to right, then the targets are stored left to right
                vals = []

                def eval_rhs(i):
                    if i == len(s.value.elts):
                        return store(0)
                    return self.mexpr(s.value.elts[i], lambda v: (vals.append(v), eval_rhs(i + 1))[1])

                def store(i):
                    if i == len(tgt.elts):
                        return cont()
                    return self.mexpr(_self_item(tgt.elts[i]),
                                      lambda ix: f"(match setitem s {ix} {vals[i]} with inl s => {store(i + 1)} | inr e => inr e end)")
                return eval_rhs(0)
            raise U(f"assignment {ast.unparse(s)[:60]!r}")
        if isinstance(s, ast.Delete) and len(s.targets) == 1 and _self_item(s.targets[0]) is not None:
            return self.mexpr(_self_item(s.targets[0]),
                              lambda ix: f"(match delitem s {ix} with inl s => {cont()} | inr e => inr e end)")
        if isinstance(s, ast.Expr) and isinstance(s.value, ast.Call) and isinstance(s.value.func, ast.Attribute) \
                and _is(s.value.func.value, "self") and not s.value.keywords:
            c = s.value
            if c.func.attr == "append" and len(c.args) == 1:
                return self.mexpr(c.args[0], lambda v: f"(let s := append s {v} in {cont()})")
            if c.func.attr == "extend" and "extend" in self.extra and len(c.args) == 1 and isinstance(c.args[0], ast.Name) \
                    and c.args[0].id in self.lists:
                return f"(match extend s {c.args[0].id} is_self with inl (s, _) => {cont()} | inr e => inr e end)"
            if c.func.attr == "pop" and "pop" in self.extra and not c.args:
                return f"(match pop s with inl (s, _) => {cont()} | inr e => inr e end)"
            raise U(f"call {ast.unparse(c)[:60]!r}")
        if isinstance(s, ast.If) and not s.orelse and isinstance(s.test, ast.Compare) and len(s.test.ops) == 1 \
                and isinstance(s.test.ops[0], ast.Is) and isinstance(s.test.left, ast.Name) and s.test.left.id in self.lists \
                and _is(s.test.comparators[0], "self") and len(s.body) == 1 \
                and ast.unparse(s.body[0]) == f"{s.test.left.id} = list({s.test.left.id})" and not in_loop:
            v = s.test.left.id       # `if values is self: values = list(values)`: a copy of the current contents
            return f"(let {v} := (if is_self then snapshot s else {v}) in {cont()})"
        if isinstance(s, ast.For) and isinstance(s.target, ast.Name) and not s.orelse and not in_loop:
            var = s.target.id
            if isinstance(s.iter, ast.Name) and s.iter.id in self.lists:
                lst = s.iter.id
            elif isinstance(s.iter, ast.Call) and _is(s.iter.func, "range") and len(s.iter.args) == 1 and not s.iter.keywords:
                lst = f"(zrange 0 ({self.pure(s.iter.args[0])} - 1))"
            else:
                raise U("loop iterable")
            self.z.add(var)
            body = self.block(list(s.body), "inl s", in_loop=True)
            self.z.discard(var)
            return f"(match fold_err (fun s {var} => {body}) {lst} s with inl s => {cont()} | inr e => inr e end)"
        if isinstance(s, ast.Try) and not s.orelse and not s.finalbody and len(s.handlers) == 1 and not in_loop \
                and isinstance(s.handlers[0].type, ast.Name) and s.handlers[0].type.id in EXC_CODE and s.handlers[0].name is None \
                and all(isinstance(b, ast.Pass) for b in s.handlers[0].body) \
                and len(s.body) == 1 and isinstance(s.body[0], ast.While) and isinstance(s.body[0].test, ast.Constant) \
                and s.body[0].test.value is True and not s.body[0].orelse:
            body = self.block(list(s.body[0].body), "inl s", in_loop=True)
            code = EXC_CODE[s.handlers[0].type.id]
            return f"(match while_catch fuel {code} (fun s => {body}) s with inl s => {cont()} | inr e => inr e end)"
        raise U(f"statement {ast.unparse(s)[:60]!r}")


def _mk(name, gen, params_want, sig, znames, lists=(), extra=(), extra_sig=""):
    def ex():
        fn = _func("MutableSequence", name)
        got = [a.arg for a in fn.args.args]
        if got != params_want or fn.args.vararg or fn.args.kwarg or fn.args.kwonlyargs:
            raise T.Broken(f"unexpected parameters of MutableSequence.{name}: {got}")
        tr = MsTr(znames, lists, extra)
        try:
            body = tr.block(list(fn.body), "inl (s, None)")
        except pyexpr.Unsupported as e:
            raise T.Broken(f"MutableSequence.{name} is outside the translated subset: {e}") from None
        return f"Definition {gen} {PRIMS} {extra_sig}(s : S) {sig}: {RES} :=\n  {body}."
    return ex


def _fb(gen, sig, extra_sig=""):
    return lambda: f"Definition {gen} {PRIMS} {extra_sig}(s : S) {sig}: {RES} := inr 0."


def c_pop_default():
    fn = _func("MutableSequence", "pop")
    d = fn.args.defaults
    if len(d) != 1:
        raise T.Broken("MutableSequence.pop: expected one default")
    try:
        v = ast.literal_eval(d[0])
    except Exception:  # noqa: BLE001
        raise T.Broken("MutableSequence.pop: default index is not a literal") from None
    if not isinstance(v, int) or isinstance(v, bool):
        raise T.Broken("MutableSequence.pop: default index is not an int")
    return f"Definition gen_ms_pop_default : Z := {'(%d)' % v if v < 0 else v}."


INDEX_NORM = [   # Sequence.index modulo local names (pyexpr.normalized_statements)
    "if start is not None and start < 0:\n    start = max(len(self) + start, 0)",
    "if stop is not None and stop < 0:\n    stop += len(self)",
    "v0 = start",
    "while stop is None or v0 < stop:\n    try:\n        v1 = self[v0]\n    except IndexError:\n        break\n"
    "    if v1 is value or v1 == value:\n        return v0\n    v0 += 1",
    "raise ValueError",
]


def c_glue():
    """Sequence.index (a while loop with try/break) is transcribed by hand as index_of: checked verbatim; and the six
    mutators must not be re-defined between MutableSequence and SignalingList's other bases"""
    fn = _func("Sequence", "index")
    if [x.arg for x in fn.args.args] != ["self", "value", "start", "stop"]:
        raise T.Broken("Sequence.index: parameters changed")
    got = pyexpr.normalized_statements(fn)
    if got != INDEX_NORM:
        raise T.Broken("Sequence.index changed: " + next((g for g, w in zip(got, INDEX_NORM) if g != w), str(len(got)))[:200])
    ms = collections.abc.MutableSequence
    for m in ("pop", "remove", "extend", "__iadd__", "reverse", "clear"):
        if m not in vars(ms):
            raise T.Broken(f"MutableSequence does not define {m} itself")
    if "index" in vars(ms) or vars(collections.abc.Sequence).get("index") is None:
        raise T.Broken("index is not Sequence.index")
    return "Definition gen_ms_glue_ok : bool := true."


EXT = "(extend : S -> list Z -> bool -> (S * option Z) + Z) "
POP = "(pop : S -> (S * option Z) + Z) (fuel : nat) "
CONSTRUCTS = [
    ("ms_pop_code", STD, _mk("pop", "gen_ms_pop", ["self", "index"], "(index : Z) ", ["index"]), _fb("gen_ms_pop", "(index : Z) ")),
    ("ms_pop_default", STD, c_pop_default, lambda: "Definition gen_ms_pop_default : Z := 0."),
    ("ms_remove_code", STD, _mk("remove", "gen_ms_remove", ["self", "value"], "(value : Z) ", ["value"]), _fb("gen_ms_remove", "(value : Z) ")),
    ("ms_extend_code", STD, _mk("extend", "gen_ms_extend", ["self", "values"], "(values : list Z) (is_self : bool) ", [], ["values"]),
     _fb("gen_ms_extend", "(values : list Z) (is_self : bool) ")),
    ("ms_iadd_code", STD, _mk("__iadd__", "gen_ms_iadd", ["self", "values"], "(values : list Z) (is_self : bool) ", [], ["values"],
                               ["extend"], EXT), _fb("gen_ms_iadd", "(values : list Z) (is_self : bool) ", EXT)),
    ("ms_reverse_code", STD, _mk("reverse", "gen_ms_reverse", ["self"], "", []), _fb("gen_ms_reverse", "")),
    ("ms_clear_code", STD, _mk("clear", "gen_ms_clear", ["self"], "", [], (), ["pop"], POP), _fb("gen_ms_clear", "", POP)),
    ("ms_glue", STD, c_glue, lambda: "Definition gen_ms_glue_ok : bool := false."),
]
