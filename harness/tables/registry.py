"""T1 extractors for C02 (mesa/agent.py, mesa/model.py registry) and C05 (mesa/model.py step wrapper).
Each construct re-reads the source with `ast` and must have exactly the expected shape (fail closed).
The Gallina models hard-code the same facts; Properties/C02.v and C05.v prove `generated = hard-coded`,
so a change of the source shape breaks a theorem instead of passing silently."""
import ast

import translate as T

HEADER = """Inductive reg_struct := RHard | RByType | RAll.
Inductive wstmt := WIncr | WCall.
Inductive rmstmt := RMWhileRunning | RMStep."""


def _is_self_attr(node, name):
    return (isinstance(node, ast.Attribute) and node.attr == name and isinstance(node.value, ast.Name)
            and node.value.id == "self")


def _is_logger_call(stmt):
    return (isinstance(stmt, ast.Expr) and isinstance(stmt.value, ast.Call) and isinstance(stmt.value.func, ast.Attribute)
            and isinstance(stmt.value.func.value, ast.Name) and stmt.value.func.value.id == "_mesa_logger")


def _body(fn):
    """statements of a function without the docstring, comments and logger calls"""
    out = []
    for s in fn.body:
        if isinstance(s, ast.Expr) and isinstance(s.value, ast.Constant) and isinstance(s.value.value, str):
            continue
        if _is_logger_call(s):
            continue
        out.append(s)
    return out


def c_agent_first_id():
    cls = T._find_class(T._parse("mesa/agent.py"), "Agent")
    v = T._one_assignment(cls, "_ids")
    # defaultdict(functools.partial(itertools.count, <int>))
    ok = (isinstance(v, ast.Call) and isinstance(v.func, ast.Name) and v.func.id == "defaultdict" and len(v.args) == 1
          and not v.keywords)
    if ok:
        p = v.args[0]
        ok = (isinstance(p, ast.Call) and isinstance(p.func, ast.Attribute) and p.func.attr == "partial" and len(p.args) == 2
              and not p.keywords and isinstance(p.args[0], ast.Attribute) and p.args[0].attr == "count"
              and isinstance(p.args[0].value, ast.Name) and p.args[0].value.id == "itertools"
              and isinstance(p.args[1], ast.Constant) and type(p.args[1].value) is int)
    if not ok:
        raise T.Broken("Agent._ids is not defaultdict(functools.partial(itertools.count, <int>))")
    init = T._find_func(cls, "__init__")
    # self.unique_id = next(self._ids[model]) must be there, before self.model.register_agent(self)
    seen_id = False
    for s in init.body:
        tgt = s.target if isinstance(s, ast.AnnAssign) else (s.targets[0] if isinstance(s, ast.Assign) and len(s.targets) == 1 else None)
        if tgt is not None and _is_self_attr(tgt, "unique_id"):
            val = s.value
            if not (isinstance(val, ast.Call) and isinstance(val.func, ast.Name) and val.func.id == "next" and len(val.args) == 1
                    and isinstance(val.args[0], ast.Subscript) and _is_self_attr(val.args[0].value, "_ids")
                    and isinstance(val.args[0].slice, ast.Name) and val.args[0].slice.id == "model"):
                raise T.Broken("unique_id is not next(self._ids[model])")
            seen_id = True
        if (isinstance(s, ast.Expr) and isinstance(s.value, ast.Call) and isinstance(s.value.func, ast.Attribute)
                and s.value.func.attr == "register_agent" and not seen_id):
            raise T.Broken("register_agent is called before unique_id is drawn")
    if not seen_id:
        raise T.Broken("no assignment to self.unique_id in Agent.__init__")
    n = v.args[0].args[1].value
    return f"Definition gen_agent_first_id : Z := {T._z(n)}."


# ---------------------------------------------------------------------------------------------------
# Statement skeletons, compared modulo names of local variables, docstrings (nested ones too), comments,
# formatting, type annotations, logger calls and the TEXT of exception messages (pyexpr.normalized_statements).
import copy
import re

import pyexpr


class _Strip(ast.NodeTransformer):
    """drop every docstring, turn annotated assignments into plain ones, drop _mesa_logger calls"""

    def _body(self, body):
        out = []
        for st in body:
            if isinstance(st, ast.Expr) and isinstance(st.value, ast.Constant) and isinstance(st.value.value, str):
                continue
            if _is_logger_call(st):
                continue
            if isinstance(st, ast.AnnAssign):
                if st.value is None:
                    continue
                st = ast.copy_location(ast.Assign(targets=[st.target], value=st.value, lineno=st.lineno), st)
            out.append(st)
        return out or [ast.Pass()]

    def generic_visit(self, node):
        super().generic_visit(node)
        for field in ("body", "orelse", "finalbody"):
            if isinstance(getattr(node, field, None), list) and not isinstance(node, ast.Module):
                if field == "body" or getattr(node, field):
                    setattr(node, field, self._body(getattr(node, field)) if (field == "body" or getattr(node, field)) else [])
        return node


_MSG = re.compile(r"raise (\w+)\((['\"]).*?\2\)")


def _norm(rel, cls, fn, keep=("type", "list", "range", "isinstance", "len", "next", "super")):
    f = copy.deepcopy(T._find_func(T._find_class(T._parse(rel), cls), fn))
    f = ast.fix_missing_locations(_Strip().visit(f))
    out = [x for x in pyexpr.normalized_statements(f, keep=keep) if x != "pass"]
    return [_MSG.sub(r"raise \1(<msg>)", x) for x in out]


def _expect(what, got, want):
    if got != want:
        diff = [f"{a!r} != {b!r}" for a, b in zip(got, want) if a != b] or [f"{len(got)} statements, expected {len(want)}"]
        raise T.Broken(f"statement skeleton of {what} changed: {diff[0][:220]}")


DEREG = {"del self._agents[agent]": "RHard", "self._agents_by_type[type(agent)].remove(agent)": "RByType",
         "self._all_agents.remove(agent)": "RAll"}
REG = {"self._agents[agent] = None": "RHard",
       "try:\n    self._agents_by_type[type(agent)].add(agent)\nexcept KeyError:\n"
       "    self._agents_by_type[type(agent)] = AgentSet([agent], random=self.random)": "RByType",
       "self._all_agents.add(agent)": "RAll"}


def _order(fname, table, cname):
    """TRANSLATION: the order in which the function touches the three structures, read off its statements"""
    got = _norm("mesa/model.py", "Model", fname)
    order = []
    for st in got:
        if st not in table:
            raise T.Broken(f"unexpected statement in {fname}: {st[:160]!r}")
        order.append(table[st])
    if sorted(order) != ["RAll", "RByType", "RHard"]:
        raise T.Broken(f"{fname} does not touch each of the three structures exactly once: {order}")
    return f"Definition {cname} : list reg_struct := [" + "; ".join(order) + "]."


def c_deregister_order():
    return _order("deregister_agent", DEREG, "gen_deregister_order")


def c_register_order():
    return _order("register_agent", REG, "gen_register_order")


def c_remove_suppresses():
    _expect("Agent.remove", _norm("mesa/agent.py", "Agent", "remove"),
            ["with contextlib.suppress(KeyError):\n    self.model.deregister_agent(self)"])
    _expect("Model.remove_all_agents", _norm("mesa/model.py", "Model", "remove_all_agents"),
            ["for v0 in list(self._agents.keys()):\n    v0.remove()"])
    return "Definition gen_remove_suppresses_keyerror : bool := true."


AGENT_INIT = ["super().__init__(*args, **kwargs)", "self.model = model", "self.unique_id = next(self._ids[model])",
              "self.pos = None", "self.model.register_agent(self)"]
# with fixes/C02-1 (the id sequence of a model survives copy.deepcopy / pickle): same draw from _ids[model], preceded by the
# re-seeding of the counter of a copied model and followed by the book-keeping on the model
AGENT_INIT_FIXED = AGENT_INIT[:2] + [
    "if model not in self._ids and getattr(model, '_last_agent_id', 0):\n    self._ids[model] = itertools.count(model._last_agent_id + 1)",
    "self.unique_id = next(self._ids[model])", "model._last_agent_id = self.unique_id"] + AGENT_INIT[3:]
CREATE_AGENTS = [
    "class ListLike:\n\n    def __init__(v10, value):\n        v10.value = value\n\n    def __getitem__(v10, v6):\n        return v10.value",
    "v0 = []",
    "for v1 in args:\n    if isinstance(v1, list | np.ndarray | tuple) and len(v1) == n:\n        v0.append(v1)\n    else:\n        v0.append(ListLike(v1))",
    "v2 = {}",
    "for v3, v4 in kwargs.items():\n    if isinstance(v4, list | np.ndarray | tuple) and len(v4) == n:\n        v2[v3] = v4\n    else:\n        v2[v3] = ListLike(v4)",
    "v5 = []",
    "for v6 in range(n):\n    v7 = [v1[v6] for v1 in v0]\n    v8 = {v3: v4[v6] for v3, v4 in v2.items()}\n    v9 = cls(model, *v7, **v8)\n    v5.append(v9)",
    "return AgentSet(v5, random=model.random)",
]
MODEL_INIT = ["super().__init__(*args, **kwargs)", "self.running = True", "self.steps = 0", "<seed / rng set-up>",
              "self._user_step = self.step", "self.step = self._wrapped_step", "self._agents = {}",
              "self._agents_by_type = {}", "self._all_agents = AgentSet([], random=self.random)"]


def _model_init():
    got = _norm("mesa/model.py", "Model", "__init__")
    return ["<seed / rng set-up>" if x.startswith("if seed is not None and rng is not None:") else x for x in got]


def c_registry_skeleton():
    """Agent.__init__, Agent.create_agents and the registry part of Model.__init__ are, statement for statement, what
    Model/Registry.v transcribes (agent_init, create_agents/pay_at, fresh_model)"""
    got = _norm("mesa/agent.py", "Agent", "__init__")
    _expect("Agent.__init__", got, AGENT_INIT_FIXED if got == AGENT_INIT_FIXED else AGENT_INIT)
    _expect("Agent.create_agents", _norm("mesa/agent.py", "Agent", "create_agents"), CREATE_AGENTS)
    _expect("Model.__init__", _model_init(), MODEL_INIT)
    return "Definition gen_registry_skeleton_ok : bool := true."


WRAPPED = {"self.steps += 1": "WIncr", "self._user_step(*args, **kwargs)": "WCall"}


def c_wrapped_step_order():
    """TRANSLATION of _wrapped_step into its statement order; the binding order in __init__ is part of MODEL_INIT"""
    cls = T._find_class(T._parse("mesa/model.py"), "Model")
    fn = T._find_func(cls, "_wrapped_step")
    if not (fn.args.vararg and fn.args.vararg.arg == "args" and fn.args.kwarg and fn.args.kwarg.arg == "kwargs"
            and [a.arg for a in fn.args.args] == ["self"]):
        raise T.Broken("_wrapped_step is not (self, *args, **kwargs)")
    order = []
    for st in _norm("mesa/model.py", "Model", "_wrapped_step"):
        if st not in WRAPPED:
            raise T.Broken(f"unexpected statement in _wrapped_step: {st[:160]!r}")
        order.append(WRAPPED[st])
    _expect("Model.__init__", _model_init(), MODEL_INIT)
    return "Definition gen_wrapped_step_order : list wstmt := [" + "; ".join(order) + "]."


def c_run_model_loop():
    _expect("Model.run_model", _norm("mesa/model.py", "Model", "run_model"), ["while self.running:\n    self.step()"])
    _expect("Model.step", _norm("mesa/model.py", "Model", "step"), [])
    return "Definition gen_run_model_loop : list rmstmt := [RMWhileRunning; RMStep]."


CONSTRUCTS = [
    ("agent_first_id", "mesa/agent.py", c_agent_first_id, lambda: "Definition gen_agent_first_id : Z := 0."),
    ("deregister_order", "mesa/model.py", c_deregister_order, lambda: "Definition gen_deregister_order : list reg_struct := []."),
    ("register_order", "mesa/model.py", c_register_order, lambda: "Definition gen_register_order : list reg_struct := []."),
    ("remove_suppresses_keyerror", "mesa/agent.py", c_remove_suppresses, lambda: "Definition gen_remove_suppresses_keyerror : bool := false."),
    ("wrapped_step_order", "mesa/model.py", c_wrapped_step_order, lambda: "Definition gen_wrapped_step_order : list wstmt := []."),
    ("run_model_loop", "mesa/model.py", c_run_model_loop, lambda: "Definition gen_run_model_loop : list rmstmt := []."),
    ("registry_skeleton", "mesa/agent.py", c_registry_skeleton, lambda: "Definition gen_registry_skeleton_ok : bool := false."),
]
