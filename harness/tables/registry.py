"""T1 extractors for C02 (mesa/agent.py, mesa/model.py registry) and C05 (mesa/model.py step wrapper).
Each construct re-reads the source with `ast` and must have exactly the expected shape (fail closed).
The Gallina models hard-code the same facts; Properties/C02.v and C05.v prove `generated = hard-coded`,
so a change of the source shape breaks a theorem instead of passing silently."""
import ast

import translate as T

HEADER = """Inductive reg_struct := RHard | RByType | RAll.
Inductive wstmt := WIncr | WCall.
Inductive rmstmt := RMWhileRunning | RMStep."""


def _is_self_attr(node, name):
    return (isinstance(node, ast.Attribute) and node.attr == name and isinstance(node.value, ast.Name)
            and node.value.id == "self")


def _is_logger_call(stmt):
    return (isinstance(stmt, ast.Expr) and isinstance(stmt.value, ast.Call) and isinstance(stmt.value.func, ast.Attribute)
            and isinstance(stmt.value.func.value, ast.Name) and stmt.value.func.value.id == "_mesa_logger")


def _body(fn):
    """statements of a function without the docstring, comments and logger calls"""
    out = []
    for s in fn.body:
        if isinstance(s, ast.Expr) and isinstance(s.value, ast.Constant) and isinstance(s.value.value, str):
            continue
        if _is_logger_call(s):
            continue
        out.append(s)
    return out


def c_agent_first_id():
    cls = T._find_class(T._parse("mesa/agent.py"), "Agent")
    v = T._one_assignment(cls, "_ids")
    # defaultdict(functools.partial(itertools.count, <int>))
    ok = (isinstance(v, ast.Call) and isinstance(v.func, ast.Name) and v.func.id == "defaultdict" and len(v.args) == 1
          and not v.keywords)
    if ok:
        p = v.args[0]
        ok = (isinstance(p, ast.Call) and isinstance(p.func, ast.Attribute) and p.func.attr == "partial" and len(p.args) == 2
              and not p.keywords and isinstance(p.args[0], ast.Attribute) and p.args[0].attr == "count"
              and isinstance(p.args[0].value, ast.Name) and p.args[0].value.id == "itertools"
              and isinstance(p.args[1], ast.Constant) and type(p.args[1].value) is int)
    if not ok:
        raise T.Broken("Agent._ids is not defaultdict(functools.partial(itertools.count, <int>))")
    init = T._find_func(cls, "__init__")
    # self.unique_id = next(self._ids[model]) must be there, before self.model.register_agent(self)
    seen_id = False
    for s in init.body:
        tgt = s.target if isinstance(s, ast.AnnAssign) else (s.targets[0] if isinstance(s, ast.Assign) and len(s.targets) == 1 else None)
        if tgt is not None and _is_self_attr(tgt, "unique_id"):
            val = s.value
            if not (isinstance(val, ast.Call) and isinstance(val.func, ast.Name) and val.func.id == "next" and len(val.args) == 1
                    and isinstance(val.args[0], ast.Subscript) and _is_self_attr(val.args[0].value, "_ids")
                    and isinstance(val.args[0].slice, ast.Name) and val.args[0].slice.id == "model"):
                raise T.Broken("unique_id is not next(self._ids[model])")
            seen_id = True
        if (isinstance(s, ast.Expr) and isinstance(s.value, ast.Call) and isinstance(s.value.func, ast.Attribute)
                and s.value.func.attr == "register_agent" and not seen_id):
            raise T.Broken("register_agent is called before unique_id is drawn")
    if not seen_id:
        raise T.Broken("no assignment to self.unique_id in Agent.__init__")
    n = v.args[0].args[1].value
    return f"Definition gen_agent_first_id : Z := {T._z(n)}."


def _struct_of_stmt(s, verb):
    """which registry structure a statement of register_agent / deregister_agent touches"""
    if verb == "del":
        if (isinstance(s, ast.Delete) and len(s.targets) == 1 and isinstance(s.targets[0], ast.Subscript)
                and _is_self_attr(s.targets[0].value, "_agents")):
            return "RHard"
    else:
        if (isinstance(s, ast.Assign) and len(s.targets) == 1 and isinstance(s.targets[0], ast.Subscript)
                and _is_self_attr(s.targets[0].value, "_agents")):
            return "RHard"
    if isinstance(s, ast.Expr) and isinstance(s.value, ast.Call) and isinstance(s.value.func, ast.Attribute):
        f = s.value.func
        want = "remove" if verb == "del" else "add"
        if f.attr == want and _is_self_attr(f.value, "_all_agents"):
            return "RAll"
        if (f.attr == want and isinstance(f.value, ast.Subscript) and _is_self_attr(f.value.value, "_agents_by_type")):
            sl = f.value.slice
            if not (isinstance(sl, ast.Call) and isinstance(sl.func, ast.Name) and sl.func.id == "type" and len(sl.args) == 1):
                raise T.Broken("agents_by_type is not indexed by type(agent)")
            return "RByType"
    if verb == "add" and isinstance(s, ast.Try):
        # try: self._agents_by_type[type(agent)].add(agent)  except KeyError: self._agents_by_type[type(agent)] = AgentSet([agent], ...)
        if len(s.body) == 1 and _struct_of_stmt(s.body[0], "add") == "RByType" and len(s.handlers) == 1 and not s.orelse and not s.finalbody:
            h = s.handlers[0]
            if isinstance(h.type, ast.Name) and h.type.id == "KeyError" and len(h.body) == 1 and isinstance(h.body[0], ast.Assign):
                a = h.body[0]
                t = a.targets[0]
                if (isinstance(t, ast.Subscript) and _is_self_attr(t.value, "_agents_by_type") and isinstance(a.value, ast.Call)
                        and isinstance(a.value.func, ast.Name) and a.value.func.id == "AgentSet" and a.value.args
                        and isinstance(a.value.args[0], ast.List) and len(a.value.args[0].elts) == 1
                        and isinstance(a.value.args[0].elts[0], ast.Name) and a.value.args[0].elts[0].id == "agent"):
                    return "RByType"
    raise T.Broken(f"unexpected statement at line {getattr(s, 'lineno', '?')}")


def _order(fname, verb, cname):
    cls = T._find_class(T._parse("mesa/model.py"), "Model")
    fn = T._find_func(cls, fname)
    order = [_struct_of_stmt(s, verb) for s in _body(fn)]
    if sorted(order) != ["RAll", "RByType", "RHard"]:
        raise T.Broken(f"{fname} does not touch each of the three structures exactly once: {order}")
    return f"Definition {cname} : list reg_struct := [" + "; ".join(order) + "]."


def c_deregister_order():
    return _order("deregister_agent", "del", "gen_deregister_order")


def c_register_order():
    return _order("register_agent", "add", "gen_register_order")


def c_remove_suppresses():
    """Agent.remove = `with contextlib.suppress(KeyError): self.model.deregister_agent(self)` and
    remove_all_agents iterates over list(self._agents.keys()) calling agent.remove()"""
    cls = T._find_class(T._parse("mesa/agent.py"), "Agent")
    b = _body(T._find_func(cls, "remove"))
    ok = len(b) == 1 and isinstance(b[0], ast.With) and len(b[0].items) == 1
    if ok:
        ce = b[0].items[0].context_expr
        ok = (isinstance(ce, ast.Call) and isinstance(ce.func, ast.Attribute) and ce.func.attr == "suppress" and len(ce.args) == 1
              and isinstance(ce.args[0], ast.Name) and ce.args[0].id == "KeyError" and len(b[0].body) == 1)
    if ok:
        s = b[0].body[0]
        ok = (isinstance(s, ast.Expr) and isinstance(s.value, ast.Call) and isinstance(s.value.func, ast.Attribute)
              and s.value.func.attr == "deregister_agent" and _is_self_attr(s.value.func.value, "model"))
    if not ok:
        raise T.Broken("Agent.remove is not `with contextlib.suppress(KeyError): self.model.deregister_agent(self)`")
    mcls = T._find_class(T._parse("mesa/model.py"), "Model")
    b = _body(T._find_func(mcls, "remove_all_agents"))
    ok = len(b) == 1 and isinstance(b[0], ast.For) and not b[0].orelse
    if ok:
        it = b[0].iter
        ok = (isinstance(it, ast.Call) and isinstance(it.func, ast.Name) and it.func.id == "list" and len(it.args) == 1
              and isinstance(it.args[0], ast.Call) and isinstance(it.args[0].func, ast.Attribute) and it.args[0].func.attr == "keys"
              and _is_self_attr(it.args[0].func.value, "_agents") and len(b[0].body) == 1)
    if ok:
        s = b[0].body[0]
        ok = (isinstance(s, ast.Expr) and isinstance(s.value, ast.Call) and isinstance(s.value.func, ast.Attribute)
              and s.value.func.attr == "remove" and not s.value.args)
    if not ok:
        raise T.Broken("remove_all_agents is not `for agent in list(self._agents.keys()): agent.remove()`")
    return "Definition gen_remove_suppresses_keyerror : bool := true."


def c_wrapped_step_order():
    cls = T._find_class(T._parse("mesa/model.py"), "Model")
    fn = T._find_func(cls, "_wrapped_step")
    if not (fn.args.vararg and fn.args.vararg.arg == "args" and fn.args.kwarg and fn.args.kwarg.arg == "kwargs"
            and [a.arg for a in fn.args.args] == ["self"]):
        raise T.Broken("_wrapped_step is not (self, *args, **kwargs)")
    order = []
    for s in _body(fn):
        if (isinstance(s, ast.AugAssign) and _is_self_attr(s.target, "steps") and isinstance(s.op, ast.Add)
                and isinstance(s.value, ast.Constant) and s.value.value == 1 and type(s.value.value) is int):
            order.append("WIncr")
        elif (isinstance(s, ast.Expr) and isinstance(s.value, ast.Call) and _is_self_attr(s.value.func, "_user_step")
              and len(s.value.args) == 1 and isinstance(s.value.args[0], ast.Starred) and isinstance(s.value.args[0].value, ast.Name)
              and s.value.args[0].value.id == "args" and len(s.value.keywords) == 1 and s.value.keywords[0].arg is None
              and isinstance(s.value.keywords[0].value, ast.Name) and s.value.keywords[0].value.id == "kwargs"):
            order.append("WCall")
        else:
            raise T.Broken(f"unexpected statement in _wrapped_step at line {s.lineno}")
    # __init__ must bind _user_step to self.step and then shadow step on the instance, in this order
    init = T._find_func(cls, "__init__")
    pos = {}
    for i, s in enumerate(init.body):
        if isinstance(s, ast.Assign) and len(s.targets) == 1:
            if _is_self_attr(s.targets[0], "_user_step") and _is_self_attr(s.value, "step"):
                pos["bind"] = i
            if _is_self_attr(s.targets[0], "step") and _is_self_attr(s.value, "_wrapped_step"):
                pos["shadow"] = i
    if not ("bind" in pos and "shadow" in pos and pos["bind"] < pos["shadow"]):
        raise T.Broken("__init__ does not do `self._user_step = self.step; self.step = self._wrapped_step`")
    return "Definition gen_wrapped_step_order : list wstmt := [" + "; ".join(order) + "]."


def c_run_model_loop():
    cls = T._find_class(T._parse("mesa/model.py"), "Model")
    b = _body(T._find_func(cls, "run_model"))
    ok = len(b) == 1 and isinstance(b[0], ast.While) and _is_self_attr(b[0].test, "running") and not b[0].orelse and len(b[0].body) == 1
    if ok:
        s = b[0].body[0]
        ok = (isinstance(s, ast.Expr) and isinstance(s.value, ast.Call) and _is_self_attr(s.value.func, "step")
              and not s.value.args and not s.value.keywords)
    if not ok:
        raise T.Broken("run_model is not `while self.running: self.step()`")
    st = _body(T._find_func(cls, "step"))
    if st and not all(isinstance(x, ast.Pass) for x in st):
        raise T.Broken("Model.step is not empty")
    return "Definition gen_run_model_loop : list rmstmt := [RMWhileRunning; RMStep]."


CONSTRUCTS = [
    ("agent_first_id", "mesa/agent.py", c_agent_first_id, lambda: "Definition gen_agent_first_id : Z := 0."),
    ("deregister_order", "mesa/model.py", c_deregister_order, lambda: "Definition gen_deregister_order : list reg_struct := []."),
    ("register_order", "mesa/model.py", c_register_order, lambda: "Definition gen_register_order : list reg_struct := []."),
    ("remove_suppresses_keyerror", "mesa/agent.py", c_remove_suppresses, lambda: "Definition gen_remove_suppresses_keyerror : bool := false."),
    ("wrapped_step_order", "mesa/model.py", c_wrapped_step_order, lambda: "Definition gen_wrapped_step_order : list wstmt := []."),
    ("run_model_loop", "mesa/model.py", c_run_model_loop, lambda: "Definition gen_run_model_loop : list rmstmt := []."),
]
