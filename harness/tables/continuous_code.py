"""T1 (code level) for the two continuous spaces: the bounds tests, torus corrections, distance / heading /
difference-vector formulas, the range-query conditions, the growth rule, the re-indexing expression and the
compaction slice bounds and the argpartition index are TRANSLATED from the working tree into executable Gallina
(harness/pyexpr.py) on every run; the remaining glue statements (dictionaries, object attributes, exceptions,
NumPy array plumbing) are checked verbatim as statement skeletons.  Proofs/ContBridge.v proves that the
translated definitions are the functions the hand-written models (Model/ContGeom.v, ContLegacy.v, ContExp.v) use.

Reading of the NumPy code ("the same expression shape over Z"): every coordinate is a multiple of 1/16 held as
a scaled integer; a vectorised expression is read PER AXIS (np.abs -> Z.abs, np.minimum -> Z.min, np.sign ->
Z.sgn, np.mod / % -> mod, X[:, 0] / X[i] / X[mask] -> the coordinate of that axis, `&` / `~` on masks -> && /
negb, the masked two-way assignment  out = zeros; out[m] = a[m]; out[~m] = b[~m]  ->  if m then a else b);
sqrt is read as "the squared quantity" (distances are compared squared in the models)."""
import ast
import copy
from fractions import Fraction

import pyexpr
import translate as T

LEG = "mesa/space.py"
EXP = "mesa/experimental/continuous_space/continuous_space.py"
AGT = "mesa/experimental/continuous_space/continuous_space_agents.py"
HEADER = ""


class B(T.Broken):
    pass


def _cls(path, name):
    return T._find_class(T._parse(path), name)


def _fn(path, cls, name, params=None, last=True):
    c = _cls(path, cls)
    fs = [n for n in c.body if isinstance(n, ast.FunctionDef) and n.name == name]
    if not fs:
        raise T.Broken(f"{cls}.{name} not found")
    f = fs[-1] if last else fs[0]
    if params is not None and [a.arg for a in f.args.args] != params:
        raise T.Broken(f"unexpected parameters of {cls}.{name}: {[a.arg for a in f.args.args]}")
    return f


def _stmts(fn):
    return [s for s in fn.body
            if not (isinstance(s, ast.Expr) and isinstance(s.value, ast.Constant) and isinstance(s.value.value, str))]


# ------------------------------------------------------------------ the per-axis reading of NumPy code
class Axis(ast.NodeTransformer):
    """rewrites a (copy of a) statement / expression into the scalar subset pyexpr understands"""

    IDENT = {"np.array", "np.asanyarray", "np.asarray", "bool", "tuple"}

    def __init__(self, vec_names=(), sqrt_is_square=False):
        self.vec = set(vec_names)
        self.sqrt = sqrt_is_square

    def visit_Attribute(self, n):
        self.generic_visit(n)
        # self.space.X -> self.X   (the agent reads its space)
        if isinstance(n.value, ast.Attribute) and ast.unparse(n.value) == "self.space":
            return ast.Attribute(value=ast.Name(id="self", ctx=ast.Load()), attr=n.attr, ctx=n.ctx)
        return n

    def visit_Subscript(self, n):
        src = ast.unparse(n)
        if src == "self.dimensions[:, 0]":
            return ast.Name(id="lo", ctx=ast.Load())
        if src == "self.dimensions[:, 1]":
            return ast.Name(id="hi", ctx=ast.Load())
        self.generic_visit(n)
        if isinstance(n.value, ast.Name) and n.value.id in self.vec:
            return n.value                      # X[i], X[:, i], X[mask] : the coordinate of the axis read
        return n

    def visit_Call(self, n):
        name = ast.unparse(n.func)
        if name in ("tuple",) and len(n.args) == 1 and isinstance(n.args[0], ast.GeneratorExp):
            g = n.args[0]
            if len(g.generators) == 1 and ast.unparse(g.generators[0].iter) == "range(2)" and not g.generators[0].ifs:
                return self.visit(g.elt)         # tuple(f(v[i]) for i in range(2)) : f(v) on every axis
        self.generic_visit(n)
        if name in self.IDENT and len(n.args) == 1 and not n.keywords:
            return n.args[0]
        if isinstance(n.func, ast.Attribute) and n.func.attr == "all" and not n.args:
            return n.func.value                  # (mask).all() : every axis (the model folds && over the axes)
        if name == "np.abs" and len(n.args) == 1:
            return ast.Call(func=ast.Name(id="abs", ctx=ast.Load()), args=n.args, keywords=[])
        if name == "np.minimum" and len(n.args) == 2:
            if n.keywords and not (len(n.keywords) == 1 and n.keywords[0].arg == "out"
                                   and ast.unparse(n.keywords[0].value) == ast.unparse(n.args[0])):
                raise pyexpr.Unsupported("np.minimum with unexpected keywords")
            return ast.Call(func=ast.Name(id="min", ctx=ast.Load()), args=n.args, keywords=[])
        if name == "np.mod" and len(n.args) == 2 and not n.keywords:
            return ast.BinOp(left=n.args[0], op=ast.Mod(), right=n.args[1])
        if name == "np.sign" and len(n.args) == 1:
            return ast.Call(func=ast.Name(id="sign", ctx=ast.Load()), args=n.args, keywords=[])
        if name in ("math.sqrt", "np.sqrt") and len(n.args) == 1 and self.sqrt:
            return n.args[0]                     # squared reading
        return n

    def visit_BinOp(self, n):
        self.generic_visit(n)
        if isinstance(n.op, ast.BitAnd):
            return ast.BoolOp(op=ast.And(), values=[n.left, n.right])
        return n

    def visit_UnaryOp(self, n):
        self.generic_visit(n)
        if isinstance(n.op, ast.Invert):
            return ast.UnaryOp(op=ast.Not(), operand=n.operand)
        return n

    def visit_If(self, n):
        self.generic_visit(n)
        # `if isinstance(..): A else: A'` with A and A' equal after the rewrite (tuple vs ndarray packaging)
        if isinstance(n.test, ast.Call) and ast.unparse(n.test.func) == "isinstance" and n.orelse:
            if [ast.unparse(s) for s in n.body] == [ast.unparse(s) for s in n.orelse]:
                return n.body
            raise pyexpr.Unsupported("isinstance branches differ")
        return n


def _axis(stmts, vec=(), sqrt=False):
    out = []
    for s in copy.deepcopy(list(stmts)):
        r = Axis(vec, sqrt).visit(s)
        out += r if isinstance(r, list) else [r]
    for s in out:
        ast.fix_missing_locations(s)
    return out


def _premask(stmts):
    """replace the masked two-way assignment by a conditional expression (on the original AST)"""
    out = []
    i = 0
    stmts = list(stmts)
    while i < len(stmts):
        s = stmts[i]
        if (isinstance(s, ast.Assign) and isinstance(s.value, ast.Call) and ast.unparse(s.value.func) == "np.zeros"
                and i + 2 < len(stmts)):
            name = ast.unparse(s.targets[0])
            a, b = stmts[i + 1], stmts[i + 2]
            try:
                m = ast.unparse(a.targets[0].slice)
                ok = (ast.unparse(a.targets[0].value) == name and ast.unparse(b.targets[0].value) == name
                      and ast.unparse(b.targets[0].slice) == f"~{m}"
                      and ast.unparse(a.value.slice) == m and ast.unparse(b.value.slice) == f"~{m}"
                      and ast.unparse(s.value.args[0]) == ast.unparse(a.value.value) + ".shape")
            except AttributeError:
                ok = False
            if not ok:
                raise pyexpr.Unsupported("np.zeros(...) not followed by the masked two-way assignment")
            new = ast.Assign(targets=[ast.Name(id=name, ctx=ast.Store())],
                             value=ast.IfExp(test=ast.Name(id=m, ctx=ast.Load()), body=a.value.value, orelse=b.value.value))
            out.append(new)
            i += 3
            continue
        if isinstance(s, ast.If):
            s = copy.copy(s)
            s.body = _premask(s.body)
            s.orelse = _premask(s.orelse)
        out.append(s)
        i += 1
    return out


def _sign(args):
    if len(args) != 1 or args[0][1] != "Z":
        raise pyexpr.Unsupported("sign")
    return f"(Z.sgn {args[0][0]})", "Z"


def _tr(bools=(), attrs=None, calls=None, tuples=()):
    calls = dict(calls or {})
    calls.setdefault("sign", _sign)
    return pyexpr.Tr(bool_names=list(bools), attr_map=attrs or {}, call_map=calls, tuple_names=list(tuples))


def _guard(f):
    def g():
        try:
            return f()
        except pyexpr.Unsupported as e:
            raise T.Broken(f"outside the translated subset: {e}") from None
    g.__doc__ = f.__doc__
    return g


# ------------------------------------------------------------------ legacy ContinuousSpace
def _legacy_attrs():
    """width / height / size are read off __init__: self.width = x_max - x_min etc."""
    fn = _fn(LEG, "ContinuousSpace", "__init__", ["self", "x_max", "y_max", "torus", "x_min", "y_min"])
    want = {"x_min": "x_min", "x_max": "x_max", "y_min": "y_min", "y_max": "y_max", "torus": "torus"}
    got = {}
    for s in _stmts(fn):
        if isinstance(s, ast.Assign) and len(s.targets) == 1 and ast.unparse(s.targets[0]).startswith("self."):
            got[s.targets[0].attr] = s.value
    for k, v in want.items():
        if k not in got or ast.unparse(got[k]) != v:
            raise T.Broken(f"__init__ does not store {k} as given")
    tr = _tr(bools=["torus"])
    attrs = dict(want)
    for k in ("width", "height"):
        if k not in got:
            raise T.Broken(f"__init__ does not define self.{k}")
        attrs[k] = tr.expr(got[k])[0]
    if ast.unparse(got.get("size", ast.Constant(value=0))) != "np.array((self.width, self.height))":
        raise T.Broken("self.size is not np.array((self.width, self.height))")
    return attrs


LEG_SIG = "(x_min x_max y_min y_max : Z)"


@_guard
def c_leg_oob():
    fn = _fn(LEG, "ContinuousSpace", "out_of_bounds", ["self", "pos"])
    body = _tr(bools=["torus"], attrs=_legacy_attrs(), tuples=["pos"]).body(_stmts(fn), "bool")
    return f"Definition gen_cs_out_of_bounds {LEG_SIG} (pos : Z * Z) : bool :=\n  {body}."


@_guard
def c_leg_torus_adj():
    fn = _fn(LEG, "ContinuousSpace", "torus_adj", ["self", "pos"])

    def oob(args):
        if len(args) != 1 or args[0][1] != "tuple":
            raise pyexpr.Unsupported("out_of_bounds argument")
        return f"(gen_cs_out_of_bounds x_min x_max y_min y_max {args[0][0]})", "bool"
    tr = _tr(bools=["torus"], attrs=_legacy_attrs(), tuples=["pos"], calls={"self.out_of_bounds": oob})
    body = tr.body(_axis(_stmts(fn)), "option tuple")
    return (f"Definition gen_cs_torus_adj {LEG_SIG} (torus : bool) (pos : Z * Z) : option (Z * Z) :=\n  {body}.")


@_guard
def c_leg_distance():
    fn = _fn(LEG, "ContinuousSpace", "get_distance", ["self", "pos_1", "pos_2"])
    tr = _tr(bools=["torus"], attrs=_legacy_attrs(), tuples=["pos_1", "pos_2"])
    body = tr.body(_axis(_stmts(fn), sqrt=True), "Z")
    return (f"Definition gen_cs_distance2 {LEG_SIG} (torus : bool) (pos_1 pos_2 : Z * Z) : Z :=\n  {body}.")


@_guard
def c_leg_heading():
    """per axis: one, two the coordinates of pos_1, pos_2, size the extent of the axis"""
    fn = _fn(LEG, "ContinuousSpace", "get_heading", ["self", "pos_1", "pos_2"])
    helpers = [n for n in ast.walk(fn) if isinstance(n, ast.FunctionDef) and n is not fn]
    if len(helpers) != 1 or helpers[0].name != "get_min_abs" or [a.arg for a in helpers[0].args.args] != ["x", "y"]:
        raise T.Broken("expected the nested helper get_min_abs(x, y)")
    hbody = _tr().body(_stmts(helpers[0]), "Z")

    def gma(args):
        if len(args) != 2 or any(k != "Z" for _, k in args):
            raise pyexpr.Unsupported("get_min_abs arguments")
        return f"(let x := {args[0][0]} in let y := {args[1][0]} in {hbody})", "Z"

    def strip(stmts):
        out = []
        for s in stmts:
            if isinstance(s, ast.FunctionDef):
                continue
            if isinstance(s, ast.If):
                s = copy.copy(s)
                s.body = strip(s.body)
                s.orelse = strip(s.orelse)
            out.append(s)
        return out
    stmts = _axis(strip(_stmts(fn)), vec=["heading", "inverse_heading"])
    tr = _tr(bools=["torus"], attrs={"size": "size", "torus": "torus"}, calls={"get_min_abs": gma})
    body = tr.body(stmts, "Z")
    return f"Definition gen_cs_heading_axis (size : Z) (torus : bool) (pos_1 pos_2 : Z) : Z :=\n  {body}."


def _nbr_parts():
    fn = _fn(LEG, "ContinuousSpace", "get_neighbors", ["self", "pos", "radius", "include_center"])
    st = _stmts(fn)
    find = lambda pred: [s for s in st if pred(s)]  # noqa: E731
    deltas = find(lambda s: isinstance(s, ast.Assign) and ast.unparse(s.targets[0]) == "deltas")
    tor = find(lambda s: isinstance(s, ast.If) and ast.unparse(s.test) == "self.torus")
    dists = find(lambda s: isinstance(s, ast.Assign) and ast.unparse(s.targets[0]) == "dists")
    where = find(lambda s: isinstance(s, ast.Assign) and ast.unparse(s.targets[0]) == "(idxs,)")
    nb = find(lambda s: isinstance(s, ast.Assign) and ast.unparse(s.targets[0]) == "neighbors")
    if not (len(deltas) == 1 and len(tor) == 1 and len(dists) == 1 and len(where) == 1 and len(nb) == 1):
        raise T.Broken("get_neighbors: expected deltas / if self.torus / dists / (idxs,) / neighbors statements")
    return fn, st, deltas[0], tor[0], dists[0], where[0], nb[0]


@_guard
def c_leg_nbr_delta():
    """deltas = |cached point - query point| per axis, on a torus min(deltas, size - deltas)"""
    fn, st, deltas, tor, dists, where, nb = _nbr_parts()
    ret = ast.Return(value=ast.Name(id="deltas", ctx=ast.Load()))
    stmts = _axis([deltas, tor, ret])
    # self._agent_points -> the agent's coordinate, pos -> the query coordinate
    tr = _tr(bools=["torus"], attrs={"size": "size", "torus": "torus", "_agent_points": "agent_point"})
    body = tr.body(stmts, "Z")
    return f"Definition gen_cs_nbr_delta (size : Z) (torus : bool) (agent_point pos : Z) : Z :=\n  {body}."


@_guard
def c_leg_nbr_dist2():
    """dists = deltas[:, 0] ** 2 + deltas[:, 1] ** 2  with the two axis readings d0, d1"""
    fn, st, deltas, tor, dists, where, nb = _nbr_parts()

    class Two(ast.NodeTransformer):
        def visit_Subscript(self, n):
            src = ast.unparse(n)
            if src == "deltas[:, 0]":
                return ast.Name(id="d0", ctx=ast.Load())
            if src == "deltas[:, 1]":
                return ast.Name(id="d1", ctx=ast.Load())
            raise pyexpr.Unsupported("unexpected subscript " + src)
    e = Two().visit(copy.deepcopy(dists.value))
    t, k = _tr().expr(e)
    if k != "Z":
        raise pyexpr.Unsupported("dists is not a number")
    return f"Definition gen_cs_nbr_dist2 (d0 d1 : Z) : Z :=\n  {t}."


@_guard
def c_leg_nbr_select():
    """np.where(dists <= radius ** 2) and the comprehension filter  include_center or dists[x] > 0"""
    fn, st, deltas, tor, dists, where, nb = _nbr_parts()
    w = where.value
    if not (isinstance(w, ast.Call) and ast.unparse(w.func) == "np.where" and len(w.args) == 1):
        raise T.Broken("(idxs,) is not np.where(<condition>)")
    lc = nb.value
    if not (isinstance(lc, ast.ListComp) and ast.unparse(lc.elt) == "self._index_to_agent[x]" and len(lc.generators) == 1
            and ast.unparse(lc.generators[0].target) == "x" and ast.unparse(lc.generators[0].iter) == "idxs"
            and len(lc.generators[0].ifs) == 1):
        raise T.Broken("neighbors is not [self._index_to_agent[x] for x in idxs if <condition>]")
    tr = _tr(bools=["include_center"])
    c1 = tr.bexpr(_axis([ast.Expr(value=w.args[0])], vec=["dists"])[0].value)
    c2 = tr.bexpr(_axis([ast.Expr(value=lc.generators[0].ifs[0])], vec=["dists"])[0].value)
    return (f"Definition gen_cs_nbr_select (dists radius : Z) (include_center : bool) : bool :=\n  ({c1} && {c2}).")


def _skel(name, fn, want, mapper=None):
    got = [ast.unparse(s) for s in _stmts(fn)]
    if mapper:
        got = [mapper(g) for g in got]
    if got != want:
        diff = [f"{a!r} != {b!r}" for a, b in zip(got, want) if a != b] or [f"{len(got)} statements, expected {len(want)}"]
        raise T.Broken(f"statement skeleton of {name} changed: {diff[0][:220]}")


def c_leg_skeleton():
    """the glue of the legacy class: dictionaries, agent.pos, cache invalidation - statement for statement what
    Model/ContLegacy.v transcribes (place_agent as repaired: validate first)"""
    C = "ContinuousSpace"
    _skel("place_agent", _fn(LEG, C, "place_agent", ["self", "agent", "pos"]), [
        "pos = self.torus_adj(pos)", "self._invalidate_agent_cache()", "self._agent_to_index[agent] = None", "agent.pos = pos"])
    _skel("move_agent", _fn(LEG, C, "move_agent", ["self", "agent", "pos"]), [
        "pos = self.torus_adj(pos)", "agent.pos = pos",
        "if self._agent_points is not None:\n    idx = self._agent_to_index[agent]\n    self._agent_points[idx] = pos"])
    _skel("remove_agent", _fn(LEG, C, "remove_agent", ["self", "agent"]), [
        "if agent not in self._agent_to_index:\n    raise Exception('Agent does not exist in the space')",
        "del self._agent_to_index[agent]", "self._invalidate_agent_cache()", "agent.pos = None"])
    _skel("_invalidate_agent_cache", _fn(LEG, C, "_invalidate_agent_cache", ["self"]), [
        "self._agent_points = None", "self._index_to_agent = {}"])
    _skel("_build_agent_cache", _fn(LEG, C, "_build_agent_cache", ["self"]), [
        "self._index_to_agent = {}",
        "for idx, agent in enumerate(self._agent_to_index):\n    self._agent_to_index[agent] = idx\n    self._index_to_agent[idx] = agent",
        "self._agent_points = np.array([agent.pos for agent in self._agent_to_index], dtype=float)"])
    fn, st, deltas, tor, dists, where, nb = _nbr_parts()
    _skel("get_neighbors", fn, [
        "if not self._agent_to_index:\n    return []",
        "if self._agent_points is None:\n    self._build_agent_cache()",
        "<deltas>", "<torus>", "<dists>", "<where>", "<neighbors>", "return neighbors"],
        mapper=lambda g: {ast.unparse(deltas): "<deltas>", ast.unparse(tor): "<torus>", ast.unparse(dists): "<dists>",
                          ast.unparse(where): "<where>", ast.unparse(nb): "<neighbors>"}.get(g, g))
    return "Definition gen_cs_legacy_skeleton_ok : bool := true."


# ------------------------------------------------------------------ experimental ContinuousSpace
def _exp_attrs():
    fn = _fn(EXP, "ContinuousSpace", "__init__")
    got = {}
    for s in _stmts(fn):
        if isinstance(s, (ast.Assign, ast.AnnAssign)):
            t = s.targets[0] if isinstance(s, ast.Assign) else s.target
            if ast.unparse(t).startswith("self.") and s.value is not None:
                got[t.attr] = ast.unparse(s.value)
    want = {"size": "self.dimensions[:, 1] - self.dimensions[:, 0]", "ndims": "self.dimensions.shape[0]",
            "torus": "torus", "dimensions": "np.asanyarray(dimensions)", "_n_agents": "0", "active_agents": "[]",
            "agent_positions": "self._agent_positions[0:0]", "_agent_to_index": "{}"}
    for k, v in want.items():
        if got.get(k) != v:
            raise T.Broken(f"__init__: self.{k} = {got.get(k)!r}, expected {v!r}")
    return {"size": "(hi - lo)", "torus": "torus"}


@_guard
def c_exp_in_bounds():
    fn = _fn(EXP, "ContinuousSpace", "in_bounds", ["self", "point"])
    _exp_attrs()
    src = ast.unparse(_stmts(fn)[0])
    if ".all()" not in src:
        raise T.Broken("in_bounds does not take .all() over the axes")
    body = _tr().body(_axis(_stmts(fn), vec=["point"]), "bool")
    return f"Definition gen_cs_in_bounds_axis (lo hi point : Z) : bool :=\n  {body}."


@_guard
def c_exp_torus_correct():
    fn = _fn(EXP, "ContinuousSpace", "torus_correct", ["self", "point"])
    body = _tr(attrs=_exp_attrs()).body(_axis(_stmts(fn), vec=["point"]), "Z")
    return f"Definition gen_cs_torus_correct_axis (lo hi point : Z) : Z :=\n  {body}."


def _add_parts():
    fn = _fn(EXP, "ContinuousSpace", "_add_agent", ["self", "agent"])
    ifs = [s for s in _stmts(fn) if isinstance(s, ast.If)]
    if len(ifs) != 1:
        raise T.Broken("_add_agent: expected one `if` (the growth branch)")
    return fn, ifs[0]


@_guard
def c_exp_growth():
    """fraction = 0.2; n = max(int(round(fraction * self._n_agents)), 1): over Z, int(round((p/q) * e)) is
    (2 p e + q) / (2 q) (no half-way case exists for an odd q; checked), the guard is  shape[0] <= index"""
    fn, branch = _add_parts()
    frac = [s for s in branch.body if isinstance(s, ast.Assign) and ast.unparse(s.targets[0]) == "fraction"]
    nst = [s for s in branch.body if isinstance(s, ast.Assign) and ast.unparse(s.targets[0]) == "n"]
    if len(frac) != 1 or len(nst) != 1 or not isinstance(frac[0].value, ast.Constant) or not isinstance(frac[0].value.value, float):
        raise T.Broken("growth branch: expected `fraction = <float>` and `n = ...`")
    fr = Fraction(str(frac[0].value.value))
    if fr.denominator % 2 == 0:
        raise T.Broken("fraction with an even denominator: round() has half-way cases")

    class R(ast.NodeTransformer):
        hits = 0

        def visit_Call(self, n):
            self.generic_visit(n)
            if ast.unparse(n.func) == "int" and len(n.args) == 1 and isinstance(n.args[0], ast.Call) \
                    and ast.unparse(n.args[0].func) == "round" and len(n.args[0].args) == 1:
                m = n.args[0].args[0]
                if isinstance(m, ast.BinOp) and isinstance(m.op, ast.Mult):
                    sides = [m.left, m.right]
                    f = [x for x in sides if ast.unparse(x) == "fraction"]
                    o = [x for x in sides if ast.unparse(x) != "fraction"]
                    if len(f) == 1 and len(o) == 1:
                        R.hits += 1
                        num = ast.BinOp(left=ast.BinOp(left=ast.Constant(value=2 * fr.numerator), op=ast.Mult(), right=o[0]),
                                        op=ast.Add(), right=ast.Constant(value=fr.denominator))
                        return ast.BinOp(left=num, op=ast.FloorDiv(), right=ast.Constant(value=2 * fr.denominator))
            return n
    R.hits = 0
    e = R().visit(copy.deepcopy(nst[0].value))
    ast.fix_missing_locations(e)
    if R.hits != 1:
        raise T.Broken("n is not built from int(round(fraction * <count>))")
    t, k = _tr(attrs={"_n_agents": "n_agents"}).expr(e)
    g = _tr(attrs={}).bexpr(ast.parse(ast.unparse(branch.test).replace("self._agent_positions.shape[0]", "capacity"), mode="eval").body)
    return (f"Definition gen_cs_growth (n_agents : Z) : Z :=\n  {t}.\n"
            f"Definition gen_cs_growth_guard (capacity index : Z) : bool :=\n  {g}.")


def _remove_parts():
    fn = _fn(EXP, "ContinuousSpace", "_remove_agent", ["self", "agent"])
    st = _stmts(fn)
    loops = [s for s in st if isinstance(s, ast.For)]
    copies = [s for s in st if isinstance(s, ast.Assign) and ast.unparse(s.targets[0]).startswith("self._agent_positions[")]
    if len(loops) != 1 or len(copies) != 1:
        raise T.Broken("_remove_agent: expected one for-loop and one slice assignment on _agent_positions")
    return fn, st, loops[0], copies[0]


@_guard
def c_exp_reindex():
    """the loop over active_agents[index:] writes  _agent_to_index[agent] = old_index - 1"""
    fn, st, loop, cp = _remove_parts()
    if ast.unparse(loop.target) != "agent" or ast.unparse(loop.iter).replace("::", ":") != "self.active_agents[index:]":
        raise T.Broken("re-indexing loop is not `for agent in self.active_agents[index:]`")
    body = [ast.unparse(s) for s in loop.body]
    if len(body) != 3 or body[0] != "old_index = self._agent_to_index[agent]" \
            or not body[1].startswith("self._agent_to_index[agent] = ") or not body[2].startswith("self._index_to_agent["):
        raise T.Broken("unexpected re-indexing loop body")
    t, k = _tr().expr(loop.body[1].value)
    t2, k2 = _tr().expr(loop.body[2].targets[0].slice)
    if ast.unparse(loop.body[2].value) != "agent":
        raise T.Broken("_index_to_agent is not updated with the agent")
    return (f"Definition gen_cs_reindex (old_index : Z) : Z :=\n  {t}.\n"
            f"Definition gen_cs_reindex_i2a (old_index : Z) : Z :=\n  {t2}.")


@_guard
def c_exp_compact():
    """self._agent_positions[a : b] = self._agent_positions[c : d]  -> ((a, b), (c, d)) over index, n"""
    fn, st, loop, cp = _remove_parts()
    dst, src = cp.targets[0], cp.value
    if not (isinstance(src, ast.Subscript) and ast.unparse(src.value) == "self._agent_positions"
            and isinstance(dst.slice, ast.Slice) and isinstance(src.slice, ast.Slice)
            and dst.slice.step is None and src.slice.step is None and None not in (dst.slice.lower, dst.slice.upper, src.slice.lower, src.slice.upper)):
        raise T.Broken("compaction is not a plain slice-to-slice copy within _agent_positions")
    tr = _tr(attrs={"_n_agents": "n"})
    parts = [tr.expr(x) for x in (dst.slice.lower, dst.slice.upper, src.slice.lower, src.slice.upper)]
    if any(k != "Z" for _, k in parts):
        raise pyexpr.Unsupported("slice bounds")
    a, b, c, d = (p[0] for p in parts)
    return f"Definition gen_cs_compact (index n : Z) : (Z * Z) * (Z * Z) :=\n  (({a}, {b}), ({c}, {d}))."


@_guard
def c_exp_diff():
    """calculate_difference_vector per axis (position: the agent's coordinate, point: the query coordinate)"""
    fn = _fn(EXP, "ContinuousSpace", "calculate_difference_vector", ["self", "point", "agents"])
    st = _stmts(fn)
    keep = [s for s in st if not (isinstance(s, ast.Assign) and ast.unparse(s.targets[0]) in ("point", "positions"))]
    if len(st) - len(keep) != 2:
        raise T.Broken("expected `point = np.asanyarray(point)` and `positions = ...` before the arithmetic")
    stmts = _axis(_premask(keep), vec=["delta", "inverse_delta", "out"])
    body = _tr(bools=["torus"], attrs=_exp_attrs()).body(stmts, "Z")
    return (f"Definition gen_cs_diff_axis (lo hi : Z) (torus : bool) (positions point : Z) : Z :=\n  {body}.")


def _dist_parts():
    fn = _fn(EXP, "ContinuousSpace", "calculate_distances", ["self", "point", "agents"])
    st = _stmts(fn)
    ifs = [s for s in st if isinstance(s, ast.If) and ast.unparse(s.test) == "self.torus"]
    if len(ifs) != 1 or not ifs[0].orelse:
        raise T.Broken("calculate_distances: expected `if self.torus: ... else: ...`")
    return fn, st, ifs[0]


@_guard
def c_exp_dist():
    """torus branch of calculate_distances per axis: delta = |point - positions|; delta = min(delta, size - delta)"""
    fn, st, branch = _dist_parts()
    ds = [s for s in branch.body if isinstance(s, ast.Assign) and ast.unparse(s.targets[0]) == "delta"]
    if len(ds) != 2 or branch.body[:2] != ds:
        raise T.Broken("torus branch does not start with the two `delta = ...` statements")
    stmts = _axis(ds + [ast.Return(value=ast.Name(id="delta", ctx=ast.Load()))], vec=[])
    body = _tr(attrs=_exp_attrs()).body(stmts, "Z")
    return f"Definition gen_cs_dist_axis (lo hi : Z) (point positions : Z) : Z :=\n  {body}."


@_guard
def c_exp_kth():
    """indices = np.argpartition(dists, k - 1)[:k] -> (kth, how many are kept)"""
    fn = _fn(EXP, "ContinuousSpace", "get_k_nearest_agents", ["self", "point", "k"])
    st = [s for s in _stmts(fn) if isinstance(s, ast.Assign) and ast.unparse(s.targets[0]) == "indices"]
    if len(st) != 1:
        raise T.Broken("expected one `indices = ...`")
    v = st[0].value
    if not (isinstance(v, ast.Subscript) and isinstance(v.slice, ast.Slice) and v.slice.lower is None and v.slice.step is None
            and isinstance(v.value, ast.Call) and ast.unparse(v.value.func) == "np.argpartition"
            and len(v.value.args) == 2 and ast.unparse(v.value.args[0]) == "dists" and not v.value.keywords):
        raise T.Broken("indices is not np.argpartition(dists, <kth>)[:<count>]")
    tr = _tr()
    a, _ = tr.expr(v.value.args[1])
    b, _ = tr.expr(v.slice.upper)
    return f"Definition gen_cs_kth (k : Z) : Z * Z :=\n  ({a}, {b})."


@_guard
def c_exp_radius():
    """logical = distances <= radius   (un-squared: the models compare 0 <= r and d^2 <= r^2)"""
    fn = _fn(EXP, "ContinuousSpace", "get_agents_in_radius", ["self", "point", "radius"])
    st = [s for s in _stmts(fn) if isinstance(s, ast.Assign) and ast.unparse(s.targets[0]) == "logical"]
    if len(st) != 1:
        raise T.Broken("expected one `logical = ...`")
    t = _tr().bexpr(st[0].value)
    return f"Definition gen_cs_in_radius (distances radius : Z) : bool :=\n  {t}."


@_guard
def c_agent_setter():
    """position setter: the guards, with in_bounds(value) and torus_correct(value) as given values; the store is
    checked in the skeleton.  None = ValueError"""
    fs = [n for n in _cls(AGT, "ContinuousSpaceAgent").body if isinstance(n, ast.FunctionDef) and n.name == "position"]
    if len(fs) != 2 or [a.arg for a in fs[1].args.args] != ["self", "value"]:
        raise T.Broken("expected the position property (getter, setter)")
    st = _stmts(fs[1])
    if ast.unparse(st[-1]) != "self.space.agent_positions[self.space._agent_to_index[self]] = value":
        raise T.Broken("the setter does not end with the store through _agent_to_index")
    if ast.unparse(_stmts(fs[0])[0]) != "return self.space.agent_positions[self.space._agent_to_index[self]]" or len(_stmts(fs[0])) != 1:
        raise T.Broken("the getter is not the read through _agent_to_index")
    stmts = _axis(st[:-1] + [ast.Return(value=ast.Name(id="value", ctx=ast.Load()))])

    def inb(args):
        if len(args) != 1 or args[0][0] != "value":
            raise pyexpr.Unsupported("in_bounds argument")
        return "in_bounds_value", "bool"

    def tc(args):
        if len(args) != 1 or args[0][0] != "value":
            raise pyexpr.Unsupported("torus_correct argument")
        return "torus_correct_value", "Z"
    tr = _tr(bools=["torus", "in_bounds_value"], attrs={"torus": "torus"}, calls={"self.in_bounds": inb, "self.torus_correct": tc})
    body = tr.body(stmts, "option Z")
    return ("Definition gen_cs_setter {V : Type} (torus in_bounds_value : bool) (value torus_correct_value : V) : option V :=\n"
            f"  {body}.")


def c_exp_skeleton():
    """the glue of the experimental class, statement for statement what Model/ContExp.v transcribes"""
    C = "ContinuousSpace"
    fn, branch = _add_parts()
    _skel("_add_agent", fn, [
        "index = self._n_agents", "self._n_agents += 1", "<grow>", "self._agent_to_index[agent] = index",
        "self._index_to_agent[index] = agent", "self.active_agents.append(agent)",
        "self.agent_positions = self._agent_positions[0:self._n_agents]", "return index"],
        mapper=lambda g: "<grow>" if g == ast.unparse(branch) else g)
    inner = [ast.unparse(s) for s in branch.body]
    if len(inner) != 3 or inner[2] != ("self._agent_positions = np.vstack([self._agent_positions, "
                                       "np.empty((n, self.dimensions.shape[0]))])"):
        raise T.Broken("growth branch: the array is not extended by vstack with n fresh rows")
    fn, st, loop, cp = _remove_parts()
    _skel("_remove_agent", fn, [
        "index = self._agent_to_index[agent]", "self._agent_to_index.pop(agent, None)", "self._index_to_agent.pop(index, None)",
        "del self.active_agents[index]", "<loop>", "<compact>", "self._n_agents -= 1",
        "self.agent_positions = self._agent_positions[0:self._n_agents]"],
        mapper=lambda g: {ast.unparse(loop): "<loop>", ast.unparse(cp): "<compact>"}.get(g, g))
    fn, st, branch = _dist_parts()
    _skel("calculate_distances", fn, [
        "point = np.asanyarray(point)",
        "if agents is None:\n    positions = self.agent_positions\n    agents = self.active_agents\nelse:\n"
        "    positions = self._agent_positions[[self._agent_to_index[a] for a in agents]]\n    agents = np.asarray(agents)",
        "<metric>", "return (dists, agents)"], mapper=lambda g: "<metric>" if g == ast.unparse(branch) else g)
    rest = [ast.unparse(s) for s in branch.body[2:]]
    if rest != ["dists = delta[:, 0] ** 2", "for i in range(1, self.ndims):\n    dists += delta[:, i] ** 2", "dists = np.sqrt(dists)"]:
        raise T.Broken("torus branch: the squares are not summed over all axes and rooted")
    if [ast.unparse(s) for s in branch.orelse] != ["dists = cdist(point[np.newaxis, :], positions, **kwargs)[0, :]"]:
        raise T.Broken("bounded branch is not scipy cdist of the point against the positions")
    fn = _fn(EXP, C, "calculate_difference_vector", ["self", "point", "agents"])
    pos = [ast.unparse(s) for s in _stmts(fn)[:2]]
    if pos != ["point = np.asanyarray(point)",
               "positions = self.agent_positions if agents is None else self._agent_positions[[self._agent_to_index[a] for a in agents]]"]:
        raise T.Broken("calculate_difference_vector: unexpected selection of the rows")
    _skel("get_agents_in_radius", _fn(EXP, C, "get_agents_in_radius", ["self", "point", "radius"]), [
        "distances, agents = self.calculate_distances(point)", "logical = distances <= radius",
        "agents = list(compress(agents, logical))", "return (agents, distances[logical])"])
    fnk = _fn(EXP, C, "get_k_nearest_agents", ["self", "point", "k"])
    _skel("get_k_nearest_agents", fnk, [
        "dists, agents = self.calculate_distances(point)", "<indices>", "agents = [agents[i] for i in indices]",
        "return (agents, dists[indices])"], mapper=lambda g: "<indices>" if g.startswith("indices = ") else g)
    return "Definition gen_cs_exp_skeleton_ok : bool := true."


def _fb(text):
    return lambda: text


CONSTRUCTS = [
    ("cs_legacy_oob_code", LEG, c_leg_oob, _fb(f"Definition gen_cs_out_of_bounds {LEG_SIG} (pos : Z * Z) : bool := true.")),
    ("cs_legacy_torus_adj_code", LEG, c_leg_torus_adj,
     _fb(f"Definition gen_cs_torus_adj {LEG_SIG} (torus : bool) (pos : Z * Z) : option (Z * Z) := None.")),
    ("cs_legacy_distance_code", LEG, c_leg_distance,
     _fb(f"Definition gen_cs_distance2 {LEG_SIG} (torus : bool) (pos_1 pos_2 : Z * Z) : Z := -1.")),
    ("cs_legacy_heading_code", LEG, c_leg_heading,
     _fb("Definition gen_cs_heading_axis (size : Z) (torus : bool) (pos_1 pos_2 : Z) : Z := 0.")),
    ("cs_legacy_nbr_delta_code", LEG, c_leg_nbr_delta,
     _fb("Definition gen_cs_nbr_delta (size : Z) (torus : bool) (agent_point pos : Z) : Z := -1.")),
    ("cs_legacy_nbr_dist2_code", LEG, c_leg_nbr_dist2, _fb("Definition gen_cs_nbr_dist2 (d0 d1 : Z) : Z := -1.")),
    ("cs_legacy_nbr_select_code", LEG, c_leg_nbr_select,
     _fb("Definition gen_cs_nbr_select (dists radius : Z) (include_center : bool) : bool := false.")),
    ("cs_legacy_skeleton", LEG, c_leg_skeleton, _fb("Definition gen_cs_legacy_skeleton_ok : bool := false.")),
    ("cs_exp_in_bounds_code", EXP, c_exp_in_bounds, _fb("Definition gen_cs_in_bounds_axis (lo hi point : Z) : bool := false.")),
    ("cs_exp_torus_correct_code", EXP, c_exp_torus_correct, _fb("Definition gen_cs_torus_correct_axis (lo hi point : Z) : Z := point.")),
    ("cs_exp_growth_code", EXP, c_exp_growth,
     _fb("Definition gen_cs_growth (n_agents : Z) : Z := 0.\nDefinition gen_cs_growth_guard (capacity index : Z) : bool := false.")),
    ("cs_exp_reindex_code", EXP, c_exp_reindex,
     _fb("Definition gen_cs_reindex (old_index : Z) : Z := old_index.\nDefinition gen_cs_reindex_i2a (old_index : Z) : Z := old_index.")),
    ("cs_exp_compact_code", EXP, c_exp_compact, _fb("Definition gen_cs_compact (index n : Z) : (Z * Z) * (Z * Z) := ((0, 0), (0, 0)).")),
    ("cs_exp_diff_code", EXP, c_exp_diff,
     _fb("Definition gen_cs_diff_axis (lo hi : Z) (torus : bool) (positions point : Z) : Z := 0.")),
    ("cs_exp_dist_code", EXP, c_exp_dist, _fb("Definition gen_cs_dist_axis (lo hi : Z) (point positions : Z) : Z := -1.")),
    ("cs_exp_kth_code", EXP, c_exp_kth, _fb("Definition gen_cs_kth (k : Z) : Z * Z := (k, k).")),
    ("cs_exp_radius_code", EXP, c_exp_radius, _fb("Definition gen_cs_in_radius (distances radius : Z) : bool := false.")),
    ("cs_agent_setter_code", AGT, c_agent_setter,
     _fb("Definition gen_cs_setter {V : Type} (torus in_bounds_value : bool) (value torus_correct_value : V) : option V := None.")),
    ("cs_exp_skeleton", EXP, c_exp_skeleton, _fb("Definition gen_cs_exp_skeleton_ok : bool := false.")),
]
